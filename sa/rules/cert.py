"""R-CERT (C01, C02): certification typestate on the exact driver.
A definitive status (OPTIMAL / INFEASIBLE) may leave the driver with a zero return code only through an
exact test that returned true on the caller's problem AND the hand-over of exactly the tested vectors.

R-OUTCOPY: the hand-over functions copy x <- x_mpq, y <- y_mpq element by element with the same index."""
from ..core import (walk, strip, is_var, callee, const_of, apath, show, short_loc, Flow, AnalysisBroken)
from ..cond import atoms, SWAP
from ..intstate import IntCells, Z, NZ, norm_local
from ..result import RuleResult, Violation

OPT, INF, OTHER = "OPT", "INF", "OTHER"
CLASS_BY_NAME = {"QS_LP_OPTIMAL": OPT, "QS_LP_INFEASIBLE": INF}

DEFAULT = {
    "driver": "QSexact_solver",
    "tests": {"QSexact_optimal_test": OPT, "QSexact_infeasible_test": INF},
    "outputs": {"optimal_output": OPT, "infeasible_output": INF},
}


class CertAnalysis:
    def __init__(self, prog, f, cfg):
        self.prog, self.f, self.cfg = prog, f, cfg
        # slots
        ip = [i for i, p in enumerate(f.params) if p[1].replace(" ", "") in ("int*", "int*const")]
        if len(ip) != 1:
            raise AnalysisBroken("%s: expected exactly one int* (status) parameter, found %d" % (f.name, len(ip)))
        self.status_idx = ip[0]
        pp = [i for i, p in enumerate(f.params) if "QSdata" in p[1]]
        if len(pp) != 1:
            raise AnalysisBroken("%s: expected exactly one QSdata* parameter" % f.name)
        self.prob_idx = pp[0]
        self.val2class = {}
        for b, i, e in f.elements(live_only=False):
            trees = [x[1] for x in e[1]] if e[0] == "D" else [e[1]]
            for t in trees:
                for n in walk(t):
                    if n[0] == "n" and n[2] in CLASS_BY_NAME:
                        self.val2class[n[1]] = CLASS_BY_NAME[n[2]]
        for b in f.blocks.values():
            if "c" in b:
                for n in walk(b["c"]):
                    if n[0] == "n" and n[2] in CLASS_BY_NAME:
                        self.val2class[n[1]] = CLASS_BY_NAME[n[2]]
            l = b.get("l")
            if l and l[0] == "case" and l[2] in CLASS_BY_NAME:
                self.val2class[l[1]] = CLASS_BY_NAME[l[2]]
        if set(self.val2class.values()) != {OPT, INF}:
            raise AnalysisBroken("%s: status constants QS_LP_OPTIMAL / QS_LP_INFEASIBLE not both found" % f.name)
        self.cells = IntCells(["rval", "__EGrval__"], self._get, self._put)
        self.exits = {}     # (rv, st, cert) -> (block, tuple, loc)
        self.events = {"tests_true_edges": set(), "outputs": set(), "status_writes": set()}
        self.n_returns = set()
        self.pairs = {name: handover_pairs(prog, name, f.unit, kind) for name, kind in cfg["outputs"].items()}

    # state tuple: (rv, tmp, st, cert)
    @staticmethod
    def _get(st, c):
        return st[0] if c == "rval" else st[1]

    @staticmethod
    def _put(st, c, v):
        return (v, st[1], st[2], st[3]) if c == "rval" else (st[0], v, st[2], st[3])

    def klass(self, t):
        k = const_of(t)
        if k is None:
            return None
        t = strip(t)
        if t[2] in CLASS_BY_NAME:
            return CLASS_BY_NAME[t[2]]
        return self.val2class.get(k, OTHER)

    def is_status_deref(self, t):
        t = strip(t)
        return (isinstance(t, list) and t and t[0] == "u" and t[1] == "*" and is_var(t[2], kind="p%d" % self.status_idx)
                and strip(t[2])[1] == "p%d" % self.status_idx)

    def is_status_ptr(self, t):
        t = strip(t)
        return is_var(t) and t[1] == "p%d" % self.status_idx

    def is_prob(self, t):
        t = strip(t)
        return is_var(t) and t[1] == "p%d" % self.prob_idx

    @staticmethod
    def vname(t):
        t = strip(t)
        return t[2] if is_var(t) else None

    def xfer(self, b, i, e, st):
        k = e[0]
        if k == "D":
            cur = [st]
            for name, init in e[1]:
                nxt = []
                for s in cur:
                    r = self.cells.declare(s, name, init)
                    nxt.extend(r if r is not None else [s])
                cur = nxt
            return cur
        if k == "A":
            n = e[1]
            lhs, rhs = n[2], n[3]
            if self.is_status_deref(lhs):
                self.events["status_writes"].add(e[2])
                c = self.klass(rhs) if n[1] == "=" else None
                if c is not None:
                    return [(st[0], st[1], c, "NONE")]
                return [(st[0], st[1], x, "NONE") for x in (OPT, INF, OTHER)]
            r = self.cells.assign(st, lhs, rhs, n[1])
            if r is not None:
                return r
            # a write to the tested vector variables invalidates the test
            cert = st[3]
            if isinstance(cert, tuple):
                nm = self.vname(lhs)
                root = apath(lhs)
                if (nm and nm in cert[1:]) or (root[1] in cert[1:] and root[0] == "l"):
                    return [(st[0], st[1], st[2], "NONE")]
            return [st]
        if k == "C":
            c = e[1]
            name = callee(c)
            args = c[3]
            cert = st[3]
            out = [st]
            if name in self.cfg["outputs"]:
                want = self.cfg["outputs"][name]
                self.events["outputs"].add(c[4])
                # which argument is copied into which is read off the hand-over function's body (R-OUTCOPY pairs), not assumed
                # from argument order or names: (destination position, source position)
                pairs = self.pairs.get(name) or set()
                px, py = "p%d" % (self.prob_idx + 1), "p%d" % (self.prob_idx + 2)      # the driver's primal / dual out-parameters
                # (the problem need not be among the arguments: a hand-over that is given the display level instead is the same hand-over)
                ok = bool(pairs) and isinstance(cert, tuple)
                seen = set()
                for (d, s_) in pairs:
                    if not ok:
                        break
                    if d >= len(args) or s_ >= len(args) or not is_var(args[d]):
                        ok = False
                        break
                    role = strip(args[d])[1]
                    seen.add(role)
                    if want == OPT and cert[0] == "T_OPT":
                        ok = (role == px and self.vname(args[s_]) == cert[1]) or (role == py and self.vname(args[s_]) == cert[2])
                    elif want == INF and cert[0] == "T_INF":
                        ok = role == py and self.vname(args[s_]) == cert[1]
                    else:
                        ok = False
                if ok and want == OPT and seen == {px, py}:
                    out = [(st[0], st[1], st[2], "H_OPT")]
                elif ok and want == INF and seen == {py}:
                    out = [(st[0], st[1], st[2], "H_INF")]
                return out
            if name in self.cfg["tests"]:
                return out   # effect on the edge
            res = []
            for s in out:
                cert = s[3]
                if isinstance(cert, tuple) and any(self.vname(a) in cert[1:] for a in args if self.vname(a)):
                    s = (s[0], s[1], s[2], "NONE")
                if any(self.is_status_ptr(a) for a in args):
                    for x in (OPT, INF, OTHER):
                        res.append((s[0], s[1], x, "NONE"))
                else:
                    res.append(s)
            return res
        if k == "R":
            self.n_returns.add(e[2])
            for v in self.cells.values(st, e[1]) if e[1] is not None else [Z]:
                key = (v, st[2], st[3] if not isinstance(st[3], tuple) else st[3][0])
                if key not in self.exits:
                    self.exits[key] = (b["id"], st, e[2])
            return [st]
        return None

    def refine(self, cond, truth, st):
        c = strip(cond)
        neg = False
        while isinstance(c, list) and c and c[0] == "u" and c[1] == "!":
            c = strip(c[2])
            neg = not neg
        t = truth != neg
        if isinstance(c, list) and c and c[0] == "c" and callee(c) in self.cfg["tests"]:
            if t:
                self.events["tests_true_edges"].add(c[4])
                kind = self.cfg["tests"][callee(c)]
                args = c[3]
                if not self.is_prob(args[0]):
                    return [st]
                if kind == OPT and len(args) >= 3 and self.vname(args[1]) and self.vname(args[2]):
                    return [(st[0], st[1], st[2], ("T_OPT", self.vname(args[1]), self.vname(args[2])))]
                if kind == INF and len(args) >= 2 and self.vname(args[1]):
                    return [(st[0], st[1], st[2], ("T_INF", self.vname(args[1])))]
            return [st]
        r = self.cells.refine(cond, truth, st)
        if not r:
            return []
        for l, op, rr in atoms(cond, truth):
            for a, b_, o in ((l, rr, op), (rr, l, SWAP[op])):
                if self.is_status_deref(a) and o in ("==", "!="):
                    cl = self.klass(b_)
                    if cl is None:
                        continue
                    if cl == OTHER:
                        if o == "==" and st[2] != OTHER:
                            return []
                    else:
                        if o == "==" and st[2] != cl:
                            return []
                        if o == "!=" and st[2] == cl:
                            return []
        return [st]

    def refine_switch(self, cond, value, allv, st):
        if not self.is_status_deref(cond):
            return [st]
        if value is not None:
            cl = self.val2class.get(value, OTHER)
            if cl == OTHER:
                return [st] if st[2] == OTHER else []
            return [st] if st[2] == cl else []
        have = {self.val2class.get(v, OTHER) for v in allv if v is not None}
        have.discard(OTHER)
        return [st] if st[2] not in have else []

    def run(self):
        self.flow = Flow(self.prog, self.f, [(Z, Z, OTHER, "NONE")], self.xfer, self.refine, self.refine_switch).run()
        return self


def _copies(f):
    """(call, dst param index, src param index, same index?) for every mpq_set(dst[i], src[j]) of the function; None fields when the
    operands are not subscripted parameters"""
    out = []
    for b, i, c in f.calls():
        if callee(c) != "mpq_set" or len(c[3]) < 2:
            continue
        d, s = strip(c[3][0]), strip(c[3][1])
        if d[0] == "i" and s[0] == "i" and is_var(d[1], kind="p") and is_var(s[1], kind="p"):
            out.append((c, int(strip(d[1])[1][1:]), int(strip(s[1])[1][1:]), d[2] == s[2]))
        else:
            out.append((c, None, None, False))
    return out


def handover_pairs(prog, name, unit, kind):
    """{(destination parameter position, source parameter position)} of a hand-over function, read off its element copies; for a
    function without a body (fixtures) the declared order  (p, out..., tested...)  is used"""
    f = prog.fn(name, unit) or prog.fn(name)
    if f is None or not f.blocks:
        return {(1, 3), (2, 4)} if kind == OPT else {(1, 2)}
    return {(d, s) for (c, d, s, same) in _copies(f) if d is not None and same and d != s}


def outcopy(prog, res, cfg, unit):
    """R-OUTCOPY: in the hand-over functions every mpq_set(dst[i], src[j]) copies one parameter vector into another with i == j,
    every destination has exactly one source; which vector goes where is checked at the call sites by R-CERT (the driver's primal
    out-parameter must receive the tested primal vector, the dual out-parameter the tested dual vector)."""
    for name, kind in cfg["outputs"].items():
        f = prog.fn(name, unit) or prog.fn(name)
        if f is None:
            raise AnalysisBroken("anchor function %s not found" % name)
        n = 0
        src_of = {}
        for (c, d, s, same) in _copies(f):
            n += 1
            res.obligations += 1
            ok = d is not None and same and d != s and src_of.setdefault(d, s) == s
            if not ok:
                res.violations.append(Violation("R-OUTCOPY", "%s|%s" % (name, show(c)), name, short_loc(c[4]),
                                                "hand-over copy does not pair one output vector with one tested vector at the same index: %s" % show(c)))
            else:
                res.sample({"obligation": "%s: %s" % (name, show(c)), "verdict": "parameter %d <- parameter %d, same index" % (d, s)})
        # ... and nothing but those copies writes an element of an output vector: a store through another GMP routine (mpq_neg, mpq_mul ...)
        # hands out a vector that is not the tested one
        outs = {d for d, _s in src_of.items()}
        for b, i, c in f.calls():
            nm = callee(c) or ""
            if nm == "mpq_set" or not c[3]:
                continue
            d = strip(c[3][0])
            if isinstance(d, list) and d and d[0] == "i" and is_var(d[1], kind="p") and int(strip(d[1])[1][1:]) in outs \
                    and nm.startswith(("mpq_", "__gmpq_", "mpz_")) and not nm.startswith(("mpq_cmp", "mpq_equal", "mpq_sgn", "mpq_get", "mpq_EGlpNumToLf")):
                res.obligations += 1
                res.violations.append(Violation("R-OUTCOPY", "%s|%s" % (name, show(c)[:50]), name, short_loc(c[4]),
                                                "%s writes an element of an output vector of the hand-over function by something else than a copy of the tested "
                                                "vector: what the caller receives is not what the exact test accepted" % show(c)[:70]))
        res.floor("mpq_set copies in %s" % name, n, 2 if kind == OPT else 1)


def run(prog, cfg=DEFAULT, rule="R-CERT", want=None):
    res = RuleResult(rule, "a definitive status leaves the exact driver with return code 0 only after an exact test "
                           "returned true on the caller's problem and exactly the tested vectors were handed over")
    f = prog.require_fn(cfg["driver"])
    if cfg is DEFAULT:
        for t in cfg["tests"]:
            prog.require_fn(t)
    an = CertAnalysis(prog, f, cfg).run()
    res.counts["blocks"] = len(f.blocks)
    res.counts["block_tuple_visits"] = an.flow.visits
    res.counts["events"] = {k: len(v) for k, v in an.events.items()}
    res.counts["returns"] = len(an.n_returns)
    res.counts["exit_tuples"] = []
    for (rv, st, cert), (bid, tup, loc) in sorted(an.exits.items(), key=lambda x: str(x[0])):
        res.obligations += 1
        res.nontrivial += 1
        ok = rv == NZ or st == OTHER or (st == OPT and cert == "H_OPT") or (st == INF and cert == "H_INF")
        desc = "rv=%s status=%s cert=%s" % (rv, st, cert)
        res.counts["exit_tuples"].append(desc + (" ok" if ok else " VIOLATION"))
        if want is not None and st not in want:
            continue
        if ok:
            res.sample({"obligation": "exit tuple (%s) at %s" % (desc, short_loc(loc)), "verdict": "ok"})
        else:
            path = an.flow.witness(bid, tup)
            res.violations.append(Violation(
                rule, "%s|exit rv=0 status=%s cert=%s" % (f.name, st, cert), f.name, short_loc(loc),
                "return code 0 with *status == %s reachable without %s" % (
                    "QS_LP_OPTIMAL" if st == OPT else "QS_LP_INFEASIBLE",
                    "optimal test + optimal_output of the tested vectors" if st == OPT else "infeasible test + infeasible_output of the tested vector"),
                path=path))
    res.floor("true edges of exact tests", len(an.events["tests_true_edges"]), 4 if want is None else 2)
    res.floor("hand-over calls", len(an.events["outputs"]), 4 if want is None else 2)
    res.floor("returns", len(an.n_returns), 1)
    if cfg is DEFAULT:
        outcopy(prog, res, cfg, f.unit)
    return res
