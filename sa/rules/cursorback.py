"""R-CURSORBACK (C10, C11): a tentative reader gives back everything it took.

The LP / MPS scanners have "possible" readers: they look whether a bound value follows and, if it is only the prefix of something else,
move the cursor back (`state->p -= len`) and answer "no value", so that the caller reads the same text as a name.  Such a function
states the belief "on failure the cursor is where it was".  If, before the part it un-reads, it has called another consumer of the same
scanner state (a callee that may move `p`) and thrown its result away, the characters that callee took are not given back: the sign of
` - x <= 5` was consumed, "no value" answered, and the line read as `x <= 5`.  Required in every function with such a partial un-read:
each discarded call of a consumer that precedes it is preceded by a save of the cursor into a local (`p0 = state->p`) that is stored
back into the cursor somewhere in the function (the MPS sibling counts the sign into `len` and has no such call)."""
from ..core import walk, strip, is_var, callee, show, short_loc, dominators, apath, fields_of
from ..result import RuleResult, Violation


def _is_cursor(t):
    p = apath(t)
    fl = fields_of(p[2]) if p else None
    return bool(fl) and fl[-1].endswith("read_lp_state::p") or bool(fl) and fl[-1].endswith("read_mps_state::p")


def run(prog, rule="R-CURSORBACK", floor=1):
    res = RuleResult(rule, "a reader that un-reads part of its input on failure also gives back what a discarded consumer call before it has taken")
    funcs = [f for f in prog.funcs.values() if f.live is not None and "_dbl." not in f.unit and "_mpf." not in f.unit and f.unit.startswith("qsopt_ex/")]
    # consumers: functions that may move the cursor of their state parameter (directly or through a callee)
    moves = set()
    for f in funcs:
        for b, i, e in f.elements():
            if e[0] in ("A", "U") and _is_cursor(e[1][2]):
                moves.add(f.key)
    changed = True
    while changed:
        changed = False
        for f in funcs:
            if f.key in moves:
                continue
            for b, i, c in f.calls():
                g = prog.resolve(f, c[1]) if c[1] else None
                if g is not None and g.key in moves:
                    moves.add(f.key)
                    changed = True
                    break
    n = 0
    for f in sorted(funcs, key=lambda x: x.key):
        unreads = [(b["id"], i, e) for b, i, e in f.elements() if e[0] == "A" and e[1][1] == "-=" and _is_cursor(e[1][2])]
        if not unreads:
            continue
        n += 1
        res.obligations += 1
        res.nontrivial += 1
        dom = dominators(prog, f)[0]
        saves = {}          # local -> (bid, idx) of  local = state->p
        restores = set()
        for b, i, e in f.elements():
            if e[0] == "A" and e[1][1] == "=" and is_var(strip(e[1][2]), kind="l") and _is_cursor(e[1][3]) and strip(e[1][3])[0] == "m":
                saves.setdefault(strip(e[1][2])[2], (b["id"], i))
            if e[0] == "D":
                for nme, init in e[1]:
                    if init is not None and isinstance(strip(init), list) and strip(init)[0] == "m" and _is_cursor(init):
                        saves.setdefault(nme, (b["id"], i))
            if e[0] == "A" and e[1][1] == "=" and _is_cursor(e[1][2]) and is_var(strip(e[1][3]), kind="l"):
                restores.add(strip(e[1][3])[2])
        bad = None
        for b, i, e in f.elements():
            if e[0] != "C":
                continue                                   # a statement call: its value is thrown away
            c = e[1]
            g = prog.resolve(f, c[1]) if c[1] else None
            if g is None or g.key not in moves or g.key == f.key:
                continue
            # does it precede an un-read?
            if not any((ub == b["id"] and ui > i) or (ub != b["id"] and b["id"] in dom.get(ub, ())) for ub, ui, _e in unreads):
                continue
            # is the statement's value used after all (assigned / tested in the same block)?
            used = False
            for e2 in b["e"]:
                if e2[0] in ("A", "D", "R"):
                    trees = [x[1] for x in e2[1] if x[1] is not None] if e2[0] == "D" else ([e2[1]] if e2[1] is not None else [])
                    if any(isinstance(nd, list) and nd and nd[0] == "c" and nd[4] == c[4] for t in trees for nd in walk(t)):
                        used = True
            cnd = b.get("c")
            if cnd is not None and any(isinstance(nd, list) and nd and nd[0] == "c" and nd[4] == c[4] for nd in walk(cnd)):
                used = True
            if used:
                continue
            saved = [v for v, (sb, si) in saves.items() if v in restores and ((sb == b["id"] and si < i) or (sb != b["id"] and sb in dom.get(b["id"], ())))]
            # ... or the un-read happens only where a cursor saved before the call is seen unchanged (`p = state->p; skip (state); if (p == state->p)`)
            if not saved:
                before = [v for v, (sb, si) in saves.items() if (sb == b["id"] and si < i) or (sb != b["id"] and sb in dom.get(b["id"], ()))]
                for cb in f.live:
                    cnd = f.blocks[cb].get("c")
                    if cnd is None:
                        continue
                    same = False
                    for nd in walk(cnd):
                        if isinstance(nd, list) and nd and nd[0] == "b" and nd[1] == "==":
                            for x, y in ((nd[2], nd[3]), (nd[3], nd[2])):
                                if is_var(strip(x), kind="l") and strip(x)[2] in before and _is_cursor(y):
                                    same = True
                    if same and all(cb == ub or cb in dom.get(ub, ()) for ub, ui, _e in unreads
                                    if (ub == b["id"] and ui > i) or (ub != b["id"] and b["id"] in dom.get(ub, ()))):
                        saved = ["(unchanged-cursor test)"]
            if not saved:
                bad = (c, e[2])
                break
        if bad:
            res.violations.append(Violation(rule, "%s|a discarded consumer call is not un-read" % f.name.replace("mpq_", ""), f.name, short_loc(bad[1]),
                                            "%s moves the cursor and its result is thrown away; the function later un-reads only what it took itself (`p -= len`) and "
                                            "answers 'nothing found' - the characters the call consumed are lost (no saved cursor is stored back)" % show(bad[0])[:70]))
        else:
            res.sample({"function": f.name, "verdict": "nothing is consumed outside the part that is un-read, or the cursor is saved and stored back"}, limit=6)
    res.counts["readers_with_a_partial_un_read"] = n
    res.floor("functions that move the scanner cursor back by a length", n, floor)
    return res
