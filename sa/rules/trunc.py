"""R-TRUNC (C08, C09, C14, C19): formatted output is never silently cut.

Whenever text is formatted with snprintf / vsnprintf into a buffer that the same function then hands to an output stream (fwrite,
fputs, gzwrite, BZ2_bzwrite, EGioWrite ...), the return value of the formatting call - the length the text needed - must be used
(assigned or compared): otherwise a line longer than the buffer loses its tail and its newline without anybody noticing, and the file
no longer denotes the numbers that were to be written (exact rationals have no length limit).  Formatting calls whose buffer goes
elsewhere (an fopen mode string, a message for the error collector) are not output data and are not restricted."""
from ..core import strip, is_var, callee, const_of, walk, show, short_loc
from ..result import RuleResult, Violation

FORMATTERS = {"snprintf": 0, "vsnprintf": 0}
STREAM_SINKS = {"fwrite": 0, "fputs": 0, "gzwrite": 1, "gzputs": 1, "BZ2_bzwrite": 1, "EGioWrite": 1, "write": 1}


def _result_used(f, b, idx, c):
    """the formatting call is nested in an assignment / condition / argument rather than being a statement of its own"""
    for e in b["e"]:
        if e[0] in ("A", "D", "R"):
            trees = [x[1] for x in e[1] if x[1] is not None] if e[0] == "D" else ([e[1]] if e[1] is not None else [])
            for t in trees:
                for nd in walk(t):
                    if nd[0] == "c" and nd is not c and nd[4] == c[4] and callee(nd) == callee(c):
                        return True
                    if nd is c and e[0] in ("A", "D", "R"):
                        return True
    cond = b.get("c")
    if cond is not None:
        for nd in walk(cond):
            if nd[0] == "c" and nd[4] == c[4] and callee(nd) == callee(c):
                return True
    return False


def run(prog, rule="R-TRUNC"):
    res = RuleResult(rule, "a snprintf / vsnprintf whose buffer is handed to an output stream by the same function has its return value (the "
                           "needed length) examined")
    n = 0
    for f in sorted(prog.funcs.values(), key=lambda x: x.key):
        if "_dbl." in f.unit or "_mpf." in f.unit or f.live is None:
            continue
        fmts = []
        sunk = set()
        for b, i, c in f.calls():
            nm = callee(c)
            if nm in FORMATTERS and c[3]:
                d = strip(c[3][0])
                if is_var(d, kind="l"):
                    fmts.append((b, i, c, d[2]))
            elif nm in STREAM_SINKS and len(c[3]) > STREAM_SINKS[nm]:
                a = strip(c[3][STREAM_SINKS[nm]])
                if is_var(a, kind="l"):
                    sunk.add(a[2])
        for (b, i, c, buf) in fmts:
            if buf not in sunk:
                continue
            n += 1
            res.obligations += 1
            res.nontrivial += 1
            sized = False
            if len(c[3]) > 1:
                # second pass of a two-pass formatting: the size is computed from the length a previous formatting call returned
                lens = set()
                for b2, i2, e2 in f.elements():
                    if e2[0] == "A" and is_var(e2[1][2], kind="l") and any(nd[0] == "c" and callee(nd) in FORMATTERS for nd in walk(e2[1][3])):
                        lens.add(strip(e2[1][2])[2])
                sized = any(is_var(x, kind="l") and strip(x)[2] in lens for x in walk(c[3][1]))
            if sized:
                res.sample({"site": "%s %s: %s" % (short_loc(c[4]), f.name, show(c)[:60]), "verdict": "second pass: buffer sized by the needed length"}, limit=6)
            elif _result_used(f, b, i, c):
                res.sample({"site": "%s %s: %s" % (short_loc(c[4]), f.name, show(c)[:60]), "verdict": "needed length examined"}, limit=6)
            else:
                res.violations.append(Violation(rule, "%s|%s into %s: needed length ignored" % (f.name.replace("mpq_", ""), callee(c), buf), f.name, short_loc(c[4]),
                                                "%s formats into %s, which this function then writes to an output stream, and ignores the returned length: text "
                                                "longer than the buffer is cut (tail and newline lost) without any error" % (show(c)[:90], buf)))
    res.counts["formatted_stream_writes"] = n
    res.floor("formatting calls whose buffer goes to a stream", n, 1)
    return res
