"""R-TRUNC (C08, C09, C14, C19): formatted output is never silently cut.

Whenever text is formatted with snprintf / vsnprintf into a buffer that the same function then hands to an output stream (fwrite,
fputs, gzwrite, BZ2_bzwrite, EGioWrite ...), the return value of the formatting call - the length the text needed - must be used
(assigned or compared): otherwise a line longer than the buffer loses its tail and its newline without anybody noticing, and the file
no longer denotes the numbers that were to be written (exact rationals have no length limit).  Formatting calls whose buffer goes
elsewhere (an fopen mode string, a message for the error collector) are not output data and are not restricted."""
from ..core import strip, is_var, callee, const_of, walk, show, short_loc
from ..result import RuleResult, Violation

FORMATTERS = {"snprintf": 0, "vsnprintf": 0}
# units whose formatted text is solver progress for the display reporter, never the content of a problem / basis / solution file
NOT_FILE_CONTENT = {"simplex_": "iteration log and start-up banner of the simplex (display reporter): a cut progress line changes no file and no result"}
STREAM_SINKS = {"fwrite": 0, "fputs": 0, "gzwrite": 1, "gzputs": 1, "BZ2_bzwrite": 1, "EGioWrite": 1, "write": 1}


def _result_used(f, b, idx, c):
    """the formatting call is nested in an assignment / condition / argument rather than being a statement of its own"""
    for e in b["e"]:
        if e[0] in ("A", "D", "R"):
            trees = [x[1] for x in e[1] if x[1] is not None] if e[0] == "D" else ([e[1]] if e[1] is not None else [])
            for t in trees:
                for nd in walk(t):
                    if nd[0] == "c" and nd is not c and nd[4] == c[4] and callee(nd) == callee(c):
                        return True
                    if nd is c and e[0] in ("A", "D", "R"):
                        return True
    cond = b.get("c")
    if cond is not None:
        for nd in walk(cond):
            if nd[0] == "c" and nd[4] == c[4] and callee(nd) == callee(c):
                return True
    return False


def _sink_summary(prog):
    """fkey -> set of parameter indices whose string the function writes to a stream: handed to a stream routine, to a function pointer
    (the reporter callback of ILLstring_report), or to a callee that does so"""
    S = {}
    funcs = [f for f in prog.funcs.values() if f.live is not None and "_dbl." not in f.unit and "_mpf." not in f.unit]
    changed = True
    while changed:
        changed = False
        for f in funcs:
            for b, i, c in f.calls():
                nm = callee(c)
                g = prog.resolve(f, c[1]) if c[1] else None
                positions = []
                if nm in STREAM_SINKS:
                    positions = [STREAM_SINKS[nm]]
                elif c[1] is None:
                    positions = list(range(len(c[3])))          # indirect call: a reporter / handler callback
                elif g is not None and g.key in S:
                    positions = sorted(S[g.key])
                for k in positions:
                    if k < len(c[3]):
                        a = strip(c[3][k])
                        if is_var(a) and isinstance(a[1], str) and a[1].startswith("p") and "char" in (f.params[int(a[1][1:])][1]):
                            if int(a[1][1:]) not in S.setdefault(f.key, set()):
                                S[f.key].add(int(a[1][1:]))
                                changed = True
    return S


def _length_compared(f, b, c):
    """the needed length (the call's value, or the local it is stored in) is compared with something other than zero: a test that can
    tell 'did not fit' from 'fitted'"""
    names = set()
    for e in b["e"]:
        if e[0] == "A" and e[1][1] == "=" and is_var(e[1][2], kind="l") and any(nd is c or (nd[0] == "c" and nd[4] == c[4]) for nd in walk(e[1][3])):
            names.add(strip(e[1][2])[2])
        if e[0] == "D":
            for n2, init in e[1]:
                if init is not None and any(nd[0] == "c" and nd[4] == c[4] for nd in walk(init)):
                    names.add(n2)
    # locals computed from the length (need = (size_t) n + 1) carry it
    for _round in range(2):
        for b2, i2, e2 in f.elements():
            if e2[0] == "A" and e2[1][1] == "=" and is_var(e2[1][2], kind="l") and any(is_var(z, kind="l") and isinstance(strip(z)[2], str) and strip(z)[2] in names for z in walk(e2[1][3])):
                names.add(strip(e2[1][2])[2])
            if e2[0] == "D":
                for n2, init in e2[1]:
                    if init is not None and any(is_var(z, kind="l") and isinstance(strip(z)[2], str) and strip(z)[2] in names for z in walk(init)):
                        names.add(n2)
    for bid in f.live:
        cnd = f.blocks[bid].get("c")
        if cnd is None:
            continue
        for nd in walk(cnd):
            if isinstance(nd, list) and nd and nd[0] == "b" and nd[1] in ("<", "<=", ">", ">=", "==", "!="):
                for x, y in ((nd[2], nd[3]), (nd[3], nd[2])):
                    x0 = strip(x)
                    hit = (is_var(x0, kind="l") and x0[2] in names) or (isinstance(x0, list) and x0 and x0[0] == "c" and x0[4] == c[4])
                    if hit and (const_of(y) is None or const_of(y) > 0):
                        return True
    # ... or it sizes an allocation (two-pass formatting)
    for b2, i2, e2 in f.elements():
        if e2[0] in ("A", "C"):
            for nd in walk(e2[1]):
                if isinstance(nd, list) and nd and nd[0] == "c" and (callee(nd) or "") in ("malloc", "realloc", "calloc", "ILLutil_allocrus", "EGmalloc"):
                    if any(is_var(z, kind="l") and z[2] in names for a in nd[3] for z in walk(a)):
                        return True
    return False


def _fits_nonstrict(prog, f, b, c, buf):
    """the needed length n of the formatting call c (size argument S) is compared with S, and the buffer reaches a stream sink on an edge on
    which only n <= S is known (the text fits iff n < S: the count excludes the NUL).  Returns (loc, condition text) or None."""
    from ..cond import atoms, SWAP
    if len(c[3]) < 2:
        return None
    size_txt = show(strip(c[3][1]))
    names = set()
    for e in b["e"]:
        if e[0] == "A" and e[1][1] == "=" and is_var(e[1][2], kind="l") and any(nd is c or (nd[0] == "c" and nd[4] == c[4]) for nd in walk(e[1][3])):
            names.add(strip(e[1][2])[2])
        if e[0] == "D":
            for n2, init in e[1]:
                if init is not None and any(nd[0] == "c" and nd[4] == c[4] for nd in walk(init)):
                    names.add(n2)
    if not names:
        return None
    from ..core import dominators
    dom = dominators(prog, f)[0]
    sinks = set()
    for b2, i2, c2 in f.calls():
        if c2 is c:
            continue
        if any(is_var(strip(a), kind="l", name=buf) for a in c2[3]) and callee(c2) not in FORMATTERS:
            sinks.add(b2["id"])
    for bid in f.live:
        cnd = f.blocks[bid].get("c")
        ss = prog.live_succs(f, f.blocks[bid])
        if cnd is None or len(ss) != 2:
            continue
        for idx, s_ in enumerate(ss):
            if s_ is None:
                continue
            for l, op, r in atoms(cnd, idx == 0):
                for a, b_, o in ((l, r, op), (r, l, SWAP[op])):
                    a0 = strip(a)
                    while isinstance(a0, list) and a0 and a0[0] == "k":
                        a0 = strip(a0[2])
                    if is_var(a0, kind="l") and a0[2] in names and show(strip(b_)) == size_txt and o == "<=":
                        if any(s_ == sb or s_ in dom.get(sb, ()) for sb in sinks):
                            return (f.blocks[bid].get("tloc", f.loc), show(cnd)[:60])
    return None


def run(prog, rule="R-TRUNC"):
    res = RuleResult(rule, "a snprintf / vsnprintf whose buffer is handed to an output stream by the same function has its return value (the "
                           "needed length) examined")
    n = 0
    SINKS = _sink_summary(prog)
    res.counts["functions_that_write_a_string_parameter_to_a_stream"] = len(SINKS)
    for f in sorted(prog.funcs.values(), key=lambda x: x.key):
        if "_dbl." in f.unit or "_mpf." in f.unit or f.live is None:
            continue
        if any(u in f.unit for u in NOT_FILE_CONTENT):
            continue
        fmts = []
        sunk = set()
        for b, i, c in f.calls():
            nm = callee(c)
            if nm in FORMATTERS and c[3]:
                d = strip(c[3][0])
                if is_var(d, kind="l"):
                    fmts.append((b, i, c, d[2]))
            elif nm in STREAM_SINKS and len(c[3]) > STREAM_SINKS[nm]:
                a = strip(c[3][STREAM_SINKS[nm]])
                if is_var(a, kind="l"):
                    sunk.add(a[2])
            elif c[1] is None:
                for a in c[3]:                                   # a reporter / handler callback (ILLstring_report is a macro around one)
                    if is_var(strip(a), kind="l"):
                        sunk.add(strip(a)[2])
            else:
                g = prog.resolve(f, c[1]) if c[1] else None
                if g is not None and g.key in SINKS:
                    for k in SINKS[g.key]:
                        if k < len(c[3]) and is_var(strip(c[3][k]), kind="l"):
                            sunk.add(strip(c[3][k])[2])
        for (b, i, c, buf) in fmts:
            if buf not in sunk:
                continue
            n += 1
            res.obligations += 1
            res.nontrivial += 1
            sized = False
            if len(c[3]) > 1:
                # second pass of a two-pass formatting: the size is computed from the length a previous formatting call returned
                lens = set()
                for b2, i2, e2 in f.elements():
                    if e2[0] == "A" and is_var(e2[1][2], kind="l") and any(nd[0] == "c" and callee(nd) in FORMATTERS for nd in walk(e2[1][3])):
                        lens.add(strip(e2[1][2])[2])
                for b2, i2, e2 in f.elements():          # need = (size_t) n + 1
                    if e2[0] == "A" and e2[1][1] == "=" and is_var(e2[1][2], kind="l") and any(is_var(z, kind="l") and isinstance(strip(z)[2], str) and strip(z)[2] in lens for z in walk(e2[1][3])):
                        lens.add(strip(e2[1][2])[2])
                sized = any(is_var(x, kind="l") and strip(x)[2] in lens for x in walk(c[3][1]))
            if sized:
                res.sample({"site": "%s %s: %s" % (short_loc(c[4]), f.name, show(c)[:60]), "verdict": "second pass: buffer sized by the needed length"}, limit=6)
            elif _result_used(f, b, i, c) and not _length_compared(f, b, c):
                res.violations.append(Violation(rule, "%s|%s into %s: needed length only tested for failure" % (f.name.replace("mpq_", ""), callee(c), buf), f.name, short_loc(c[4]),
                                                "%s formats into %s, which this function then writes to an output stream; the returned length is looked at but never "
                                                "compared with the size of the buffer (only with zero): a text that did not fit is written cut, without any error" % (
                                                    show(c)[:90], buf)))
            elif _result_used(f, b, i, c) and _fits_nonstrict(prog, f, b, c, buf):
                loc2, txt = _fits_nonstrict(prog, f, b, c, buf)
                res.violations.append(Violation(rule, "%s|%s into %s: a text of exactly the buffer's size counts as fitting" % (f.name.replace("mpq_", ""), callee(c), buf), f.name,
                                                short_loc(loc2), "%s: the buffer %s is written to the stream on an edge where the needed length may equal the size given to %s; "
                                                "the length excludes the terminating NUL, so that text has lost its last character (the newline of a record)" % (
                                                    txt, buf, callee(c))))
            elif _result_used(f, b, i, c):
                res.sample({"site": "%s %s: %s" % (short_loc(c[4]), f.name, show(c)[:60]), "verdict": "needed length examined"}, limit=6)
            else:
                res.violations.append(Violation(rule, "%s|%s into %s: needed length ignored" % (f.name.replace("mpq_", ""), callee(c), buf), f.name, short_loc(c[4]),
                                                "%s formats into %s, which this function then writes to an output stream, and ignores the returned length: text "
                                                "longer than the buffer is cut (tail and newline lost) without any error" % (show(c)[:90], buf)))
    for u, why in NOT_FILE_CONTENT.items():
        res.excepted.append((u + "*.c", why))
    res.counts["formatted_stream_writes"] = n
    res.floor("formatting calls whose buffer goes to a stream", n, 1)
    return res
