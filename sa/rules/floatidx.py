"""R-FLOATIDX (C17): no subscript is computed in floating point without a range test.

An int that receives the (truncated) result of a floating-point function - any callee whose declared return type is double /
float (log10, pow, floor, ...; the set is read off the declarations) - is only as good as that function's domain: log10(0) is
-inf, and its conversion to int is undefined (INT_MIN in practice).  Such a variable must not reach an array subscript (directly
or inside the index arithmetic) unless a comparison of that variable dominates the use.  The one instance on the pinned tree was
ILLsymboltab_uname: numlen = log10((tablesize - 1) * 10) + 1 with tablesize == 1, followed by new_pre[ILL_namebufsize - numlen -
1] = 0 - a write 2 GiB past a stack buffer when an unnamed row is added after a deletion left one auto-named row."""
import collections

from ..core import walk, strip, is_var, callee, const_of, show, short_loc, dominators
from ..result import RuleResult, Violation


def run(prog, rule="R-FLOATIDX", extra_units=()):
    res = RuleResult(rule, "an int computed from the result of a floating-point function reaches no array subscript without a dominating "
                           "comparison of that int")
    fret = {}
    for uname, raw in prog.units.items():
        for d in raw["fdecls"]:
            if d.get("ret") in ("double", "float", "long double"):
                fret[d["name"]] = d["ret"]
    res.counts["floating_point_functions_declared"] = len(fret)
    nsrc = 0
    for f in sorted(prog.funcs.values(), key=lambda x: x.key):
        if "_dbl." in f.unit or "_mpf." in f.unit or f.live is None:
            continue
        tainted = {}
        for b, i, e in f.elements():
            pairs = []
            if e[0] == "A" and is_var(e[1][2], kind="l"):
                pairs.append((strip(e[1][2])[2], e[1][3], e[2]))
            elif e[0] == "D":
                pairs += [(n2, init, e[2]) for n2, init in e[1] if init is not None]
            for n2, rhs, loc in pairs:
                ty = (f.ltypes.get(n2) or "")
                if not any(w in ty for w in ("int", "long", "short", "size_t", "unsigned")) or "*" in ty or "[" in ty:
                    continue
                calls = [nd for nd in walk(rhs) if nd[0] == "c" and nd[1] in fret]
                if calls:
                    tainted.setdefault(n2, (loc, show(rhs)[:70], calls[0][1]))
        if not tainted:
            continue
        nsrc += len(tainted)
        dom, succ = dominators(prog, f)
        guards = collections.defaultdict(set)
        for bid in f.live:
            c = f.blocks[bid].get("c")
            if c is None:
                continue
            c0 = strip(c)
            if isinstance(c0, list) and c0 and c0[0] == "b" and c0[1] in ("<", "<=", ">", ">=", "==", "!="):
                for side in (c0[2], c0[3]):
                    if is_var(side, kind="l") and strip(side)[2] in tainted:
                        guards[strip(side)[2]].add(bid)
        for b, i, e in f.elements():
            if e[0] != "S":
                continue
            t = strip(e[1])
            if not (isinstance(t, list) and t and t[0] == "i"):
                continue
            used = {strip(x)[2] for x in walk(t[2]) if is_var(x, kind="l") and strip(x)[2] in tainted}
            for v in sorted(used):
                res.obligations += 1
                res.nontrivial += 1
                if guards[v] & dom.get(b["id"], set()):
                    res.sample({"site": "%s %s: %s" % (short_loc(e[2]), f.name, show(t)[:50]), "verdict": "%s compared before the use" % v}, limit=4)
                    continue
                src = tainted[v]
                key = "%s|subscript computed from %s() through %s" % (f.name.replace("mpq_", ""), src[2], v)
                if any(x.key == key for x in res.violations):
                    continue
                res.violations.append(Violation(rule, key, f.name, short_loc(e[2]),
                                                "%s is subscripted with an index that depends on %s, which was computed in floating point (%s at %s) and is never "
                                                "compared with anything before the use: outside the function's domain the conversion to int is undefined and the "
                                                "access leaves the array" % (show(t[1])[:40], v, src[1], short_loc(src[0]))))
    res.counts["ints_computed_from_floating_point_calls"] = nsrc
    return res
