"""R-SENSEMAP (C05): the three builders of a row's logical column agree.

A row's sense letter is represented a second time by its logical column: coefficient +1 / -1 and upper bound 0 / range /
infinity.  The column is built by ILLlib_addrow (API appends), ILLlp_add_logicals (file readers) and rebuilt by ILLlib_chgsense
(API edits).  If the three disagree for a letter, a row turned into that sense through the API is solved as another constraint
than the one the query API and the writers report (and than a freshly built copy).  The sign each function gives the coefficient
is enumerated per sense letter through the switch / if forms (status-value enumeration on the CFG) and the tables are compared."""
import collections

from ..core import strip, is_var, callee, const_of, show, short_loc, walk, Flow
from ..result import RuleResult, Violation

LETTERS = {"E": 69, "G": 71, "L": 76, "R": 82}
BUILDERS = ("ILLlib_addrow", "ILLlib_chgsense", "ILLlp_add_logicals")


def _is_sense(t):
    t = strip(t)
    return isinstance(t, list) and t and t[0] in ("v", "i", "m") and "sense" in show(t)


def _ev(t, val):
    t = strip(t)
    if not isinstance(t, list) or not t:
        return None
    k = const_of(t)
    if k is not None:
        return k
    if _is_sense(t):
        return val
    if t[0] == "u" and t[1] == "!":
        v = _ev(t[2], val)
        return None if v is None else int(not v)
    if t[0] == "b":
        a, b = _ev(t[2], val), _ev(t[3], val)
        if t[1] == "&&":
            if a == 0 or b == 0:
                return 0
            return None if a is None or b is None else 1
        if t[1] == "||":
            if (a not in (None, 0)) or (b not in (None, 0)):
                return 1
            return None if a is None or b is None else 0
        if a is None or b is None:
            return None
        ops = {"==": a == b, "!=": a != b}
        return int(ops[t[1]]) if t[1] in ops else None
    return None


def _coef_target(t, names):
    """the number is the logical column's coefficient: an element of ILLmatrix::matval, or the local array that the function hands
    to matrix_addcol as the column's values (discovered, not named)"""
    from ..core import apath, fields_of
    p = apath(t)
    if any(x.endswith("ILLmatrix::matval") for x in fields_of(p[2])):
        return True
    return p[0] == "l" and p[1] in names


def run(prog, prefix="mpq_", rule="R-SENSEMAP"):
    res = RuleResult(rule, "ILLlib_addrow, ILLlp_add_logicals and ILLlib_chgsense give the logical column of a row the same coefficient sign "
                           "for every sense letter")
    table = collections.defaultdict(dict)
    for fn in BUILDERS:
        f = prog.require_fn(prefix + fn)
        names = set()
        for b, i, c in f.calls():
            if (callee(c) or "").endswith("matrix_addcol") and c[3]:
                a = strip(c[3][-1])
                while isinstance(a, list) and a and a[0] in ("u", "i"):
                    a = strip(a[2] if a[0] == "u" else a[1])
                if is_var(a, kind="l"):
                    names.add(a[2])
        for letter, val in LETTERS.items():
            signs = set()

            def xfer(b, i, e, st, signs=signs, names=names):
                if e[0] == "C" and e[1][3] and _coef_target(e[1][3][0], names):
                    n = callee(e[1])
                    if n == "mpq_set_ui" and len(e[1][3]) >= 3:
                        a, d = const_of(e[1][3][1]), const_of(e[1][3][2])
                        if a is not None and d:
                            return [(1 if a > 0 else 0,)]
                    if n == "mpq_neg":
                        return [(-st[0] if st[0] is not None else None,)]
                    if n in ("mpq_set", "mpq_set_si"):
                        return [(None,)]
                if e[0] == "C" and callee(e[1]) in (prefix + "matrix_addcol", "matrix_addcol") and st[0]:
                    signs.add(st[0])           # the coefficient is handed to the matrix with this sign
                if e[0] == "R" and st[0]:
                    signs.add(st[0])
                return None

            def refine(cond, truth, st, val=val):
                v = _ev(cond, val)
                if v is None:
                    return None
                return [st] if bool(v) == truth else []

            def rsw(cond, value, allv, st, val=val):
                if _is_sense(cond):
                    if value is None:
                        return [st] if val not in allv else []
                    return [st] if value == val else []
                return [st]
            Flow(prog, f, [(None,)], xfer, refine, rsw).run()
            table[fn][letter] = signs
    for letter in LETTERS:
        res.obligations += 1
        res.nontrivial += 1
        got = {fn: table[fn][letter] for fn in BUILDERS}
        if any(not g for g in got.values()):
            missing = [fn for fn, g in got.items() if not g]
            from ..core import AnalysisBroken
            for fn in missing:
                if not any(table[fn][l2] for l2 in LETTERS):
                    raise AnalysisBroken("R-SENSEMAP: no coefficient sign found at all in %s (the builder was restructured)" % fn)
            f = prog.require_fn(prefix + missing[0])
            res.violations.append(Violation(rule, "sense %s|%s leaves the coefficient of the logical column as it was" % (letter, missing[0]), f.name, short_loc(f.loc),
                                            "for sense '%s' %s sets no coefficient for the logical column although it does for other senses: a row that had the other "
                                            "sign before (a 'G' or range row) keeps it and is solved as a different constraint than the one reported" % (letter, missing[0])))
            continue
        allsigns = set().union(*got.values())
        if len(allsigns) != 1 or any(len(g) != 1 for g in got.values()):
            desc = "; ".join("%s: %s" % (fn, "/".join("%+d" % x for x in sorted(g))) for fn, g in got.items())
            odd = [fn for fn, g in got.items() if g != got["ILLlib_addrow"]]
            f = prog.require_fn(prefix + (odd[0] if odd else BUILDERS[0]))
            res.violations.append(Violation(rule, "sense %s|builders of the logical column disagree on the coefficient sign" % letter, f.name, short_loc(f.loc),
                                            "for a row of sense '%s' the logical column's coefficient is %s: a row given this sense through %s is solved as a "
                                            "different constraint than a row created with it (and than the query API / the writers report)" % (
                                                letter, desc, odd[0] if odd else "?")))
        else:
            res.sample({"sense": letter, "coefficient_sign": "%+d" % list(allsigns)[0], "verdict": "same in " + ", ".join(BUILDERS)}, limit=4)
    return res


def run_rangealloc(prog, rule="R-RANGEALLOC", floor=2):
    """a ranged row has a range.  `ILLlpdata::rangeval` is allocated lazily (a problem without ranged rows has none); the writers emit
    the RANGES section / the range of an 'R' row only when the array exists.  Every store of the constant 'R' into an element of
    `ILLlpdata::sense` is therefore reached only over paths on which the array is known to exist: a store into the field
    `ILLlpdata::rangeval` (an allocation) or the non-NULL edge of a test of it (must-analysis, path-sensitive; an allocation that a
    caller has made before the call counts when every caller makes it)."""
    from ..core import Flow, walk, strip, is_var, const_of, show, short_loc, apath, fields_of
    from ..cond import atoms, SWAP
    res = RuleResult(rule, "the constant 'R' is stored into ILLlpdata::sense only where ILLlpdata::rangeval is known to be allocated")
    funcs = [f for f in prog.funcs.values() if f.live is None or True]
    n = 0
    pending = []
    for f in sorted(prog.funcs.values(), key=lambda x: x.key):
        if f.live is None or "_dbl." in f.unit or "_mpf." in f.unit or not f.unit.startswith("qsopt_ex/"):
            continue
        stores = {}
        for b, i, e in f.elements():
            if e[0] == "A" and e[1][1] == "=" and const_of(e[1][3]) == ord("R"):
                l = strip(e[1][2])
                if isinstance(l, list) and l and l[0] == "i":
                    fl = fields_of(apath(l[1])[2]) if apath(l[1]) else None
                    if fl and fl[-1].endswith("ILLlpdata::sense"):
                        stores[(b["id"], i)] = e
        if not stores:
            continue
        bad = {}

        def is_rangeval(t):
            t = strip(t)
            return isinstance(t, list) and t and t[0] == "m" and isinstance(t[2], str) and t[2].endswith("ILLlpdata::rangeval")

        def xfer(b, i, e, st):
            if e[0] == "A" and is_rangeval(e[1][2]) and const_of(e[1][3]) != 0:
                st = (1,)
            if e[0] == "D":
                for nme, init in e[1]:
                    if nme.startswith("__ptr__") and init is not None:
                        t = strip(init)
                        if isinstance(t, list) and t and t[0] == "u" and t[1] == "&" and is_rangeval(t[2]):
                            st = (1,)              # EGlpNumReallocArray (&(lp->rangeval), n)
            if (b["id"], i) in stores and st == (0,):
                bad.setdefault((b["id"], i), st)
            return [st]

        def refine(cond, truth, st):
            for l, op, r in atoms(cond, truth):
                for a, b_, o in ((l, r, op), (r, l, SWAP[op])):
                    if is_rangeval(a) and const_of(b_) == 0:
                        if o == "!=":
                            return [(1,)]
            return [st]

        fl_ = Flow(prog, f, [(0,)], xfer, refine).run()
        for key, e in stores.items():
            n += 1
            res.obligations += 1
            res.nontrivial += 1
            if key in bad:
                res.violations.append(Violation(rule, "%s|'R' stored without a range array" % f.name.replace("mpq_", ""), f.name, short_loc(e[2]),
                                                "%s is reached over a path on which ILLlpdata::rangeval has neither been allocated nor been seen non-NULL: the row is "
                                                "ranged for the solver, but the writers print a RANGES record only when the array exists" % show(e[1])[:50],
                                                path=fl_.witness(key[0], bad[key])))
            else:
                res.sample({"site": "%s %s: %s" % (short_loc(e[2]), f.name, show(e[1])[:50]), "verdict": "range array allocated / seen non-NULL on every path"}, limit=8)
    res.counts["stores_of_R"] = n
    res.floor("stores of the constant 'R' into ILLlpdata::sense", n, floor)
    return res
