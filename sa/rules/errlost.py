"""R-ERRLOST (C07, C11, C19): an error code returned by a callee that can fail is examined before it is overwritten or
dropped.  For every assignment `rval = f(...)` where f is a function of the library that can return non-zero on a
path other than allocation failure, every path from the assignment reaches a use of rval (a test, a return of it, an
accumulation `rval = rval || ...`, an argument) before rval is assigned again or the function returns something
else.  Overwriting with a value that is certainly non-zero (a non-zero constant, the result of one of the error
reporters that always return non-zero) keeps the failure and is accepted; so is returning such a value."""
from ..core import walk, strip, is_var, callee, const_of, show, short_loc, Flow, AnalysisBroken
from ..intstate import norm_local
from ..result import RuleResult, Violation
from .shell import may_fail

ALWAYS_NONZERO = ("ILLlp_error", "ILLmps_error", "ILLdata_error", "ILLmps_set_end_of_line")
ALLOC_ONLY = {"ILLraw_add_col_coef": "fails only when ILLcolptralloc cannot allocate",
              "ILLraw_add_ranges_coef": "fails only when ILLcolptralloc cannot allocate"}
EXCEPT = {
    ("read_mps_refrow", "ILLmps_next_line"): "documented in the code: a repeated REFROW section is skipped without complaint, whatever next_line says",
}
RV = ("rval", "__EGrval__", "__RVAL__")


def _mentions(t):
    return any(nd[0] == "v" and norm_local(nd[2]) in RV for nd in walk(t))


def _base(n):
    for pre in ("mpq_", "dbl_", "mpf_"):
        if n.startswith(pre):
            return n[len(pre):]
    return n


def _certainly_nonzero(t):
    t = strip(t)
    k = const_of(t)
    if k is not None:
        return k != 0
    if isinstance(t, list) and t and t[0] == "c" and callee(t) and _base(callee(t)) in ALWAYS_NONZERO:
        return True
    return False


def run(prog, scope_funcs=None, rule="R-ERRLOST", floor=40):
    res = RuleResult(rule, "the result of a call that can fail, once stored in rval, is examined on every path before rval is assigned again "
                           "or the function returns another value")
    tracked = 0
    for f in sorted(prog.funcs.values(), key=lambda x: x.key):
        if scope_funcs is not None and f.key not in scope_funcs:
            continue
        if not (f.unit.startswith("qsopt_ex/") or f.unit.startswith("esolver/")) or "_dbl." in f.unit or "_mpf." in f.unit:
            continue
        if len(f.blocks) > 1500:
            continue
        lost = {}
        sites = set()

        def xfer(b, i, e, st):
            pend = st[0]
            if e[0] == "A":
                lhs = strip(e[1][2])
                if is_var(lhs) and norm_local(lhs[2]) == "rval":
                    rhs = e[1][3]
                    if e[1][1] != "=" or _mentions(rhs):
                        return [(None,)]
                    if pend is not None and not _certainly_nonzero(rhs):
                        lost.setdefault(pend, (short_loc(e[2]), "overwritten by %s" % show(e[1])[:70], b["id"], st))
                    rc = strip(rhs)
                    if isinstance(rc, list) and rc and rc[0] == "c" and callee(rc):
                        g = prog.resolve(f, callee(rc))
                        if g is not None and _base(g.name) not in ALLOC_ONLY and _base(g.name) not in ALWAYS_NONZERO and may_fail(prog, g):
                            sites.add(short_loc(e[2]))
                            return [((short_loc(e[2]), g.name),)]
                    return [(None,)]
                if _mentions(e[1][3]):
                    return [(None,)]
                return None
            if e[0] == "C":
                if any(_mentions(a) for a in e[1][3]):
                    return [(None,)]
                return None
            if e[0] == "R":
                if e[1] is not None and _mentions(e[1]):
                    return [(None,)]
                if pend is not None and not (e[1] is not None and _certainly_nonzero(e[1])):
                    lost.setdefault(pend, (short_loc(e[2]), "the function returns %s without looking at it" % (show(e[1])[:40] if e[1] is not None else ""), b["id"], st))
                return None
            if e[0] == "D":
                for nm, init in e[1]:
                    if init is not None and _mentions(init):
                        return [(None,)]
            return None

        def refine(cond, truth, st):
            if _mentions(cond):
                return [(None,)]
            return None
        try:
            fl = Flow(prog, f, [(None,)], xfer, refine, max_visits=400000).run()
        except AnalysisBroken:
            continue
        tracked += len(sites)
        res.obligations += len(sites)
        res.nontrivial += len(sites)
        for (loc, cal), (where, what, bid, st) in sorted(lost.items()):
            key = (f.name.replace("mpq_", ""), _base(cal))
            if key in EXCEPT:
                res.excepted.append(("%s|%s" % key, EXCEPT[key]))
                continue
            res.violations.append(Violation(rule, "%s|result of %s lost" % key, f.name, loc,
                                            "the error code of %s stored in rval at %s is %s (%s): a failure of the callee goes unnoticed" % (
                                                cal, loc, what, where), path=fl.witness(bid, st)))
    res.counts["call_results_tracked"] = tracked
    res.floor("call results tracked", tracked, floor)
    return res
