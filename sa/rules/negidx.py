"""R-NEGIDX (C17, C19): "non-zero" is not "positive".

A local int that a statement has decremented (`argc -= 1;`, `n--;` on its own) can be -1 when the count it came from was 0.  A subscript
by such a variable whose controlling conditions on the variable are truthiness tests only (`if (argc)`, `argc != 0`) admits the
negative value: `argv[-1]`.  Required: some controlling condition orders the variable against a constant (`> 0`, `>= 0`, `>= 1`, `< 0`
on the excluded branch).  The idiom `while (n--) a[n]` (decrement inside the condition, which has just been seen non-zero) is not a
statement decrement and is not concerned; neither are loop counters that a `for` header bounds."""
import collections

from ..core import walk, strip, is_var, const_of, show, short_loc, dominators
from ..cond import atoms, SWAP
from ..result import RuleResult, Violation


def run(prog, rule="R-NEGIDX", floor=40, units=("esolver/", "qsopt_ex/")):
    res = RuleResult(rule, "a subscript by a local that a statement has decremented is controlled by an ordering test of that local, not only by a "
                           "truthiness test")
    n = 0
    for f in sorted(prog.funcs.values(), key=lambda x: x.key):
        if f.live is None or "_dbl." in f.unit or "_mpf." in f.unit or not f.unit.startswith(units):
            continue
        dec = {}
        for b, i, e in f.elements():
            if e[0] == "A" and e[1][1] == "-=" and is_var(strip(e[1][2]), kind="l") and (const_of(e[1][3]) or 0) > 0:
                dec.setdefault(strip(e[1][2])[2], e[2])
            elif e[0] == "U" and e[1][1].startswith("--") and is_var(strip(e[1][2]), kind="l"):
                dec.setdefault(strip(e[1][2])[2], e[2])
        dec = {v: l for v, l in dec.items() if not any(k in (f.ltypes.get(v, "") or "") for k in ("unsigned", "size_t"))}     # an unsigned counter has no -1
        if not dec:
            continue
        # variables with any ordering comparison / for-header bound anywhere are treated per site below
        dom = None
        sites = []
        for bid in f.live:
            blk = f.blocks[bid]
            trees = []
            for e in blk["e"]:
                if e[0] == "D":
                    trees += [(x[1], e[2]) for x in e[1] if x[1] is not None]
                elif len(e) > 1 and isinstance(e[1], list):
                    trees.append((e[1], e[2] if len(e) > 2 else f.loc))
            if blk.get("c") is not None:
                trees.append((blk["c"], blk.get("tloc", f.loc)))
            for t, loc in trees:
                for nd in walk(t):
                    if isinstance(nd, list) and nd and nd[0] == "i" and is_var(strip(nd[2]), kind="l") and strip(nd[2])[2] in dec:
                        sites.append((bid, loc, nd, strip(nd[2])[2]))
        if not sites:
            continue
        dom = dominators(prog, f)[0]
        conds = {}
        for bid in f.live:
            c = f.blocks[bid].get("c")
            ss = prog.live_succs(f, f.blocks[bid])
            if c is not None and len(ss) == 2:
                conds[bid] = (c, ss)
        seen = set()
        for bid, loc, nd, v in sites:
            key = (v, ":".join(str(loc).split(":")[:2]))
            if key in seen:
                continue
            seen.add(key)
            truthy, ordered = [], False
            for d, (c, ss) in conds.items():
                for idx, s_ in enumerate(ss):
                    if s_ is None or not (s_ == bid or s_ in dom.get(bid, ())):
                        continue
                    if all((x == bid or x in dom.get(bid, ())) for x in ss if x is not None):
                        continue                    # both branches lead here: not a controlling edge
                    for l, op, r in atoms(c, idx == 0):
                        for a, b_, o in ((l, r, op), (r, l, SWAP[op])):
                            if is_var(a, name=v, kind="l"):
                                if o in ("<", "<=", ">", ">="):
                                    ordered = True
                                elif o == "!=" and const_of(b_) == 0:
                                    truthy.append(f.blocks[d].get("tloc", f.loc))
                    # the decrement inside the condition (while (n--)): not concerned
                    if any(isinstance(x, list) and x and x[0] == "u" and str(x[1]).startswith("--") and is_var(strip(x[2]), name=v) for x in walk(c)):
                        ordered = True
            # any ordering comparison of v against something in a dominating condition block (loop headers)
            for d, (c, ss) in conds.items():
                if d in dom.get(bid, ()) and any(isinstance(x, list) and x and x[0] == "b" and x[1] in ("<", "<=", ">", ">=") and
                                                 (is_var(strip(x[2]), name=v) or is_var(strip(x[3]), name=v)) for x in walk(c)):
                    ordered = True
            if not truthy and not ordered:
                continue
            n += 1
            res.obligations += 1
            res.nontrivial += 1
            if ordered or not truthy:
                res.sample({"site": "%s %s: %s" % (short_loc(loc), f.name, show(nd)[:40]), "verdict": "an ordering test controls the subscript"}, limit=6)
            else:
                res.violations.append(Violation(rule, "%s|%s subscripts after a decrement under a truthiness test" % (f.name.replace("mpq_", ""), v), f.name, short_loc(loc),
                                                "%s: %s was decremented by a statement (%s) and the subscript is controlled only by `if (%s)` (%s): the value -1 passes "
                                                "the test" % (show(nd)[:40], v, short_loc(dec[v]), v, short_loc(truthy[0]))))
    res.counts["guarded_subscripts_by_statement_decremented_locals"] = n
    res.floor("guarded subscripts by a signed local that a statement decrements", n, floor)
    return res
