"""R-NULLRET (C17): an object received from a routine that can hand back NULL is tested before it is looked into.

The routines are found from the code: a function of the library that returns a pointer and has a return of the constant 0, or
returns a local that is set to 0 somewhere (the `CLEANUP: if (rval) { free (p2); p2 = 0; } return p2;` shape of the problem copiers,
readers and creators).  In every caller that stores the result in a local, a dereference of that local (`v->f`, `*v`, `v[i]`) must be
reached only through an edge that established it is not NULL (path-sensitive).  Handing the pointer on to a library call is not a
dereference (the callees check their problem pointer); the exact driver looked into its mpf copy without a test."""
import collections

from ..core import strip, is_var, callee, const_of, show, short_loc, walk, Flow
from ..cond import atoms, SWAP
from ..result import RuleResult, Violation


def _may_return_null(prog, funcs):
    out = set()
    for f in funcs:
        if "*" not in (f.ret or "") or f.live is None:
            continue
        # pool / block allocators hand back NULL only when memory is exhausted (allocation-failure edges carry no obligation, as in R-PAIR)
        if f.name.endswith(("alloc", "alloc_debug")) or "binary_" in f.unit or f.unit.endswith("binary.c"):
            continue
        zeroed = set()
        for b, i, e in f.elements(live_only=False):
            if e[0] == "A" and e[1][1] == "=" and is_var(e[1][2], kind="l") and const_of(e[1][3]) == 0:
                zeroed.add(strip(e[1][2])[2])
            elif e[0] == "D":
                for n, init in e[1]:
                    if init is not None and const_of(init) == 0:
                        zeroed.add(n)
        for b, i, e in f.elements():
            if e[0] == "R" and e[1] is not None:
                r = strip(e[1])
                if const_of(r) == 0 or (is_var(r, kind="l") and r[2] in zeroed):
                    out.add(f.key)
    return out


def _derefs(t, v):
    for nd in walk(t):
        if not isinstance(nd, list) or not nd:
            continue
        if nd[0] == "m" and len(nd) > 3 and nd[3] == 1 and is_var(nd[1], name=v, kind="l"):
            return nd
        if nd[0] == "u" and nd[1] == "*" and is_var(nd[2], name=v, kind="l"):
            return nd
        if nd[0] == "i" and is_var(nd[1], name=v, kind="l"):
            return nd
    return None


def run(prog, rule="R-NULLRET", floor=15):
    res = RuleResult(rule, "a local that holds the result of a routine which can return NULL is dereferenced only behind a test that it is not NULL")
    funcs = [f for f in prog.funcs.values() if f.live is not None and "_dbl." not in f.unit and "_mpf." not in f.unit
             and (f.unit.startswith("qsopt_ex/") or f.unit.startswith("esolver/"))]
    MN = _may_return_null(prog, [f for f in prog.funcs.values() if f.live is not None])
    # the reduced-precision siblings of a template function behave like it (the quick tier loads the rational instantiation only)
    names = {prog.funcs[k].name for k in MN}
    names |= {"dbl_" + n[4:] for n in names if n.startswith("mpq_")} | {"mpf_" + n[4:] for n in names if n.startswith("mpq_")}
    res.counts["routines_that_can_return_NULL"] = len(names)
    nsite = 0
    for f in sorted(funcs, key=lambda x: x.key):
        got = collections.defaultdict(list)
        for b, i, e in f.elements():
            pairs = []
            if e[0] == "A" and e[1][1] == "=" and is_var(e[1][2], kind="l"):
                pairs.append((strip(e[1][2])[2], e[1][3]))
            elif e[0] == "D":
                pairs += [(n, init) for n, init in e[1] if init is not None]
            for v, rhs in pairs:
                r = strip(rhs)
                while isinstance(r, list) and r and r[0] == "k":
                    r = strip(r[2])
                if isinstance(r, list) and r and r[0] == "c" and (callee(r) or "") in names:
                    got[v].append((b["id"], i, r))
        for v, sites in got.items():
            nsite += len(sites)
            res.obligations += len(sites)
            res.nontrivial += len(sites)
            bad = {}
            keys = {(b_, i_) for (b_, i_, r_) in sites}

            def xfer(b, i, e, st, v=v, keys=keys, bad=bad):
                if (b["id"], i) in keys:
                    return [("got", short_loc(e[2]))]
                if st[0] == "got":
                    trees = [x[1] for x in e[1] if x[1] is not None] if e[0] == "D" else ([e[1]] if e[1] is not None else [])
                    for t in trees:
                        d = _derefs(t, v)
                        if d is not None:
                            bad.setdefault(st[1], (e[2] if len(e) > 2 else None, show(d), b["id"], st))
                if e[0] == "A" and e[1][1] == "=" and is_var(e[1][2], name=v, kind="l"):
                    return [("other", "")]
                return None

            def refine(cond, truth, st, v=v, bad=bad):
                if st[0] != "got":
                    return None
                for l, op, r in atoms(cond, truth):
                    for a, b_, o in ((l, r, op), (r, l, SWAP[op])):
                        if is_var(a, name=v, kind="l") and const_of(b_) == 0:
                            return [("null", st[1])] if o == "==" else [("nonnull", st[1])]
                d = _derefs(cond, v)
                if d is not None:
                    bad.setdefault(st[1], (None, show(d), None, st))
                return None
            flw = Flow(prog, f, [("pre", "")], xfer, refine, max_visits=300000).run()
            if not bad:
                res.sample({"function": f.name, "local": v, "from": sorted({callee(r_) for (_, _, r_) in sites}), "verdict": "tested before every dereference"}, limit=10)
            for oloc, (loc, what, bid, st) in sorted(bad.items()):
                src = sorted({callee(r_) for (_, _, r_) in sites})[0]
                res.violations.append(Violation(rule, "%s|%s from %s dereferenced untested" % (f.name.replace("mpq_", ""), v, src), f.name, short_loc(loc) if loc else oloc,
                                                "%s holds the result of %s (obtained at %s), which can be NULL, and %s is evaluated on a path without a NULL test of it" % (
                                                    v, src, oloc, what), path=flw.witness(bid, st) if bid is not None else None))
    res.counts["stored_results_of_such_routines"] = nsite
    res.floor("stored results of routines that can return NULL", nsite, floor)
    return res
