"""R-HITUSED (C08): the verdict of a name registration is looked at.

ILLsymboltab_register reports through two out-parameters whether the name was new: the slot it has (the slot of the *existing* entry
for a known name) and an "existed" flag.  A caller that reads neither cannot notice that the name it just generated or copied
clashes with one that is already there: the LP writer registered its default objective name "obj" that way, and a problem with a
row called "obj" was written with two rows of that name (the reader rejects the text).  For every call of the registration routine
that hands the addresses of two locals to these parameters, at least one of the two locals is read (in a condition, an expression
or as a plain argument) before it is overwritten, on some path behind the call - a pure flow-insensitive necessary condition:
reaching definitions of the two locals from the call must have a use."""
from ..core import walk, strip, is_var, callee, const_of, show, short_loc, Flow
from ..result import RuleResult, Violation


def _reads(e_or_cond, name, is_cond=False):
    trees = []
    if is_cond:
        trees = [e_or_cond]
    else:
        e = e_or_cond
        if e[0] == "D":
            trees = [x[1] for x in e[1] if x[1] is not None]
        elif e[0] == "A":
            trees = [e[1][3]] + ([e[1][2]] if not (is_var(e[1][2], name=name) and e[1][1] == "=") else [])
        elif e[1] is not None:
            trees = [e[1]]
    for t in trees:
        stack = [t]
        while stack:
            nd = stack.pop()
            if not isinstance(nd, list) or not nd:
                continue
            if nd[0] == "u" and nd[1] == "&" and is_var(nd[2], name=name):
                continue
            if nd[0] == "v" and nd[2] == name and nd[1] == "l":
                return True
            for ch in nd[1:]:
                if isinstance(ch, list):
                    stack.append(ch)
    return False


def run(prog, rule="R-HITUSED", floor=8):
    res = RuleResult(rule, "behind every registration of a name, the slot or the 'existed' flag it reports is read before it is overwritten")
    n = 0
    for f in sorted(prog.funcs.values(), key=lambda x: x.key):
        if f.live is None or "_dbl." in f.unit or "_mpf." in f.unit or not f.unit.startswith("qsopt_ex/"):
            continue
        sites = {}
        for b, i, c in f.calls():
            if (callee(c) or "") != "ILLsymboltab_register" or len(c[3]) < 5:
                continue
            outs = []
            for a in c[3][3:5]:
                a0 = strip(a)
                if isinstance(a0, list) and a0 and a0[0] == "u" and a0[1] == "&" and is_var(a0[2], kind="l"):
                    outs.append(strip(a0[2])[2])
            if len(outs) == 2:
                sites[(b["id"], i)] = (c, outs)
        if not sites:
            continue
        used = set()

        def xfer(b, i, e, st):
            key = (b["id"], i)
            pend = dict(st)
            changed = False
            # reads first
            for sk, names in list(pend.items()):
                if any(_reads(e, nm) for nm in names):
                    used.add(sk)
                    del pend[sk]
                    changed = True
            # overwrites: a new registration into the same locals, or an assignment
            if key in sites:
                c, outs = sites[key]
                for sk in [k_ for k_, nm_ in pend.items() if set(nm_) & set(outs)]:
                    del pend[sk]
                pend[key] = tuple(outs)
                changed = True
            elif e[0] == "A" and is_var(e[1][2], kind="l") and e[1][1] == "=":
                nm = strip(e[1][2])[2]
                for sk, names in list(pend.items()):
                    rest = tuple(x for x in names if x != nm)
                    if rest != names:
                        changed = True
                        if rest:
                            pend[sk] = rest
                        else:
                            del pend[sk]
            return [tuple(sorted(pend.items()))] if changed else None

        def refine(cond, truth, st):
            for sk, names in st:
                if any(_reads(cond, nm, True) for nm in names):
                    used.add(sk)
            return None
        Flow(prog, f, [()], xfer, refine, max_visits=200000).run()
        for sk, (c, outs) in sorted(sites.items()):
            n += 1
            res.obligations += 1
            res.nontrivial += 1
            if sk in used:
                res.sample({"site": "%s %s: %s" % (short_loc(c[4]), f.name, show(c)[:60]), "verdict": "slot or flag read behind the call"}, limit=8)
            else:
                res.violations.append(Violation(rule, "%s|registration of %s unexamined" % (f.name.replace("mpq_", ""), show(c[3][1])[:20]), f.name, short_loc(c[4]),
                                                "%s: neither %s nor %s is read before it is overwritten: a clash of the registered name with one that is already in the table "
                                                "goes unnoticed" % (show(c)[:70], outs[0], outs[1])))
    res.counts["registration_calls_with_local_out_arguments"] = n
    res.floor("registration calls with two local out-arguments", n, floor)
    return res
