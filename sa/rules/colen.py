"""R-COLEN (C17): arrays of one record that are walked together are allocated together.

Parallel arrays: when loops `for (i ...; i < r->n; ...)` subscript two pointer fields of the same record r by the counter that is
bounded by the same field n of that record, both arrays must hold at least n entries - and the code that allocates them says how many
they hold.  For every function that allocates two or more fields of such a group, the length expressions of the allocations (the
record variable abstracted away) must be the same text.  An array allocated shorter than its siblings is written or read past its
end as soon as the common counter passes the shorter length (the permutation vector of the partial-pricing bucket allocated with k
instead of 2k entries: heap write behind the block for more than 50 simultaneous candidates)."""
import collections
import re

from ..core import walk, strip, is_var, const_of, show, short_loc, dominators, apath, fields_of
from ..result import RuleResult, Violation


def _trees(e):
    if e[0] == "D":
        return [x[1] for x in e[1] if x[1] is not None]
    return [e[1]] if len(e) > 1 and isinstance(e[1], list) else []


def _field_of(t):
    """(base variable name, record::field) for r->f / r.f with r a plain variable"""
    t = strip(t)
    if isinstance(t, list) and t and t[0] == "m" and is_var(strip(t[1])) and isinstance(t[2], str):
        return strip(t[1])[2], t[2]
    return None, None


def _line(e):
    loc = e[2] if len(e) > 2 and isinstance(e[2], str) else ""
    parts = loc.split(":")
    return ":".join(parts[:2]) if len(parts) >= 2 else None


def _abstract(t, basevar):
    s = show(t)
    s = re.sub(r"\b%s\b" % re.escape(basevar), "$", s)
    s = re.sub(r"\(size_t\)\s*", "", s)
    s = re.sub(r"\s+", "", s)
    while s.startswith("(") and s.endswith(")") and s.count("(") == s.count(")") and _balanced(s[1:-1]):
        s = s[1:-1]
    return s


def _balanced(s):
    d = 0
    for ch in s:
        if ch == "(":
            d += 1
        elif ch == ")":
            d -= 1
            if d < 0:
                return False
    return d == 0


def _linear(text):
    """(base, multiplier, offset) of k*B, B*k, B+k, B-k, B"""
    t = text
    m = re.fullmatch(r"(\d+)\*(.+)", t)
    if m:
        return (m.group(2), int(m.group(1)), 0)
    m = re.fullmatch(r"(.+)\*(\d+)", t)
    if m:
        return (m.group(1), int(m.group(2)), 0)
    m = re.fullmatch(r"(.+)([+-])(\d+)", t)
    if m:
        return (m.group(1), 1, int(m.group(3)) * (1 if m.group(2) == "+" else -1))
    return (t, 1, 0)


def _alloc_len(f, b, i, e, byline):
    """length expression of the allocation stored by assignment element e (None when e is no allocation)"""
    rhs = e[1][3]
    for nd in walk(rhs):
        if isinstance(nd, list) and nd and nd[0] == "c" and (nd[1] or "") in ("ILLutil_allocrus", "malloc", "calloc", "EGmalloc") and nd[3]:
            a = strip(nd[3][-1] if nd[1] != "calloc" else nd[3][0])
            if isinstance(a, list) and a and a[0] == "b" and a[1] == "*":
                for x, y in ((a[2], a[3]), (a[3], a[2])):
                    if const_of(y) is not None and const_of(x) is None:
                        return x
            return a
    # the number-array macros: the length is the initialiser of the first temporary declared at the statement's position
    r0 = strip(rhs)
    if is_var(r0, kind="l") and r0[2].startswith("__res"):
        for e2 in byline.get(_line(e), []):
            if e2[0] == "D":
                for n, init in e2[1]:
                    if n.startswith("__i__") and init is not None:
                        return init
    return None


def run(prog, rule="R-COLEN", floor=6):
    res = RuleResult(rule, "pointer fields of one record that loops subscript by a counter bounded by the same field of that record are allocated with "
                           "the same length expression wherever a function allocates two or more of them")
    funcs = [f for f in prog.funcs.values() if f.live is not None and "_dbl." not in f.unit and "_mpf." not in f.unit and f.unit.startswith("qsopt_ex/")]
    groups = collections.defaultdict(set)          # bound field -> array fields
    where = {}
    for f in funcs:
        dom = None
        loops = []
        for bid in f.live:
            c = f.blocks[bid].get("c")
            ss = prog.live_succs(f, f.blocks[bid])
            if c is None or len(ss) != 2 or ss[0] is None:
                continue
            c0 = strip(c)
            if isinstance(c0, list) and c0 and c0[0] == "b" and c0[1] in ("<", "<="):
                a0 = strip(c0[2])
                bv, bf = _field_of(c0[3])
                if is_var(a0, kind="l") and bf is not None:
                    loops.append((ss[0], a0[2], bv, bf))
        if not loops:
            continue
        dom = dominators(prog, f)[0]
        for b, i, e in f.elements():
            for t in _trees(e):
                for nd in walk(t):
                    if not (isinstance(nd, list) and nd and nd[0] == "i"):
                        continue
                    i0 = strip(nd[2])
                    av, af = _field_of(nd[1])
                    if af is None or not is_var(i0, kind="l"):
                        continue
                    encl = [(len(dom.get(ts, ())), bv, bf) for ts, v, bv, bf in loops if v == i0[2] and (ts == b["id"] or ts in dom.get(b["id"], ()))]
                    if not encl:
                        continue
                    _d, bv, bf = max(encl)
                    if bv == av and bf.split("::")[0] == af.split("::")[0]:
                        groups[bf].add(af)
                        where.setdefault((bf, af), "%s (%s)" % (f.name, short_loc(e[2] if len(e) > 2 and isinstance(e[2], str) else f.loc)))
    groups = {k: v for k, v in groups.items() if len(v) >= 2}
    res.counts["co_indexed_groups"] = {k: sorted(v) for k, v in sorted(groups.items())}
    member = collections.defaultdict(set)
    for k, v in groups.items():
        for a in v:
            member[a].add(k)
    n = 0
    for f in sorted(funcs, key=lambda x: x.key):
        byline = collections.defaultdict(list)
        for b, i, e in f.elements():
            byline[_line(e)].append(e)
        allocs = collections.defaultdict(list)      # (base var, bound field) -> [(array field, abstract length, loc)]
        for b, i, e in f.elements():
            if e[0] != "A" or e[1][1] != "=":
                continue
            av, af = _field_of(e[1][2])
            if af is None or af not in member:
                continue
            ln = _alloc_len(f, b, i, e, byline)
            if ln is None:
                continue
            for k in member[af]:
                allocs[(av, k)].append((af, _abstract(ln, av), e[2]))
        for (av, k), lst in sorted(allocs.items()):
            fields = {a for a, _l, _ in lst}
            if len(fields) < 2:
                continue
            n += 1
            res.obligations += 1
            res.nontrivial += 1
            cnt = collections.Counter(l for _a, l, _ in lst)
            if len(cnt) == 1:
                res.sample({"function": f.name, "bound": k, "arrays": sorted(fields), "length": list(cnt)[0]}, limit=12)
                continue
            # different texts: decided only when they are multiples / offsets of one base expression (2*$->k against $->k, n against n+1);
            # an array that is longer than the walk needs (ncols entries, of which the first nnbasic are visited) is not an error
            norm = {l: _linear(l) for l in cnt}
            bases = {v[0] for v in norm.values()}
            if len(bases) != 1:
                res.counts["groups_with_incomparable_lengths"] = res.counts.get("groups_with_incomparable_lengths", 0) + 1
                continue
            major = max(cnt, key=lambda l: (norm[l][1], norm[l][2]))
            for a, l, loc in lst:
                if l != major:
                    res.violations.append(Violation(rule, "%s|%s allocated with another length than its siblings" % (f.name.replace("mpq_", ""), a.split("::")[1]), f.name,
                                                    short_loc(loc), "%s is allocated with %s entries, fewer than the arrays it is walked with (%s, all subscripted by a counter "
                                                    "bounded by %s, e.g. in %s) with %s" % (a, l, ", ".join(sorted(x.split("::")[1] for x in fields if x != a)), k,
                                                                                             where.get((k, a), "?"), major)))
    res.counts["functions_allocating_a_group"] = n
    res.floor("functions that allocate two or more co-indexed arrays of one record", n, floor)
    return res
