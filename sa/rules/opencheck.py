"""R-OPENCHK (C19, C17): the result of opening a file is tested before it is used.
For every call of EGioOpen / fopen whose result is stored in a variable, every later use of that variable as a call
argument is reached only through an edge that established it is non-NULL (path-sensitive; the `if ((f = open()) == 0)`
form counts).  Most call sites in the repository test the result; the ones that do not dereference NULL when the file
cannot be created."""
from ..core import strip, is_var, callee, const_of, show, short_loc, walk, Flow
from ..cond import atoms, SWAP
from ..result import RuleResult, Violation

OPENERS = {"EGioOpen", "fopen", "gzopen", "BZ2_bzopen", "fdopen"}
_WHY = ("diagnostic dump of the LP to bad.lp on the E_SIMPLEX_ERROR 'complain' branches of the crash-basis construction; those branches "
        "compare two counts of the same variable classes and signal an internal inconsistency that no input can be shown to reach, so "
        "no failing execution exists to replay (observation in DESIGN.md section 6)")
EXCEPT = {
    "ILLbasis_get_initial|f used without NULL test": _WHY,
    "ILLbasis_get_cinitial|fil used without NULL test": _WHY,
}


def _opened_var(e):
    """variable that receives an opener's result in this element, or None"""
    pairs = []
    if e[0] == "A" and e[1][1] == "=":
        pairs.append((e[1][2], e[1][3]))
    elif e[0] == "D":
        pairs += [(["v", "l", n], init) for n, init in e[1] if init is not None]
    for lhs, rhs in pairs:
        r = strip(rhs)
        if isinstance(r, list) and r and r[0] == "c" and callee(r) in OPENERS and is_var(strip(lhs)):
            return strip(lhs)[2], r
        # EGioOpenFILE (f) wraps a FILE* the caller supplies: it yields NULL exactly when f is NULL (allocation failure aside), so it is an
        # opener whenever its argument is a parameter (stdout / stderr and locals that were tested are not)
        if isinstance(r, list) and r and r[0] == "c" and callee(r) == "EGioOpenFILE" and is_var(strip(lhs)) and r[3]:
            a = strip(r[3][0])
            if is_var(a) and isinstance(a[1], str) and a[1].startswith("p"):
                return strip(lhs)[2], r
    return None


def run(prog, scope=None, rule="R-OPENCHK", exceptions=EXCEPT):
    res = RuleResult(rule, "every use of a file handle returned by EGioOpen / fopen is reached only after a test that it is not NULL")
    sites = 0
    for f in sorted(prog.funcs.values(), key=lambda x: x.key):
        if scope and not scope(f):
            continue
        if "_dbl." in f.unit or "_mpf." in f.unit:
            continue
        opened = {}
        dom_ = None
        for b, i, e in f.elements():
            ov = _opened_var(e)
            if ov and callee(ov[1]) == "EGioOpenFILE":
                # the wrapped FILE* was examined before (a NULL test, or a reporting checker whose verdict is tested): the wrapper cannot be NULL
                from ..core import dominators
                if dom_ is None:
                    dom_ = dominators(prog, f)[0]
                an = strip(ov[1][3][0])[2]
                if any(d != b["id"] and f.blocks[d].get("c") is not None and any(is_var(nd, name=an) for nd in walk(f.blocks[d]["c"]))
                       for d in dom_.get(b["id"], ())):
                    ov = None
            if ov:
                opened.setdefault(ov[0], []).append((b["id"], i, ov[1]))
        for v, opens in opened.items():
            sites += len(opens)
            bad = {}

            def isv(t):
                t = strip(t)
                if is_var(t, name=v):
                    return True
                return isinstance(t, list) and t and t[0] == "a" and t[1] == "=" and is_var(strip(t[2]), name=v)

            def xfer(b, i, e, st):
                ov = _opened_var(e)
                if ov and ov[0] == v:
                    return [("open", short_loc(ov[1][4]))]
                if e[0] == "A" and e[1][1] == "=" and is_var(strip(e[1][2]), name=v):
                    return [("zero", st[1]) if const_of(e[1][3]) == 0 else ("other", st[1])]
                if e[0] == "C" and st[0] == "open":
                    if any(is_var(strip(a), name=v) for a in e[1][3]):
                        bad.setdefault((short_loc(e[1][4]), st[1]), (e[1], b["id"], st))
                return None

            def refine(cond, truth, st):
                if st[0] != "open":
                    return None
                for l, op, r in atoms(cond, truth):
                    for a, b_, o in ((l, r, op), (r, l, SWAP[op])):
                        if isv(a) and const_of(b_) == 0:
                            if o == "==":
                                return [("zero", st[1])]
                            if o == "!=":
                                return [("nonnull", st[1])]
                return None
            fl = Flow(prog, f, [("pre", "")], xfer, refine).run()
            for (b_, i_, c) in opens:
                res.obligations += 1
                res.nontrivial += 1
            if not bad:
                res.sample({"function": f.name, "handle": v, "opens": [short_loc(o[2][4]) for o in opens], "verdict": "every use follows a NULL test"}, limit=40)
            for (loc, oloc), (c, bid, st) in sorted(bad.items()):
                key = "%s|%s used without NULL test" % (f.name.replace("mpq_", ""), v)
                if key in exceptions:
                    res.excepted.append((key, exceptions[key]))
                    continue
                if any(x.key == key for x in res.violations):
                    continue
                res.violations.append(Violation(rule, key, f.name, loc,
                                                "%s: the handle opened at %s is passed on without a test for NULL; when the file cannot be opened "
                                                "this dereferences a null pointer" % (show(c)[:90], oloc), path=fl.witness(bid, st)))
    res.counts["open_sites"] = sites
    res.floor("open sites with a stored handle", sites, 8 if scope is None else 1)
    return res
