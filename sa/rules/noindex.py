"""R-NOINDEX (C07): a table entry without an item index is not handed out as an item.

The symbol tables keep, next to the names of the rows, one entry that is no row: the objective's name, registered with the index -1
(`ILLsymboltab_index_reset` accepts a table that is one larger than the list of items "due to objname" and leaves that entry alone).
A lookup that stores the `index` field of an entry through an out-parameter therefore can produce a negative number with rval 0.
The obligation "the value is compared with a negative constant / with 0 by an ordering test before it leaves" is placed on the
producer and travels up the call chain through forwarded out-parameters: a function discharges it by a comparison of `*out` (or of
the local it received the value in) behind the producing store / call; a public function through which an unvetted value can leave is
reported with the chain (QSget_row_index (p, "<objective name>", &i) answered 0 and i = -1: an unknown row name not reported)."""
from ..core import walk, strip, is_var, const_of, show, short_loc, dominators
from ..cond import atoms, SWAP
from ..result import RuleResult, Violation


def _is_index_field(t):
    for nd in walk(t):
        if isinstance(nd, list) and nd and nd[0] == "m" and isinstance(nd[2], str) and nd[2].endswith("ILLsymbolent::index"):
            return True
    return False


def _deref_of(t, name):
    t = strip(t)
    return isinstance(t, list) and t and t[0] == "u" and t[1] == "*" and is_var(strip(t[2]), name=name)


def _vets(f, prog, name, after_bid, dom):
    """a condition, in a block dominated by after_bid (or that block itself), that compares *name with a negative constant or orders it
    against 0"""
    for bid in f.live:
        c = f.blocks[bid].get("c")
        if c is None or not (bid == after_bid or after_bid in dom.get(bid, ())):
            continue
        for l, op, r in atoms(c, True) + atoms(c, False):
            for a, b_, o in ((l, r, op), (r, l, SWAP[op])):
                if _deref_of(a, name) or (is_var(strip(a), name=name)):
                    k = const_of(b_)
                    if k is not None and ((k < 0 and o in ("==", "!=")) or (k == 0 and o in ("<", ">=")) or (k == -1 and o in (">", "<="))):
                        return True
    return False


def run(prog, rule="R-NOINDEX", floor=1):
    res = RuleResult(rule, "the index of a symbol table entry leaves a public function through an out-parameter only after it has been compared with the "
                           "'no index' value")
    funcs = [f for f in prog.funcs.values() if f.live is not None and "_dbl." not in f.unit and "_mpf." not in f.unit and f.unit.startswith("qsopt_ex/")]
    byk = {f.key: f for f in funcs}
    neg = []
    for f in funcs:
        for b, i, c in f.calls():
            if c[1] and c[1].endswith("ILLsymboltab_register") and len(c[3]) >= 3 and (const_of(c[3][2]) or 0) < 0:
                neg.append("%s (%s)" % (f.name, short_loc(c[4])))
    res.counts["registrations_without_an_index"] = len(neg)
    LEAK = {}            # (fkey, param position) -> chain text
    doms = {}

    def dom_of(f):
        if f.key not in doms:
            doms[f.key] = dominators(prog, f)[0]
        return doms[f.key]

    n_prod = 0
    for f in funcs:
        for b, i, e in f.elements():
            if e[0] == "A" and e[1][1] == "=" and _is_index_field(e[1][3]):
                l = strip(e[1][2])
                if isinstance(l, list) and l and l[0] == "u" and l[1] == "*" and is_var(strip(l[2])) and str(strip(l[2])[1]).startswith("p"):
                    name = strip(l[2])[2]
                    k = f.param_index(name)
                    n_prod += 1
                    res.obligations += 1
                    res.nontrivial += 1
                    if not _vets(f, prog, name, b["id"], dom_of(f)):
                        LEAK[(f.key, k)] = "%s stores %s through %s (%s)" % (f.name, show(e[1][3])[:40], name, short_loc(e[2]))
    res.counts["index_producing_stores"] = n_prod
    changed = True
    rounds = 0
    n_fwd = 0
    while changed and rounds < 8:
        changed = False
        rounds += 1
        for f in funcs:
            for b, i, c in f.calls():
                g = prog.resolve(f, c[1]) if c[1] else None
                if g is None:
                    continue
                for j, a in enumerate(c[3]):
                    if (g.key, j) not in LEAK:
                        continue
                    a0 = strip(a)
                    if is_var(a0) and str(a0[1]).startswith("p") and f.param_index(a0[2]) is not None:
                        k = f.param_index(a0[2])
                        if (f.key, k) in LEAK:
                            continue
                        if rounds == 1:
                            n_fwd += 1
                        if not _vets(f, prog, a0[2], b["id"], dom_of(f)):
                            LEAK[(f.key, k)] = "%s forwards %s to %s (%s) <- %s" % (f.name, a0[2], g.name, short_loc(c[4]), LEAK[(g.key, j)])
                            changed = True
    res.counts["forwarding_call_sites"] = n_fwd
    pub = prog.public_functions()
    n_pub = 0
    for (fk, k), chain in sorted(LEAK.items()):
        f = byk[fk]
        if f.static or f.name not in pub or not (f.name.startswith("mpq_QS") or f.name.startswith("QS")):
            continue
        n_pub += 1
        res.violations.append(Violation(rule, "%s|table index handed out unvetted" % f.name.replace("mpq_", ""), f.name, short_loc(f.loc),
                                        "an entry registered without an index (%s) is found by name, and its index (-1) leaves with rval 0: %s" % (
                                            "; ".join(neg[:3]) or "none seen", chain)))
    for f in funcs:
        if not f.static and f.name in pub and f.name.startswith("mpq_QS"):
            for b, i, c in f.calls():
                g = prog.resolve(f, c[1]) if c[1] else None
                if g is not None and any((g.key, j) in LEAK for j in range(len(c[3]))):
                    pass
    res.counts["leaking_functions"] = sorted({byk[fk].name for (fk, k) in LEAK})
    res.floor("stores of a table entry's index through an out-parameter", n_prod, floor)
    return res
