"""R-VSTATTYPE (C05, C12): the simplex starts with every non-basic variable at a bound it has.

lpinfo::vstat says where a non-basic variable sits (lower / upper / zero), lpinfo::vtype which bounds it has.  The two are
written by different hands: vtype is recomputed from the current bounds at the start of every solve (ILLfct_set_variable_type),
vstat comes from the caller's basis (ILLbasis_load copies the status letters) or from the previous solve.  The values of the
non-basic variables (ILLfct_compute_xbz and everything after it) are read off vstat, so an UPPER status on a column whose upper
bound has been made infinite enters the computation as 1e150 and an unbounded LP is reported OPTIMAL; a FREE status on a bounded
column leaves it at 0 outside its bounds.

Typestate over the CFG of ILLsimplex (all paths): state 'unreconciled' at entry, after every call that (transitively) stores into
vstat[] or vtype[] without being an establisher; state 'reconciled' after a call of an *establisher* - a function that contains a
loop over all non-basic / all columns (header bounded by lpinfo::nnbasic or ncols) in which vstat[] is stored under a condition on
vtype[] (found structurally: the initial-basis constructors and the reconciliation pass qualify, the singular-basis repair - a loop
over the singular columns only - does not).  The first call that reads vstat (transitively) ends the start-up segment; if it is reached in state 'unreconciled' it is reported.  (What the
pivots do to the statuses afterwards is not decided by this rule.)"""
import collections

from ..core import walk, strip, is_var, callee, const_of, show, short_loc, Flow, dominators, AnalysisBroken
from ..result import RuleResult, Violation
from .certdep import natural_loops

REC = "lpinfo::"
# one named exception: a writer of the start-up segment whose stores the analysis cannot classify by itself
EXEMPT_WRITERS = {"mpq_ILLbasis_factor": "singular-basis repair: replaces a column through ILLfct_update_basis_info with lindex >= 0 and a leaving status chosen from "
                                         "the variable type in the caller (that choice is decided by R-VTYPEZERO); the bound-flip branch of the callee "
                                         "(lindex < 0) is not reachable from this call"}


def _mentions(t, field):
    return any(isinstance(nd, list) and nd and nd[0] == "m" and nd[2].endswith(REC + field) for nd in walk(t))


def _status_stores_any(f):
    """elements storing a STAT_* constant into an element of any int array (the initial-basis constructors fill a local status array first)"""
    out = []
    for b, i, e in f.elements():
        if e[0] == "A" and e[1][1] == "=":
            l = strip(e[1][2])
            r = strip(e[1][3])
            if isinstance(l, list) and l and l[0] == "i" and isinstance(r, list) and r and r[0] == "n" and str(r[2]).startswith("STAT_") and r[2] != "STAT_BASIC":
                out.append((b["id"], i, e))
    return out


def _stores(f, field):
    """elements storing into lp-><field>[...]"""
    out = []
    for b, i, e in f.elements():
        if e[0] == "A":
            l = strip(e[1][2])
            if isinstance(l, list) and l and l[0] == "i" and _mentions(l[1], field):
                out.append((b["id"], i, e))
            elif isinstance(l, list) and l and l[0] == "i":
                base = strip(l[1])
                if is_var(base, kind="l") and any(_mentions(r, field) for r in _local_sources(f, base[2])):
                    out.append((b["id"], i, e))
    return out


def _local_sources(f, name, _memo={}):
    key = (f.key, name)
    if key not in _memo:
        rs = []
        for b, i, e in f.elements(live_only=False):
            if e[0] == "A" and e[1][1] == "=" and is_var(e[1][2], name=name, kind="l"):
                rs.append(e[1][3])
            elif e[0] == "D":
                rs += [init for n, init in e[1] if n == name and init is not None]
        _memo[key] = rs
    return _memo[key]


def _is_direct_establisher(prog, f):
    st = _stores(f, "vstat") + _status_stores_any(f)
    if not st:
        return False
    loops, dom, succ = natural_loops(prog, f)
    preds = collections.defaultdict(set)
    for a, ss in succ.items():
        for s in ss:
            preds[s].add(a)
    full = set()
    for h, body in loops.items():
        c = f.blocks[h].get("c")
        if c is None:
            continue
        bound_ok = _mentions(c, "nnbasic") or _mentions(c, "ncols")
        if not bound_ok:
            for nd in walk(c):
                if is_var(nd, kind="l") and any(_mentions(r, "nnbasic") or _mentions(r, "ncols") for r in _local_sources(f, nd[2])):
                    bound_ok = True
        if bound_ok:
            full.add(h)
    for (bid, i, e) in st:
        hs = [h for h in full if bid in loops[h]]
        if not hs:
            continue
        # control dependence on vtype: a dominating branch inside the loop whose condition mentions vtype
        for d in dom.get(bid, ()):
            if d == bid or not any(d in loops[h] for h in hs):
                continue
            c = f.blocks[d].get("c")
            if c is None:
                continue
            if _mentions(c, "vtype") or any(is_var(nd, kind="l") and any(_mentions(r, "vtype") for r in _local_sources(f, nd[2])) for nd in walk(c)):
                return True
    return False


def _inconsistent_status_store(prog, g):
    """g stores a non-basic status that is not chosen under a condition on the variable type (ILLbasis_load copies the caller's letters;
    the singular-basis repair, which picks the status from the type, and stores of STAT_BASIC do not count)"""
    st = _stores(g, "vstat")
    if not st:
        return False
    dom, succ = dominators(prog, g)
    for (bid, i, e) in st:
        rhs = strip(e[1][3])
        if isinstance(rhs, list) and rhs and rhs[0] == "n" and rhs[2] == "STAT_BASIC":
            continue
        if is_var(rhs) and isinstance(rhs[1], str) and rhs[1].startswith("p"):
            continue                    # a status handed in by the caller: judged at the call sites (_forwards_unchosen_status)
        guarded = False
        for d in dom.get(bid, ()):
            c = g.blocks[d].get("c")
            if d != bid and c is not None and (_mentions(c, "vtype") or _mentions(c, "uz") or _mentions(c, "lz") or any(
                    is_var(nd, kind="l") and any(_mentions(r, "vtype") for r in _local_sources(g, nd[2])) for nd in walk(c))):
                guarded = True          # the status is chosen under a test of the variable's type or of the bound itself
        if not guarded:
            return True
    return False


def _param_status_stores(g):
    """indices of the parameters whose value g stores into vstat[]"""
    out = set()
    for (bid, i, e) in _stores(g, "vstat"):
        rhs = strip(e[1][3])
        if is_var(rhs) and isinstance(rhs[1], str) and rhs[1].startswith("p"):
            out.add(int(rhs[1][1:]))
    return out


def _forwards_unchosen_status(prog, h, PST):
    """h calls a function that stores its k-th argument into vstat[] with an argument that is not a status chosen under a test of the
    variable type in h itself"""
    dom = None
    for b, i, c in h.calls():
        g = prog.resolve(h, c[1]) if c[1] else None
        if g is None or g.key not in PST:
            continue
        for k in PST[g.key]:
            if k >= len(c[3]):
                continue
            a = strip(c[3][k])
            if isinstance(a, list) and a and a[0] == "n" and str(a[2]).startswith("STAT_"):
                if a[2] == "STAT_BASIC":
                    continue
                return True
            if not is_var(a, kind="l"):
                return True
            if dom is None:
                dom = dominators(prog, h)[0]
            for bb, ii, e in h.elements():
                if e[0] == "A" and e[1][1] == "=" and is_var(e[1][2], name=a[2], kind="l"):
                    ok = False
                    for d in dom.get(bb["id"], ()):
                        cnd = h.blocks[d].get("c")
                        if d != bb["id"] and cnd is not None and (_mentions(cnd, "vtype") or any(
                                is_var(nd, kind="l") and any(_mentions(r, "vtype") for r in _local_sources(h, nd[2])) for nd in walk(cnd))):
                            ok = True
                    if not ok:
                        return True
    return False


def run(prog, driver="mpq_ILLsimplex", rule="R-VSTATTYPE"):
    res = RuleResult(rule, "on every path of the simplex driver a call that reads the non-basic statuses is preceded by a pass that sets the status of "
                           "every non-basic variable from its variable type, after the last call that stored statuses or types otherwise")
    f = prog.require_fn(driver)
    funcs = [g for g in prog.funcs.values() if g.live is not None and "_dbl." not in g.unit and "_mpf." not in g.unit and g.unit.startswith("qsopt_ex/")]
    direct = {g.key for g in funcs if _is_direct_establisher(prog, g)}
    W = collections.defaultdict(set)
    R = collections.defaultdict(set)
    PST = {g.key: _param_status_stores(g) for g in funcs}
    PST = {k: v for k, v in PST.items() if v}
    for g in funcs:
        if _inconsistent_status_store(prog, g) or _forwards_unchosen_status(prog, g, PST):
            W[g.key].add("vstat")
        if _stores(g, "vtype"):
            W[g.key].add("vtype")
        for b, i, e in g.elements():
            trees = [x[1] for x in e[1] if x[1] is not None] if e[0] == "D" else ([e[1]] if e[1] is not None else [])
            lhs = strip(e[1][2]) if e[0] == "A" and e[1][1] == "=" else None
            for t in trees:
                for nd in walk(t):
                    if isinstance(nd, list) and nd and nd[0] == "i" and nd is not lhs and _mentions(nd[1], "vstat"):
                        R[g.key].add("vstat")
        for bb in g.blocks.values():
            if bb.get("c") is not None and _mentions(bb["c"], "vstat"):
                R[g.key].add("vstat")
    ANYW = {g.key for g in funcs if _stores(g, "vstat")}
    EST = set(direct)
    changed = True
    while changed:
        changed = False
        for g in funcs:
            for b, i, c in g.calls():
                h = prog.resolve(g, c[1]) if c[1] else None
                if h is None:
                    continue
                for S in (W, R):
                    add = S[h.key] - S[g.key]
                    if add:
                        S[g.key] |= add
                        changed = True
                if h.key in ANYW and g.key not in ANYW:
                    ANYW.add(g.key)
                    changed = True
                if h.key in EST and g.key not in EST and g.key != f.key and len(g.blocks) < 60:
                    EST.add(g.key)              # small wrappers (ILLbasis_get_initial -> get_initial_basis1)
                    changed = True
    res.counts["direct_establishers"] = sorted(prog.funcs[k].name for k in direct)
    if not direct:
        raise AnalysisBroken("%s: no function sets vstat[] from vtype[] over all non-basic variables" % rule)
    UN, OK, DONE = "unreconciled", "reconciled", "started"
    bad = {}
    nread = [0]

    def xfer(b, i, e, st):
        if e[0] != "C":
            return None
        c = e[1]
        g = prog.resolve(f, c[1]) if c[1] else None
        if g is None:
            return None
        if st == DONE:
            return None                     # the start-up segment is over: pivots keep the statuses consistent by construction (not decided here)
        if g.key in EST:
            return [OK]
        out = st
        if "vstat" in R[g.key] and g.key not in ANYW:
            nread[0] += 1
            if st == UN:
                bad.setdefault(c[4], (g.name, b["id"], st))
            out = DONE
        if W[g.key] & {"vstat", "vtype"} and g.name not in EXEMPT_WRITERS:
            out = UN
        return [out]
    flw = Flow(prog, f, [UN], xfer).run()
    sites = set()
    for b, i, c in f.calls():
        g = prog.resolve(f, c[1]) if c[1] else None
        if g is not None and "vstat" in R[g.key] and g.key not in EST and g.key not in ANYW:
            sites.add(c[4])
    res.obligations = len(sites)
    res.nontrivial = len(sites)
    for loc, (gname, bid, st) in sorted(bad.items())[:3]:
        res.violations.append(Violation(rule, "%s|%s reads vstat before the statuses are reconciled with the types" % (f.name.replace("mpq_", ""), gname.replace("mpq_", "")),
                                        f.name, short_loc(loc),
                                        "%s is reached on a path on which, since the last call that stored non-basic statuses or variable types, no pass has set "
                                        "the status of every non-basic variable from its type (establishers: %s): a status inherited from the caller's basis or from "
                                        "the previous solve can name a bound the variable does not have" % (
                                            gname, ", ".join(sorted(prog.funcs[k].name for k in direct))),
                                        path=flw.witness(bid, st)))
    for k, v in EXEMPT_WRITERS.items():
        if k in prog.funcs:
            res.excepted.append((k, v))
    res.counts["calls_reading_statuses"] = len(sites)
    res.floor("calls of the driver that read the non-basic statuses", len(sites), 5)
    return res
