"""R-BASISMAP (C12): the two basis status translation tables are exhaustive and mutually inverse.
ILLlib_getbasis translates the solver's variable status (STAT_*) into the API's column / row status (QS_COL_BSTAT_*,
QS_ROW_BSTAT_*); ILLbasis_load translates back.  The tables are extracted from the code (switch cases and equality tests
selecting constant stores) and compared: structural columns and ranged rows are bijections, non-ranged rows collapse
UPPER onto LOWER on export (documented) and are the identity on {BASIC, LOWER} through export-then-import."""
import collections

from ..core import walk, strip, is_var, callee, const_of, apath, fields_of, show, short_loc, Flow, AnalysisBroken
from ..cond import atoms, SWAP
from ..result import RuleResult, Violation


def _subject_kind(t):
    """which status array an expression reads: 'vstat', 'cstat', 'rstat' or None"""
    t = strip(t)
    if isinstance(t, list) and t and t[0] == "i":
        p = apath(t[1])
        fl = fields_of(p[2])
        name = fl[-1].split("::")[1] if fl else p[1]
        if name in ("vstat", "cstat", "rstat"):
            return name
    return None


def extract(prog, f):
    """{(target, ranged): {selector spelling: set(assigned spelling)}} plus selector kind"""
    val2name = collections.defaultdict(set)
    for b in f.blocks.values():
        l = b.get("l")
        if l and l[0] == "case" and l[2]:
            val2name[l[1]].add(l[2])
    tables = collections.defaultdict(lambda: collections.defaultdict(set))
    sites = {}
    stores = []

    def xfer(b, i, e, st):
        sel, ranged = st
        if e[0] == "A" and e[1][1] == "=":
            tgt = _subject_kind(e[1][2])
            r = strip(e[1][3])
            if tgt and isinstance(r, list) and r and r[0] == "n" and r[2] and sel:
                stores.append((tgt, ranged, sel, r[2], b["id"], i))
        return None

    def refine(cond, truth, st):
        sel, ranged = st
        c = strip(cond)
        for nd in walk(c):
            if nd[0] == "m" and nd[2].endswith("::rangeval"):
                ranged = truth if ranged is None or True else ranged
            if nd[0] == "b" and nd[1] in ("==", "!=") and (const_of(nd[2]) == 82 or const_of(nd[3]) == 82):
                ranged = (truth == (nd[1] == "=="))
        for l, op, r in atoms(cond, truth):
            for a, b_, o in ((l, r, op), (r, l, SWAP[op])):
                if _subject_kind(a) and o == "==":
                    bs = strip(b_)
                    if isinstance(bs, list) and bs and bs[0] == "n" and bs[2]:
                        sel = _subject_kind(a) + ":" + bs[2]
        return [(sel, ranged)]

    def refine_switch(cond, value, allv, st):
        sel, ranged = st
        if _subject_kind(cond):
            if value is None:
                return [(None, ranged)]
            names = val2name.get(value)
            return [(_subject_kind(cond) + ":" + (sorted(names)[0] if names else str(value)), ranged)]
        return [st]
    Flow(prog, f, [(None, None)], xfer, refine, refine_switch).run()
    # a store that is always followed, within the same loop iteration, by another store to the same target is overridden
    succ = {bid: [x for x in prog.live_succs(f, bl) if x is not None] for bid, bl in f.blocks.items()}
    headers = {bid for bid, bl in f.blocks.items() if bl.get("t") in ("ForStmt", "WhileStmt", "DoStmt")}

    def overridden(s1, others):
        """every path from s1's block to a loop header / exit passes the block of a later store to the same target"""
        blocks2 = {o[4] for o in others if o[4] != s1[4]} | set()
        same_block_later = any(o[4] == s1[4] and o[5] > s1[5] for o in others)
        if same_block_later:
            return True
        if not blocks2:
            return False
        seen, st = set(), list(succ.get(s1[4], ()))
        while st:
            x = st.pop()
            if x in seen or x in blocks2:
                continue
            if x in headers:
                return False
            seen.add(x)
            st.extend(succ.get(x, ()))
        return True
    uniq = sorted(set(stores), key=str)
    for s1 in uniq:
        others = [o for o in uniq if o[0] == s1[0] and (o[4], o[5]) != (s1[4], s1[5])]
        if overridden(s1, others):
            continue
        tgt, rg, sel, val = s1[:4]
        tables[(tgt, rg)][sel].add(val)
    return tables, sites


def run(prog, prefix="mpq_", rule="R-BASISMAP"):
    res = RuleResult(rule, "export (ILLlib_getbasis) and import (ILLbasis_load) status tables are total on their status sets and mutually "
                           "inverse; non-ranged rows collapse UPPER to LOWER only on export")
    g = prog.require_fn(prefix + "ILLlib_getbasis")
    l = prog.require_fn(prefix + "ILLbasis_load")
    gt, gs = extract(prog, g)
    lt, ls = extract(prog, l)

    def tab(t, key):
        return {k: sorted(v) for k, v in t.get(key, {}).items()}
    def merged(t, tgt, ctx, selkind):
        out = collections.defaultdict(set)
        for (tg, rg), m in t.items():
            if tg != tgt or (ctx is not None and rg not in (ctx, None)):
                continue
            for k, v in m.items():
                kind, name = k.split(":", 1)
                if kind == selkind:
                    out[name] |= set(v)
        return {k: sorted(v) for k, v in out.items()}
    G_col = merged(gt, "cstat", None, "vstat")
    G_rr, G_r = merged(gt, "rstat", True, "vstat"), merged(gt, "rstat", False, "vstat")
    L_colc = merged(lt, "vstat", None, "cstat")
    L_rr, L_r = merged(lt, "vstat", True, "rstat"), merged(lt, "vstat", False, "rstat")
    res.counts["export_columns"] = G_col
    res.counts["export_ranged_rows"] = G_rr
    res.counts["export_plain_rows"] = G_r
    res.counts["import_columns"] = L_colc
    res.counts["import_ranged_rows"] = L_rr
    res.counts["import_plain_rows"] = L_r

    def single(t, what):
        out = {}
        for k, v in t.items():
            if len(v) != 1:
                res.violations.append(Violation(rule, "%s|%s maps to several values" % (what, k), what, "?", "%s: %s is translated to %s" % (what, k, v)))
            else:
                out[k] = v[0]
        return out

    def suffix(x):
        return x.rsplit("_", 1)[1]
    checks = [
        ("structural columns", single(G_col, "export columns"), single(L_colc, "import columns"), {"BASIC", "LOWER", "UPPER", "ZERO"}, {"ZERO": "FREE"}),
        ("ranged rows", single(G_rr, "export ranged rows"), single(L_rr, "import ranged rows"), {"BASIC", "LOWER", "UPPER"}, {}),
    ]
    for what, G, L, dom_, ren in checks:
        res.obligations += 1
        res.nontrivial += 1
        gs_ = {suffix(k): suffix(v) for k, v in G.items()}
        ls_ = {suffix(k): suffix(v) for k, v in L.items()}
        problems = []
        if set(gs_) != dom_:
            problems.append("export is defined on %s, expected %s" % (sorted(gs_), sorted(dom_)))
        for s_, t_ in gs_.items():
            want = ren.get(s_, s_)
            if t_ != want:
                problems.append("export maps STAT_%s to %s (expected %s)" % (s_, t_, want))
            back = ls_.get(t_)
            if back != s_:
                problems.append("import maps %s back to %s, not to STAT_%s" % (t_, back, s_))
        if len(set(gs_.values())) != len(gs_):
            problems.append("export is not injective")
        if problems:
            res.violations.append(Violation(rule, "%s|tables not mutually inverse" % what, g.name, short_loc(g.loc), "%s: %s" % (what, "; ".join(problems))))
        else:
            res.sample({"table": what, "export": gs_, "import": ls_, "verdict": "total and mutually inverse"})
    # non-ranged rows
    res.obligations += 1
    res.nontrivial += 1
    Gp = {suffix(k): suffix(v) for k, v in single(G_r, "export plain rows").items()}
    Lp = {suffix(k): suffix(v) for k, v in single(L_r, "import plain rows").items()}
    problems = []
    if Gp.get("BASIC") != "BASIC" or Gp.get("LOWER") != "LOWER":
        problems.append("export of BASIC/LOWER is %s" % Gp)
    if Gp.get("UPPER") not in ("LOWER",):
        problems.append("export maps STAT_UPPER of a non-ranged row to %s (documented: LOWER)" % Gp.get("UPPER"))
    for s_ in ("BASIC", "LOWER"):
        if Lp.get(Gp.get(s_)) != s_:
            problems.append("import of %s gives %s" % (Gp.get(s_), Lp.get(Gp.get(s_))))
    if problems:
        res.violations.append(Violation(rule, "plain rows|export/import tables inconsistent", g.name, short_loc(g.loc), "non-ranged rows: " + "; ".join(problems)))
    else:
        res.sample({"table": "non-ranged rows", "export": Gp, "import": Lp, "verdict": "identity on {BASIC, LOWER}; UPPER collapses to LOWER on export"})
    res.floor("export table entries", sum(len(x) for x in (G_col, G_rr, G_r)), 9)
    res.floor("import table entries", sum(len(x) for x in (L_colc, L_rr, L_r)), 8)
    return res
