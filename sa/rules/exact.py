"""R-EXACT (C01, C02, C08, C09, C10, C19): no lossy number conversion on a data or decision path
of the rational instantiation, within given call-graph scopes."""
import collections

from ..core import walk, strip, is_var, callee, const_of, show, short_loc, norm_callee, AnalysisBroken
from ..result import RuleResult, Violation

SINKS = {
    "mpq_get_d": "rational -> double", "mpq_set_d": "double -> rational", "mpz_get_d": "integer -> double",
    "mpf_get_d": "mpf -> double", "mpq_EGlpNumSet": "double -> rational (continued fractions)",
    "mpq_EGlpNumSet_mpf": "mpf -> rational (continued fractions)", "mpf_set_q": "rational -> mpf", "mpf_set_d": "double -> mpf",
    "mpz_set_d": "double -> integer", "mpq_set_f": "mpf -> rational",
    "strtod": "text -> double", "strtof": "text -> float", "atof": "text -> double", "strtold": "text -> long double",
    "mpz_get_si": "integer -> long (truncating)", "mpz_get_ui": "integer -> unsigned long (truncating)",
    "mpf_set_str": "text -> mpf", "mpf_init_set_str": "text -> mpf", "mpf_init_set_d": "double -> mpf",
}
SCANF = {"sscanf": 1, "fscanf": 1, "scanf": 0, "vsscanf": 1}
PRINTF_NUM = {"sprintf": 1, "snprintf": 2, "fprintf": 1, "EGioPrintf": 1, "mpq_ILLprint_report": 1}
LOGFUNCS = {"QSlog", "QSlogv", "ILL_report", "mpq_ILLdata_warn", "mpq_ILLdata_error"}
FLOAT_CONV = set("aAeEfFgG")


def _fmt_float_convs(fmt):
    """list of floating conversions in a printf/scanf format literal"""
    out = []
    i = 0
    while i < len(fmt):
        if fmt[i] == "%":
            j = i + 1
            if j < len(fmt) and fmt[j] == "%":
                i = j + 1
                continue
            while j < len(fmt) and (fmt[j] in "0123456789.*-+ #'lhLqjzt"):
                j += 1
            if j < len(fmt) and fmt[j] in FLOAT_CONV:
                out.append(fmt[i:j + 1])
            i = j + 1
        else:
            i += 1
    return out


def _int_valued(f, t):
    """the double argument is an int variable / int constant converted to double: exact below 2^53"""
    t0 = t
    while isinstance(t, list) and t and t[0] == "k":
        t = t[2]
    if const_of(t) is not None:
        return True
    if is_var(t):
        ty = f.var_type(t) or ""
        return ty.replace("const ", "").strip() in ("int", "unsigned int", "unsigned", "short", "long", "size_t", "char")
    return False


def log_nested(f):
    """keys of calls that occur inside an argument of a logging call (their value can reach nothing but a message)"""
    nested = set()
    for b, i, c in f.calls():
        if callee(c) in LOGFUNCS:
            for a in c[3]:
                for n in walk(a):
                    if n[0] == "c":
                        nested.add((n[4], callee(n), show(n)))
    return nested


WORD_SINKS = {"mpq_set_ui": "unsigned long -> rational", "mpq_set_si": "long -> rational", "mpz_set_ui": "unsigned long -> integer",
              "mpz_set_si": "long -> integer"}


def _word_bounded(prog, f, var):
    """the machine-word variable is assembled digit by digit (v = 10 * v + d) in a loop whose trip count is bounded by a constant
    of at most 19: every value fits 64 bits"""
    from .certdep import natural_loops
    loops, dom, succ = natural_loops(prog, f)
    accs = [b["id"] for b, i, e in f.elements() if e[0] == "A" and is_var(e[1][2], name=var, kind="l")
            and any(const_of(nd) == 10 for nd in walk(e[1][3]))]
    if not accs:
        return None
    bounds = []
    for ab in accs:
        inner = sorted((h for h in loops if ab in loops[h]), key=lambda h: len(loops[h]))
        if not inner:
            return None
        ks = []
        for x in loops[inner[0]]:
            c = f.blocks[x].get("c")
            if c is None:
                continue
            c = strip(c)
            if isinstance(c, list) and c and c[0] == "b" and c[1] in ("<", "<=") and is_var(c[2], kind="l") and const_of(c[3]) is not None:
                ks.append(const_of(c[3]) + (1 if c[1] == "<=" else 0))
        if not ks:
            return None
        bounds.append(min(ks))
    return max(bounds)


def sites(prog, f, word=False):
    """yield (loc, kind, description, call node, in_log)"""
    nested = log_nested(f)
    for b, i, c in f.calls():
        n = callee(c)
        if word and n in WORD_SINKS and len(c[3]) >= 2 and const_of(c[3][1]) is None:
            v = strip(c[3][1])
            k = _word_bounded(prog, f, v[2]) if is_var(v, kind="l") else None
            if k is not None and k <= 19:
                yield c[4], n, "at most %d digits" % k, c, "int"
            elif is_var(v) and (f.var_type(v) or "").replace("const ", "").strip() in ("int", "unsigned int", "unsigned", "short", "char") and k is None:
                yield c[4], n, "int-sized argument", c, "int"
            else:
                yield c[4], n, WORD_SINKS[n] + " (a literal assembled in a machine word wraps beyond 64 bits)", c, False
            continue
        if n in SINKS:
            if n in ("mpq_EGlpNumSet", "mpq_set_d", "mpf_set_d", "mpz_set_d") and len(c[3]) >= 2 and _int_valued(f, c[3][1]):
                yield c[4], n, "integer-valued argument", c, "int"
                continue
            yield c[4], n, SINKS[n], c, (c[4], n, show(c)) in nested
        elif n in SCANF and len(c[3]) > SCANF[n]:
            fmt = strip(c[3][SCANF[n]])
            if fmt and fmt[0] == "s":
                fl = _fmt_float_convs(fmt[1])
                if fl:
                    yield c[4], n, "text -> floating via %s" % ",".join(fl), c, False
            else:
                yield c[4], n, "scanf with non-literal format", c, False


def closure(prog, roots):
    keys = []
    for r in roots:
        f = prog.require_fn(r)
        keys.append(f.key)
    return prog.reachable(keys)


def run(prog, scopes, exceptions=None, rule="R-EXACT", floors=()):
    """scopes: {name: {"roots":[...], "closure":bool}}; exceptions: {(function, sink): reason}"""
    exceptions = exceptions or {}
    res = RuleResult(rule, "no live call of a lossy number conversion inside the scopes %s except as argument of a logging call"
                     % ", ".join(sorted(scopes)))
    census = collections.Counter()
    seen = set()
    for sname, sc in sorted(scopes.items()):
        if sc.get("closure", True):
            parent = closure(prog, sc["roots"])
            fkeys = [k for k in parent if k in prog.funcs]
        else:
            parent = {}
            fkeys = [prog.require_fn(r).key for r in sc["roots"]]
            for k in fkeys:
                parent[k] = None
        res.counts["scope_%s_functions" % sname] = len(fkeys)
        n_sites = 0
        for k in sorted(fkeys):
            f = prog.funcs[k]
            if f.unit.startswith("qsopt_ex/") and ("_dbl." in f.unit or "_mpf." in f.unit):
                continue
            if f.name in SINKS:
                continue   # the conversion routine itself; its call sites carry the obligation
            for loc, sink, desc, c, in_log in sites(prog, f, word=sc.get("word", False)):
                n_sites += 1
                if (k, loc, sink) in seen:
                    continue
                seen.add((k, loc, sink))
                res.obligations += 1
                res.nontrivial += 1
                if in_log == "int":
                    census["integer-valued argument (exact)"] += 1
                    res.sample({"site": "%s %s: %s" % (short_loc(loc), f.name, show(c)), "scope": sname, "verdict": "argument is an int converted to double: exact"})
                    continue
                if in_log:
                    census["in log argument"] += 1
                    res.sample({"site": "%s %s: %s" % (short_loc(loc), f.name, show(c)), "scope": sname, "verdict": "argument of a logging call"})
                    continue
                ex = exceptions.get((f.name, sink))
                if ex:
                    census["excepted"] += 1
                    res.excepted.append(("%s|%s" % (f.name, sink), ex))
                    continue
                chain = [prog.funcs[x].name if x in prog.funcs else x for x in prog.chain(parent, k)]
                vkey = "%s|%s|%s" % (sname, f.name, sink)
                prev = [v for v in res.violations if v.key == vkey]
                if prev:
                    prev[0].extra["sites"] = prev[0].extra.get("sites", 1) + 1
                    prev[0].msg = prev[0].msg.split(" [")[0] + " [%d sites]" % prev[0].extra["sites"]
                    continue
                res.violations.append(Violation(rule, vkey, f.name, short_loc(loc),
                                                "lossy conversion (%s) on a data/decision path of scope %s: %s" % (desc, sname, show(c)), chain=chain))
        res.counts["scope_%s_sink_sites" % sname] = n_sites
    res.counts["census"] = dict(census)
    for name, roots, target, floor in floors:
        par = closure(prog, roots)
        tf = prog.fn(target)
        found = 1 if (tf is not None and tf.key in par) else 0
        res.floor(name, found, floor)
        if found:
            res.sample({"chain": " -> ".join(prog.funcs[x].name for x in prog.chain(par, tf.key)), "verdict": "exact conversion is on the path"})
    return res
