"""R-FULLSCAN (C14, C08, C09, C19): emission loops are exhaustive.

A loop of a writer that emits records (one per row / column / non-zero) must run over its whole range: the only ways out of the
innermost loop around an emission are (a) a test of the loop counter against a count (no exact number and no array element selected by a variable the loop itself
advances in the condition), or (b) a failure exit (the exit block records a non-zero return code).  A data-dependent exit (`while (j < nstruct &&
cstat[j] != BASIC)` around the emission of the UL records) stops the section at the first element that happens to satisfy the
condition: the remaining records are silently missing from the file, which then denotes another basis / problem.
Filters (`if (value != 0)` / `continue`) are not exits and are not restricted."""
from ..core import strip, is_var, callee, const_of, walk, show, short_loc
from ..result import RuleResult, Violation
from .certdep import natural_loops

PRINTERS = ("EGioPrintf", "mpq_ILLprint_report", "mpq_ILLwrite_lp_state_append", "mpq_ILLwrite_lp_state_append_coef", "mpq_ILLwrite_lp_state_append_number",
            "fprintf")


def _data_dependent(c, modified):
    for nd in walk(c):
        if nd[0] == "i" and any(is_var(x, kind="l") and strip(x)[2] in modified for x in walk(nd[2])):
            # an element selected by something the loop itself advances: the data decides when the loop ends
            return "reads an array element selected by the loop's own counter (%s)" % show(nd)[:40]
        if nd[0] == "m" and nd[2].endswith("::_mp_size"):
            return "tests an exact number"
        if nd[0] == "c" and (callee(nd) or "").startswith(("mpq_", "mpz_", "str")):
            return "calls %s" % callee(nd)
    return None


def _failure_block(f, bid):
    for e in f.blocks[bid]["e"]:
        if e[0] == "A" and e[1][1] == "=" and is_var(e[1][2], kind="l") and "rval" in strip(e[1][2])[2]:
            c = const_of(e[1][3])
            if c is not None and c != 0:
                return True
        if e[0] == "R" and e[1] is not None and const_of(e[1]) not in (None, 0):
            return True
    return False


def run(prog, roots, units, rule="R-FULLSCAN", floor=3):
    """roots: writer entry points; every function of `units` reachable from them is examined"""
    res = RuleResult(rule, "the innermost loop around every record emission of the writers is left only on a counter test or on a failure exit")
    nloops = 0
    keys = prog.reachable([prog.require_fn(r).key for r in roots])
    funcs = sorted((prog.funcs[k] for k in keys if k in prog.funcs and prog.funcs[k].live is not None
                    and any(u in prog.funcs[k].unit for u in units)), key=lambda x: x.key)
    for f in funcs:
        fn = f.name
        loops, dom, succ = natural_loops(prog, f)
        emit = {}
        for b, i, c in f.calls():
            if c[1] in PRINTERS or (callee(c) or "") in PRINTERS:
                emit.setdefault(b["id"], c)
        done = set()
        for eb, c in sorted(emit.items()):
            inner = sorted((h for h in loops if eb in loops[h]), key=lambda h: len(loops[h]))
            if not inner or inner[0] in done:
                continue
            h = inner[0]
            done.add(h)
            nloops += 1
            res.obligations += 1
            res.nontrivial += 1
            body = loops[h]
            modified = set()
            for x in body:
                for e in f.blocks[x]["e"]:
                    if e[0] == "A" and is_var(e[1][2], kind="l"):
                        modified.add(strip(e[1][2])[2])
                    elif e[0] == "U" and e[1][1][:2] in ("++", "--") and is_var(e[1][2], kind="l"):
                        modified.add(strip(e[1][2])[2])
            bad = None
            for x in sorted(body):
                b = f.blocks[x]
                outs = [s for s in succ[x] if s not in body]
                if not outs or b.get("c") is None:
                    continue
                if all(_failure_block(f, s) for s in outs):
                    continue
                why = _data_dependent(b["c"], modified)
                if why:
                    bad = (x, why)
                    break
            loc = f.blocks[h].get("tloc") or f.loc
            if bad:
                res.violations.append(Violation(rule, "%s|emission loop has a data-dependent exit" % fn.replace("mpq_", ""), fn, short_loc(c[4]),
                                                "%s is emitted inside the loop at %s, which can be left on a condition that %s (%s): the records of the remaining "
                                                "elements are never written" % (show(c)[:60], short_loc(loc), bad[1], short_loc(f.blocks[bad[0]].get("tloc") or loc))))
            else:
                res.sample({"function": fn, "loop": short_loc(loc), "emits": show(c)[:50], "verdict": "left only on counter tests / failure exits"}, limit=10)
    res.counts["emission_loops"] = nloops
    res.floor("emission loops", nloops, floor)
    return res


def run_rowfilter(prog, fn="mpq_ILLwrite_mps", rule="R-ROWFILTER"):
    """The MPS writer leaves empty rows out of the ROWS section (the reader could not tell them from the objective).  Every other
    record that names a row - RHS, RANGES - must therefore be written under the same emptiness test, otherwise the file refers to a
    row it never declared and the reader rejects the writer's own output.  Decided by dominance: every emission whose arguments
    contain rownames[...] is dominated by a condition that reads the row-length array (ILLlp_rows::rowcnt)."""
    from ..core import dominators, apath, fields_of
    res = RuleResult(rule, "every record of the MPS writer that names a row is emitted under a test of that row's length (the test that "
                           "decides whether the row is declared in ROWS)")
    f = prog.require_fn(fn)
    dom, succ = dominators(prog, f)
    tests = set()
    for bid in f.live:
        c = f.blocks[bid].get("c")
        if c is None:
            continue
        for nd in walk(c):
            if nd[0] == "i":
                fl = fields_of(apath(nd[1])[2])
                if fl and fl[-1].endswith("ILLlp_rows::rowcnt"):
                    tests.add(bid)
    n = 0
    for b, i, c in f.calls():
        if (callee(c) or "") not in PRINTERS and c[1] not in PRINTERS:
            continue
        names_row = False
        for a in c[3]:
            for nd in walk(a):
                if nd[0] == "i" and is_var(strip(nd[1])) and "rownames" in strip(nd[1])[2]:
                    names_row = True
                elif nd[0] == "i":
                    fl = fields_of(apath(nd[1])[2])
                    if fl and fl[-1].endswith("::rownames"):
                        names_row = True
        if not names_row:
            continue
        n += 1
        res.obligations += 1
        res.nontrivial += 1
        if tests & dom.get(b["id"], set()):
            res.sample({"site": "%s: %s" % (short_loc(c[4]), show(c)[:60]), "verdict": "dominated by a test of the row's length"}, limit=6)
        else:
            res.violations.append(Violation(rule, "%s|row named without the emptiness test: %s" % (fn.replace("mpq_", ""), show(c[3][1])[:30] if len(c[3]) > 1 else "?"), fn, short_loc(c[4]),
                                            "%s names a row but is not dominated by a test of the row's length: for a row that became empty (its only column "
                                            "was deleted) the ROWS section leaves the row out while this record still refers to it - the reader rejects the file" % show(c)[:80]))
    res.counts["row_naming_emissions"] = n
    res.counts["row_length_tests"] = len(tests)
    res.floor("row-naming emissions in the MPS writer", n, 3)
    return res


def run_rangepair(prog, fn="mpq_ILLwrite_mps", rule="R-RANGEPAIR"):
    """A ranged row is written as a `G` row plus a RANGES record; the RANGES record is what makes it ranged again.  If the record's
    emission depends on the range *value* alone, a ranged row with range 0 (an equation by another name) comes back as a plain `>=`
    row.  Every emission of a RANGES record (a print whose literal starts with the token RANGE and that names a row) must be governed,
    among its dominating conditions, by one that reads the row's sense - the decision "this row is ranged" - so that the record can be
    written for every 'R' row."""
    from ..core import dominators, apath, fields_of
    res = RuleResult(rule, "the emission of a RANGES record in the MPS writer is governed by a condition that reads the row's sense")
    f = prog.require_fn(fn)
    dom, succ = dominators(prog, f)
    sense_tests = set()
    for bid in f.live:
        c = f.blocks[bid].get("c")
        if c is None:
            continue
        for nd in walk(c):
            if nd[0] == "i":
                fl = fields_of(apath(nd[1])[2])
                if fl and fl[-1].endswith("ILLlpdata::sense"):
                    sense_tests.add(bid)
    n = 0
    for b, i, c in f.calls():
        if (callee(c) or "") not in PRINTERS and c[1] not in PRINTERS:
            continue
        lits = [strip(a)[1] for a in c[3] if isinstance(strip(a), list) and strip(a) and strip(a)[0] == "s"]
        if not any(x.strip().startswith("RANGE ") for x in lits):
            continue
        n += 1
        res.obligations += 1
        res.nontrivial += 1
        # the governing conditions: dominating condition blocks inside the loop body (those that do not dominate the section header are enough:
        # any dominating block counts)
        if sense_tests & dom.get(b["id"], set()):
            res.sample({"site": "%s: %s" % (short_loc(c[4]), show(c)[:60]), "verdict": "governed by a test of the row's sense"})
        else:
            res.violations.append(Violation(rule, "%s|RANGES record emitted by value only" % fn.replace("mpq_", ""), fn, short_loc(c[4]),
                                            "%s is not governed by any condition that reads sense[]: whether a row is ranged is decided by the value of its range, "
                                            "so an 'R' row with range 0 gets no RANGES record and reads back as a plain G row" % show(c)[:80]))
    res.counts["ranges_record_emissions"] = n
    res.floor("RANGES record emissions in the MPS writer", n, 1)
    return res
