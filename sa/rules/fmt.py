"""R-FMT (C17, C19, C11): data never becomes a format string.

Every live call of a printf-like function - any function declared variadic whose last named parameter is a
`const char *` (printf, fprintf, sprintf, snprintf, EGioPrintf, QSlog, the error-collector reporters ...; the set is
computed from the declarations, not listed) - passes, at that position, a string literal, a conditional of literals, or
the caller's own format parameter when the caller is itself such a function (a forwarding wrapper).  Anything else
(a column or row name, a line of an input file, a file name) would be interpreted as a format: a '%' in a name garbles
the solution file, '%s' or '%n' reads or writes through missing arguments."""
from ..core import walk, strip, is_var, callee, norm_callee, const_of, show, short_loc
from ..result import RuleResult, Violation


def _literalish(t):
    t = strip(t)
    if not isinstance(t, list) or not t:
        return False
    if t[0] == "s":
        return True
    if t[0] == "q":
        return _literalish(t[2]) and _literalish(t[3])
    return False


def _returns_literals_only(prog, g, _memo={}):
    """every return of g yields a string literal or NULL (message-returning helpers such as ILLraw_set_lowerBound)"""
    if g.key in _memo:
        return _memo[g.key]
    ok, n = True, 0
    for b, i, e in g.elements():
        if e[0] == "R" and e[1] is not None:
            n += 1
            if not (_literalish(e[1]) or const_of(e[1]) == 0):
                ok = False
    _memo[g.key] = ok and n > 0
    return _memo[g.key]


def _local_is_literal(prog, f, name):
    """every assignment of the local is a literal, NULL, or the result of a function that returns literals only"""
    srcs = []
    for b, i, e in f.elements(live_only=False):
        if e[0] == "A" and e[1][1] == "=" and is_var(e[1][2], name=name, kind="l"):
            srcs.append(e[1][3])
        elif e[0] == "D":
            srcs += [init for n2, init in e[1] if n2 == name and init is not None]
        elif e[0] == "C":
            for a in e[1][3]:
                a = strip(a)
                if isinstance(a, list) and a and a[0] == "u" and a[1] == "&" and is_var(a[2], name=name, kind="l"):
                    return False
    if not srcs:
        return False
    for r in srcs:
        r0 = strip(r)
        if _literalish(r0) or const_of(r0) == 0:
            continue
        if isinstance(r0, list) and r0 and r0[0] == "c" and r0[1] is not None:
            g = prog.resolve(f, r0[1])
            if g is not None and g.blocks and _returns_literals_only(prog, g):
                continue
        return False
    return True


def _param_literal_everywhere(prog, f, k):
    """the k-th parameter of f receives a string literal at every call site of the program (and f is never called indirectly)"""
    sites = getattr(prog, "_fmt_callsites", None)
    if sites is None:
        sites = {}
        for g in prog.funcs.values():
            if g.live is None:
                continue
            for b, i, c in g.calls(live_only=False):
                if c[1] is None:
                    continue
                h = prog.resolve(g, c[1])
                if h is not None:
                    sites.setdefault(h.key, []).append(c)
        prog._fmt_callsites = sites
    if f.name in getattr(prog, "addr_taken", ()):
        return False
    cs = sites.get(f.key, [])
    return bool(cs) and all(k < len(c[3]) and _literalish(c[3][k]) for c in cs)


def run(prog, scope=None, rule="R-FMT", floor=300):
    res = RuleResult(rule, "the format argument of every printf-like call (variadic, last named parameter const char *) is a string literal "
                           "or the forwarded format parameter of a wrapper")
    fmtpos = {}
    for uname, raw in prog.units.items():
        for d in raw["fdecls"]:
            pts = d.get("ptypes", [])
            if d.get("variadic") and pts and pts[-1].replace(" ", "") in ("constchar*", "constchar*restrict", "constchar*__restrict"):
                fmtpos[d["name"]] = len(pts) - 1
                fmtpos[norm_callee(d["name"])] = len(pts) - 1
    res.counts["printf_like_functions"] = len({k for k in fmtpos})
    n = 0
    for f in sorted(prog.funcs.values(), key=lambda x: x.key):
        if "_dbl." in f.unit or "_mpf." in f.unit or f.live is None:
            continue
        if scope is not None and not scope(f):
            continue
        own = fmtpos.get(f.name) if f.variadic else None
        # v*printf forwarders: a non-variadic function whose parameter is handed on as a format is treated at its own call sites
        for b, i, c in f.calls():
            name = c[1]
            if name not in fmtpos:
                continue
            k = fmtpos[name]
            if k >= len(c[3]):
                continue
            n += 1
            res.obligations += 1
            a = strip(c[3][k])
            if _literalish(a):
                continue
            res.nontrivial += 1
            if own is not None and is_var(a) and a[1] == "p%d" % own:
                res.sample({"site": "%s %s: %s" % (short_loc(c[4]), f.name, show(c)[:70]), "verdict": "forwards its own format parameter"}, limit=4)
                continue
            if is_var(a, kind="p") and _param_literal_everywhere(prog, f, int(a[1][1:])):
                res.sample({"site": "%s %s: %s" % (short_loc(c[4]), f.name, show(c)[:70]),
                            "verdict": "parameter that is a string literal at every call site of %s" % f.name}, limit=6)
                continue
            if is_var(a, kind="l") and _local_is_literal(prog, f, a[2]):
                res.sample({"site": "%s %s: %s" % (short_loc(c[4]), f.name, show(c)[:70]),
                            "verdict": "the local only ever holds literals returned by message helpers"}, limit=6)
                continue
            res.violations.append(Violation(rule, "%s|%s given a non-literal format %s" % (f.name.replace("mpq_", ""), norm_callee(name), show(a)[:40]), f.name, short_loc(c[4]),
                                            "%s: the format argument is %s, not a string literal: its text is interpreted as a format (a '%%' in it consumes "
                                            "arguments that were never passed)" % (show(c)[:120], show(a)[:60])))
    res.counts["printf_like_calls"] = n
    res.floor("printf-like call sites", n, floor)
    return res


# ------------------------------------------------------------------ R-FMTARGS
import re as _re

_SPEC = _re.compile(r"%([-+ #0]*)(\*|\d+)?(?:\.(\*|\d+))?(hh|h|ll|l|L|z|j|t|q)?([diouxXeEfFgGaAcspn%])")

INTS = {"int", "unsigned int", "char", "signed char", "unsigned char", "short", "unsigned short", "_Bool"}
LONGS = {"long", "unsigned long", "long long", "unsigned long long"}


def _arg_class(t):
    t = t.strip()
    if t.startswith("const "):
        t = t[6:].strip()
    if t.endswith("*"):
        base = t[:-1].strip().replace("const ", "").strip()
        return "str" if base in ("char", "signed char", "unsigned char") else "ptr"
    if t in INTS or t.startswith("enum "):
        return "int"
    if t in LONGS:
        return "long"
    if t in ("double", "float"):
        return "dbl"
    if t == "long double":
        return "ldbl"
    if t.startswith(("struct ", "union ")) or "[" in t:
        return "rec"
    return "?"


def _want(conv, length):
    if conv in "di" or conv in "ouxXc":
        if conv == "c":
            return {"int"}
        if length in ("l", "ll", "z", "j", "t", "q"):
            return {"long"}
        return {"int"}
    if conv in "eEfFgGaA":
        return {"ldbl"} if length == "L" else {"dbl"}
    if conv == "s":
        return {"str"}
    if conv == "p":
        return {"ptr", "str"}
    if conv == "n":
        return {"ptr"}
    return set()


def run_args(prog, rule="R-FMTARGS", floor=300):
    """type agreement between a literal format and the arguments of a printf-like call.  The set of printf-like functions is computed
    from the declarations (variadic, last named parameter const char *), the exporter records the promoted canonical type of every
    argument of a variadic call, the conversions of the literal are parsed (flags, `*` width / precision, length modifiers).  Reported:
    a conversion whose argument belongs to another category (a number conversion given a pointer or a record - the rational type is an
    array of records, so `%g` with an EGLPNUM_TYPE argument is right in the double instantiation and garbage in the rational one -, `%s`
    given a number, an int conversion given a double ...) and a call with fewer arguments than conversions.  An int / long width
    difference is counted, not reported (same category)."""
    res = RuleResult(rule, "every conversion of a literal format of a printf-like call is given an argument of its category (integer, floating, "
                           "string, pointer), and no conversion is left without an argument")
    fmtpos = {}
    for uname, raw in prog.units.items():
        for d in raw["fdecls"]:
            pts = d.get("ptypes", [])
            if d.get("variadic") and pts and pts[-1].replace(" ", "") in ("constchar*", "constchar*restrict", "constchar*__restrict"):
                fmtpos[d["name"]] = len(pts) - 1
                fmtpos[norm_callee(d["name"])] = len(pts) - 1
    n = nconv = nwidth = 0
    for f in sorted(prog.funcs.values(), key=lambda x: x.key):
        if "_dbl." in f.unit or "_mpf." in f.unit or f.live is None:
            continue
        seen = set()
        for b, i, c in f.calls():
            name = c[1]
            if name not in fmtpos or len(c) < 7:
                continue
            k = fmtpos[name]
            if k >= len(c[3]):
                continue
            a = strip(c[3][k])
            if not (isinstance(a, list) and a and a[0] == "s"):
                continue
            if norm_callee(name) in ("sscanf", "fscanf", "scanf"):
                continue
            n += 1
            res.obligations += 1
            types = c[6][k + 1:]
            pos = 0
            bad = None
            for m in _SPEC.finditer(a[1]):
                flags, width, prec, length, conv = m.groups()
                if conv == "%":
                    continue
                for star in (width, prec):
                    if star == "*":
                        if pos >= len(types):
                            bad = bad or ("%s: no argument for the '*' of %s" % (pos, m.group(0)))
                        elif _arg_class(types[pos]) not in ("int", "?"):
                            bad = bad or ("argument %d (%s) is given for the '*' of %s" % (pos + 1, types[pos], m.group(0)))
                        pos += 1
                nconv += 1
                res.nontrivial += 1
                if pos >= len(types):
                    bad = bad or ("no argument is left for %s" % m.group(0))
                    pos += 1
                    continue
                got = _arg_class(types[pos])
                want = _want(conv, length)
                if got != "?" and want and got not in want:
                    if {got} | want <= {"int", "long"}:
                        nwidth += 1
                    else:
                        bad = bad or ("%s is given argument %d of type %s" % (m.group(0), pos + 1, types[pos]))
                pos += 1
            if bad:
                key = "%s|%s: %s" % (f.name.replace("mpq_", ""), norm_callee(name), bad[:60])
                if key in seen:
                    continue
                seen.add(key)
                res.violations.append(Violation(rule, key, f.name, short_loc(c[4]),
                                                "%s: %s - the callee reads a value of another category from the argument area" % (show(c)[:110], bad)))
    res.counts["printf_like_calls_with_literal_format"] = n
    res.counts["conversions_checked"] = nconv
    res.counts["int_long_width_differences_not_reported"] = nwidth
    res.floor("printf-like calls with a literal format", n, floor)
    return res
