"""R-RESCAN (C10, also C08/C09 through the shared literal parser): the exact literal scanner starts over for the denominator.

mpq_EGlpNumReadStrXc scans "p/q" with one loop; the '/' case finishes the numerator and must put the scanner back into the
state it had when the numerator started, otherwise what was seen in the numerator (its sign, its exponent sign, 'digits
seen', 'dot not allowed any more' ...) leaks into the denominator and "-1/2", "1e-1/3" denote another rational.

Decided structurally, for all scanner states at once:
  * scanner state  = the local integer variables with a constant initialiser that the scanning loop assigns somewhere
                     outside the '/' case (they change while a part is being read);
                     not state: the input cursor (a variable used inside a subscript of the string parameter) and variables
                     whose every loop assignment reads the string parameter (the current character);
  * latches        = variables the loop assigns only inside the '/' case (the part selector, the '/ allowed' flag): they
                     cannot carry anything over from the numerator and are reported, not constrained;
  * obligation     = on every path through the '/' case, started with every state variable unknown, each state variable
                     leaves the case with exactly the constant it was initialised with at function entry.
The variables are discovered, not named: renaming them or adding a new one keeps the rule meaningful (a new state variable
that the '/' case forgets is reported)."""
import collections

from ..core import walk, strip, is_var, const_of, show, short_loc, AnalysisBroken
from ..result import RuleResult, Violation

TOP = "?"


def _assigned_var(e):
    """(name, rhs-tree or None) for an element that writes a local scalar variable"""
    if e[0] == "A":
        t = e[1]
        lhs = strip(t[2])
        if is_var(lhs, kind="l"):
            return lhs[2], (t[3] if t[1] == "=" else None)
    if e[0] == "U":
        t = e[1]
        if t[1][:2] in ("++", "--") and is_var(t[2], kind="l"):
            return strip(t[2])[2], None
    return None


def _cval(rhs, cur):
    """constant value of a right-hand side under the current constants: literals, chained assignments (a = b = 0), copies"""
    t = strip(rhs)
    if t is None or not isinstance(t, list) or not t:
        return TOP
    c = const_of(t)
    if c is not None:
        return c
    if t[0] == "a" and t[1] == "=":
        return _cval(t[3], cur)
    if is_var(t, kind="l") and t[2] in cur:
        return cur[t[2]]
    return TOP


def run(prog, fn="mpq_EGlpNumReadStrXc", slash=47, rule="R-RESCAN"):
    res = RuleResult(rule, "the '/' case of the exact literal scanner resets every scanner state variable to its initial constant on every "
                           "path (the denominator is scanned from the same state as the numerator)")
    f = prog.require_fn(fn)
    sparam = [p[0] for p in f.params if "char" in p[1] and "*" in p[1]]
    if not sparam:
        raise AnalysisBroken("%s: no string parameter" % fn)
    # initial constants
    init = {}
    for b, i, e in f.elements():
        if e[0] == "D":
            for (name, ini) in e[1]:
                c = const_of(ini) if ini is not None else None
                if c is not None and "[" not in (f.ltypes.get(name) or "") and "*" not in (f.ltypes.get(name) or ""):
                    init[name] = c
    # the switch with a case '/'
    case_blocks = [b for b in f.blocks.values() if b.get("l") and b["l"][0] == "case" and b["l"][1] == slash and b["id"] in f.live]
    if len(case_blocks) != 1:
        raise AnalysisBroken("%s: expected exactly one live case '/' (found %d): the scanner was restructured, R-RESCAN has no anchor" % (fn, len(case_blocks)))
    cb = case_blocks[0]
    sw = [b for b in f.blocks.values() if b.get("t") == "SwitchStmt" and cb["id"] in [x for x in b["s"] if x is not None]]
    if len(sw) != 1:
        raise AnalysisBroken("%s: switch of case '/' not found" % fn)
    sw = sw[0]
    other_labels = {x for x in sw["s"] if x is not None and x != cb["id"] and f.blocks[x].get("l")}
    # region of the '/' case: blocks reachable from its label up to the break (or a fall-through into another label)
    region, joins, wl = set(), set(), [cb["id"]]
    while wl:
        x = wl.pop()
        if x in region:
            continue
        region.add(x)
        for s_ in prog.live_succs(f, f.blocks[x]):
            if s_ is None:
                continue
            if f.blocks[x].get("t") == "BreakStmt" or s_ in other_labels:
                joins.add(s_)
            else:
                wl.append(s_)
    if not joins:
        raise AnalysisBroken("%s: the '/' case has no break" % fn)
    # the loop body = blocks from which the switch is reachable again (natural loop of the scanner)
    def reach(src):
        seen, wl = set(), [src]
        while wl:
            x = wl.pop()
            for s in prog.live_succs(f, f.blocks[x]):
                if s is not None and s not in seen:
                    seen.add(s)
                    wl.append(s)
        return seen
    loop = {x for x in reach(sw["id"]) if sw["id"] in reach(x)} | {sw["id"]}
    if not region <= loop:
        raise AnalysisBroken("%s: the '/' case is not inside the scanning loop" % fn)
    # roles
    cursor = set()
    for b, i, e in f.elements():
        for nd in walk(e[1]) if e[0] != "D" else ():
            if nd[0] == "i" and is_var(nd[1]) and strip(nd[1])[2] in sparam:
                for x in walk(nd[2]):
                    if is_var(x, kind="l"):
                        cursor.add(strip(x)[2])
    outside, inside = collections.defaultdict(list), collections.defaultdict(list)
    for bid in loop:
        for e in f.blocks[bid]["e"]:
            av = _assigned_var(e)
            if av and av[0] in init:
                (inside if bid in region else outside)[av[0]].append(av[1])
    def reads_input(rhs):
        return rhs is not None and any(is_var(x) and strip(x)[2] in sparam for x in walk(rhs))
    # a variable is part of the scanner's state only if the loop also *reads* it (a condition, a right-hand side, an increment): a flag that
    # is only ever set inside the loop and examined behind it (a sticky error mark) does not influence how the next part is scanned
    def read_in_loop(v):
        for bid in loop:
            blk = f.blocks[bid]
            if blk.get("c") is not None and any(is_var(x, name=v, kind="l") for x in walk(blk["c"])):
                return True
            for e in blk["e"]:
                if e[0] == "A":
                    if any(is_var(x, name=v, kind="l") for x in walk(e[1][3])) or (e[1][1] != "=" and is_var(e[1][2], name=v)):
                        return True
                    l0 = strip(e[1][2])
                    if not is_var(l0) and any(is_var(x, name=v, kind="l") for x in walk(e[1][2])):
                        return True
                elif e[0] == "U" and is_var(e[1][2], name=v):
                    return True
                elif e[0] in ("C", "S", "R", "X") and e[1] is not None and any(is_var(x, name=v, kind="l") for x in walk(e[1])):
                    return True
        return False
    state = sorted(v for v in outside if v not in cursor and not all(reads_input(r) for r in outside[v]) and read_in_loop(v))
    latches = sorted(v for v in inside if v not in outside and v not in cursor)
    res.counts["state_variables"] = state
    res.counts["latches"] = latches
    res.counts["cursor"] = sorted(cursor)
    res.floor("scanner state variables", len(state), 6)
    # all-paths constant propagation through the region, from the fully unknown state
    names = state
    start = tuple(TOP for _ in names)
    IN = collections.defaultdict(set)
    IN[cb["id"]].add(start)
    wl = collections.deque([(cb["id"], start)])
    exits = {}           # state -> a block it left from
    visits = 0
    while wl:
        bid, st = wl.popleft()
        visits += 1
        if visits > 200000:
            raise AnalysisBroken("%s: R-RESCAN did not converge" % fn)
        cur = dict(zip(names, st))
        for e in f.blocks[bid]["e"]:
            av = _assigned_var(e)
            if av and av[0] in cur:
                cur[av[0]] = _cval(av[1], cur)
            elif e[0] == "C":
                # a call receiving the address of a state variable makes it unknown
                for a in e[1][3]:
                    a = strip(a)
                    if a and a[0] == "u" and a[1] == "&" and is_var(a[2], kind="l") and strip(a[2])[2] in cur:
                        cur[strip(a[2])[2]] = TOP
        out = tuple(cur[n] for n in names)
        for s in prog.live_succs(f, f.blocks[bid]):
            if s is None:
                continue
            if s in joins and (f.blocks[bid].get("t") == "BreakStmt" or s in other_labels):
                exits.setdefault(out, bid)
                continue
            if s not in region:
                continue
            if out not in IN[s]:
                IN[s].add(out)
                wl.append((s, out))
    if not exits:
        raise AnalysisBroken("%s: the '/' case never reaches the end of the switch" % fn)
    res.counts["case_exit_states"] = len(exits)
    for out, bid in sorted(exits.items(), key=lambda kv: str(kv[0])):
        for n, v in zip(names, out):
            res.obligations += 1
            res.nontrivial += 1
            if v == init[n]:
                res.sample({"site": "%s %s: case '/'" % (short_loc(cb.get("lloc") or f.loc), f.name),
                            "verdict": "%s leaves the case as %s = its initial value" % (n, v)}, limit=4)
                continue
            what = ("keeps whatever value the numerator left in it" if v == TOP else "is set to %s, but the numerator started with %s" % (v, init[n]))
            key = "%s|state variable %s not restored by the '/' case" % (fn.replace("mpq_", ""), n)
            if any(x.key == key for x in res.violations):
                continue
            res.violations.append(Violation(rule, key, f.name, short_loc(cb.get("lloc") or f.loc),
                                            "scanner state variable %s (initialised to %s, changed while a part is read) %s on a path through the '/' case: "
                                            "the denominator of p/q is scanned in a different state than the numerator (sign / exponent sign / digit "
                                            "bookkeeping of the numerator leaks into it)" % (n, init[n], what)))
    return res
