"""R-OUTLEAK (C18): a block received through an out-parameter is released before the same out-parameter is filled again.

Many routines hand a freshly allocated array back through a pointer-to-pointer parameter (`*p_singr = malloc (...)`, the row / column
extraction calls of the query API, the singular-column lists of the factorisation, the basis order ...).  The summary OUT[g] is
computed bottom-up: parameter k of g is an allocating out-parameter when g stores an allocation result or NULL through it
(`*param = ...`), stores it into a record field through which some function of the program stores an allocation
(`f->p_singr = p_singr; ... *f->p_singr = malloc`), or passes it on to such a parameter of a callee.  In every caller the local whose
address is handed to such a parameter is tracked path-sensitively (set-of-tuples dataflow; the truth of the loop / branch conditions
on unchanged int locals is remembered, so `do { call (&n, &list); if (n) {...; free (list);} } while (n)` is followed exactly):
EMPTY at its NULL initialisation and after a release, HOLDS after the call.  Calling the routine again with the address of a local
that HOLDS a block overwrites the only pointer to it."""
import collections

from ..core import walk, strip, is_var, callee, const_of, apath, fields_of, show, short_loc, Flow
from ..cond import atoms, SWAP
from ..result import RuleResult, Violation
from .staleptr import _alloc_value, _assignments

FREE_WORDS = ("free", "Free", "FREE")


def _out_summary(prog, funcs):
    asg = {f.key: _assignments(f) for f in funcs}
    # fields through which an allocation is stored:  *X->F = alloc
    alloc_fields = set()
    for f in funcs:
        for b, i, e in f.elements():
            if e[0] == "A" and e[1][1] == "=":
                l = strip(e[1][2])
                if isinstance(l, list) and l and l[0] == "u" and l[1] == "*":
                    inner = strip(l[2])
                    if isinstance(inner, list) and inner and inner[0] == "m" and const_of(e[1][3]) != 0 and _alloc_value(f, asg[f.key], e[1][3]):
                        alloc_fields.add(inner[2])
    OUT = collections.defaultdict(set)
    for f in funcs:
        for b, i, e in f.elements():
            if e[0] != "A" or e[1][1] != "=":
                continue
            l = strip(e[1][2])
            # *param = alloc / 0
            if isinstance(l, list) and l and l[0] == "u" and l[1] == "*" and is_var(l[2]) and isinstance(strip(l[2])[1], str) and strip(l[2])[1].startswith("p"):
                k = int(strip(l[2])[1][1:])
                if "**" in f.params[k][1].replace(" ", "") or f.params[k][1].count("*") >= 2:
                    if const_of(e[1][3]) != 0 and _alloc_value(f, asg[f.key], e[1][3]):
                        OUT[f.key].add(k)
            # X->F = param  with F an allocating field
            r = strip(e[1][3])
            if isinstance(l, list) and l and l[0] == "m" and l[2] in alloc_fields and is_var(r) and isinstance(r[1], str) and r[1].startswith("p"):
                OUT[f.key].add(int(r[1][1:]))
    # in/out parameters (the routine reads the caller's *param before storing into it: list prepend, grow-in-place) are not fresh hand-outs
    from ..core import dominators
    for f in funcs:
        if not OUT.get(f.key):
            continue
        dom, succ = dominators(prog, f)
        stores = collections.defaultdict(list)      # k -> [(bid, idx)]
        reads = collections.defaultdict(list)
        for b, i, e in f.elements():
            trees = [x[1] for x in e[1] if x[1] is not None] if e[0] == "D" else ([e[1]] if e[1] is not None else [])
            lhs = strip(e[1][2]) if e[0] == "A" and e[1][1] == "=" else None
            for t in trees:
                for nd in walk(t):
                    if isinstance(nd, list) and nd and nd[0] == "u" and nd[1] == "*" and is_var(nd[2]) and \
                            isinstance(strip(nd[2])[1], str) and strip(nd[2])[1].startswith("p"):
                        k = int(strip(nd[2])[1][1:])
                        if k not in OUT[f.key]:
                            continue
                        if lhs is not None and nd is lhs:
                            stores[k].append((b["id"], i))
                        else:
                            reads[k].append((b["id"], i))
        for k, rs in reads.items():
            for (rb, ri) in rs:
                if not any((sb in dom.get(rb, ()) and sb != rb) or (sb == rb and si < ri) for (sb, si) in stores[k]):
                    OUT[f.key].discard(k)
    changed = True
    while changed:
        changed = False
        for f in funcs:
            for b, i, c in f.calls():
                g = prog.resolve(f, c[1]) if c[1] else None
                if g is None or g.key not in OUT:
                    continue
                for k in list(OUT[g.key]):
                    if k < len(c[3]):
                        a = strip(c[3][k])
                        if is_var(a) and isinstance(a[1], str) and a[1].startswith("p") and int(a[1][1:]) not in OUT[f.key]:
                            OUT[f.key].add(int(a[1][1:]))
                            changed = True
    return OUT


def run(prog, rule="R-OUTLEAK", floor=20):
    res = RuleResult(rule, "a local that holds a block received through an allocating out-parameter is released (or handed on) before its address is "
                           "passed to such a parameter again")
    funcs = [f for f in prog.funcs.values() if f.live is not None and "_dbl." not in f.unit and "_mpf." not in f.unit
             and (f.unit.startswith("qsopt_ex/") or f.unit.startswith("esolver/"))]
    OUT = _out_summary(prog, funcs)
    res.counts["functions_with_allocating_out_parameters"] = sum(1 for k, v in OUT.items() if v)
    nsite = 0
    for f in sorted(funcs, key=lambda x: x.key):
        # call sites handing &local to an allocating out-parameter
        sites = {}
        tracked = set()
        for b, i, c in f.calls():
            g = prog.resolve(f, c[1]) if c[1] else None
            if g is None or not OUT.get(g.key):
                continue
            for k in OUT[g.key]:
                if k < len(c[3]):
                    a = strip(c[3][k])
                    if isinstance(a, list) and a and a[0] == "u" and a[1] == "&" and is_var(a[2], kind="l"):
                        sites.setdefault((b["id"], i), []).append((strip(a[2])[2], g.name))
                        tracked.add(strip(a[2])[2])
        if not sites:
            continue
        nsite += sum(len(v) for v in sites.values())
        # int locals whose branch outcomes are remembered: the other out-arguments of the same calls (a count that says whether a list came back)
        remembered = set()
        for b, i, c in f.calls():
            if (b["id"], i) in sites:
                for a in c[3]:
                    a0 = strip(a)
                    if isinstance(a0, list) and a0 and a0[0] == "u" and a0[1] == "&" and is_var(a0[2], kind="l") and "*" not in (f.ltypes.get(strip(a0[2])[2]) or ""):
                        remembered.add(strip(a0[2])[2])
        bad = {}

        def released(e, name):
            """the element releases / hands over the block held by the local"""
            if e[0] == "C":
                n = callee(e[1]) or ""
                for a in e[1][3]:
                    a0 = strip(a)
                    if is_var(a0, name=name, kind="l"):
                        return True            # freed or handed to a callee that keeps / frees it
                    if isinstance(a0, list) and a0 and a0[0] == "u" and a0[1] == "&" and is_var(a0[2], name=name, kind="l") and any(w in n for w in FREE_WORDS):
                        return True
            if e[0] == "A" and e[1][1] == "=":
                r = strip(e[1][3])
                if is_var(r, name=name, kind="l") and not is_var(e[1][2], name=name):
                    return True                # stored somewhere else (field, out-parameter, other local)
                if is_var(e[1][2], name=name, kind="l") and const_of(e[1][3]) == 0:
                    return True                # ILL_IFFREE ends with  p = NULL
            if e[0] == "R" and e[1] is not None and is_var(e[1], name=name, kind="l"):
                return True
            return False

        def xfer(b, i, e, st):
            holds, known = st
            key = (b["id"], i)
            nh = set(holds)
            nk = dict(known)
            # assignments / address-taking invalidate remembered conditions on that variable
            names_written = set()
            if e[0] == "A" and is_var(e[1][2]):
                names_written.add(strip(e[1][2])[2])
            if e[0] == "U" and is_var(e[1][2]):
                names_written.add(strip(e[1][2])[2])
            if e[0] == "C":
                for a in e[1][3]:
                    a0 = strip(a)
                    if isinstance(a0, list) and a0 and a0[0] == "u" and a0[1] == "&" and is_var(a0[2]):
                        names_written.add(strip(a0[2])[2])
            if names_written:
                nk = {k2: v for k2, v in nk.items() if k2[0] not in names_written}
            for name in list(nh):
                if released(e, name):
                    nh.discard(name)
            if key in sites:
                for (name, gname) in sites[key]:
                    if name in holds and name in nh:
                        bad.setdefault((e[1][4], name), (gname, b["id"], st))
                    nh.add(name)
            return [(frozenset(nh), tuple(sorted(nk.items())))] if (nh != set(holds) or nk != dict(known)) else None

        def refine(cond, truth, st):
            holds, known = st
            kd = dict(known)
            out = dict(kd)
            for l, op, r in atoms(cond, truth):
                for a, b_, o in ((l, r, op), (r, l, SWAP[op])):
                    if is_var(a, kind="l") and const_of(b_) == 0 and o in ("==", "!=") and (strip(a)[2] in remembered or strip(a)[2] in tracked):
                        nm = strip(a)[2]
                        prev = kd.get((nm, "zero"))
                        val = (o == "==")
                        if prev is not None and prev != val:
                            return []
                        out[(nm, "zero")] = val
                        # a NULL test of a tracked pointer: known empty
                        if nm in holds and val:
                            holds = frozenset(x for x in holds if x != nm)
            return [(holds, tuple(sorted(out.items())))]
        flw = Flow(prog, f, [(frozenset(), ())], xfer, refine, max_visits=400000).run()
        res.obligations += sum(len(v) for v in sites.values())
        res.nontrivial += sum(len(v) for v in sites.values())
        for (loc, name), (gname, bid, st) in sorted(bad.items()):
            res.violations.append(Violation(rule, "%s|%s refilled by %s while it holds a block" % (f.name.replace("mpq_", ""), name, gname.replace("mpq_", "")), f.name, short_loc(loc),
                                            "&%s is handed to %s, which stores an allocation (or NULL) through that parameter, on a path on which %s still holds the "
                                            "block a previous call stored there and has been neither released nor handed on: that block is lost" % (name, gname, name),
                                            path=flw.witness(bid, st)))
    res.counts["call_sites_filling_a_local"] = nsite
    res.floor("call sites that hand &local to an allocating out-parameter", nsite, floor)
    return res
