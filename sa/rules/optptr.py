"""R-OPTPTR (C12, C17): an optional pointer argument is optional everywhere in the function.

Belief contradiction (Engler et al.): a function that compares one of its pointer parameters with NULL (`if (dobjval)`, `p == NULL`)
states that callers may pass NULL for it.  A dereference of the same, never re-assigned, parameter (`*p`, `p[i]`, `p->f`) on a path on
which no non-NULL fact for it holds contradicts that belief: one of the two is wrong, and for a documented "may be NULL" argument it is
the dereference (QSexact_verify stored through `if (dobjval)` and printed `*dobjval` in its progress messages: a crash on a documented
argument combination).

* Path-sensitive: the non-NULL facts come from the conditions passed on the path (early error exits, `&&` / `||` chains and `?:`
  included, as CFG edges and inside one expression); the error code is tracked (Z / NZ), so `rval = 1; CHECKRVALG (rval, CLEANUP)`
  leaves; nothing is joined.
* Only a NULL that can arrive counts: the function is public (a caller may pass anything), a call site passes a literal NULL, or a
  caller forwards a parameter of its own for which the same holds at a point where no non-NULL fact for it is known (fixpoint).
* A test that is one member of a condition chain with a member about something else (`nstruct > 0 && cstat == 0`) is a conditional
  belief ("may be NULL when there is nothing to read") and does not count.
* The cleanup code of a rejecting path is not held against the function: a dereference counts only while the error code is still
  zero (`if (!names) { rval = 1; goto CLEANUP; } ... CLEANUP: if (rval) for (i < count_so_far) free (names[i])` - the counter, which
  the analysis does not follow, is still 0 there)."""
import collections
import re

from ..core import walk, strip, is_var, const_of, show, short_loc, Flow
from ..cond import atoms, SWAP
from ..intstate import IntCells, Z, NZ
from ..result import RuleResult, Violation

UNK, NN, NUL = 0, 1, 2


def _trees(e):
    if e[0] == "D":
        return [x[1] for x in e[1] if x[1] is not None]
    return [e[1]] if len(e) > 1 and e[1] is not None and isinstance(e[1], list) else []


def _pvar(t, names):
    t = strip(t)
    return t[2] if (is_var(t) and isinstance(t[1], str) and t[1].startswith("p") and t[2] in names) else None


def _nn_atoms(cond, truth, names):
    out = set()
    for l, op, r in atoms(cond, truth):
        for a, b_, o in ((l, r, op), (r, l, SWAP[op])):
            if _pvar(a, names) and const_of(b_) == 0 and o == "!=":
                out.add(_pvar(a, names))
    return out


def _derefs(t, names, nn=frozenset(), out=None, mem=True):
    """(name, text) for every dereference of a parameter in names inside tree t that is not guarded inside the expression itself
    (`p && *p`, `!p || *p`, `p ? *p : 0`); &p->f and sizeof operands do not touch memory"""
    if out is None:
        out = []
    if not isinstance(t, list) or not t:
        return out
    k = t[0]
    if k == "sz":
        return out
    base = None
    if k == "i":
        base = t[1]
    elif k == "u" and t[1] == "*":
        base = t[2]
    elif k == "m" and len(t) > 3 and t[3] == 1:
        base = t[1]
    if base is not None and mem:
        n = _pvar(base, names)
        if n and n not in nn:
            out.append((n, show(t)[:50]))
    if k == "u" and t[1] == "&":
        inner = strip(t[2])
        if isinstance(inner, list) and inner and inner[0] in ("m", "i"):
            # address computation: the base pointer is not dereferenced, but its sub-expressions are evaluated
            if inner[0] == "i":
                _derefs(inner[2], names, nn, out)
            b0 = strip(inner[1])
            if not is_var(b0):
                _derefs(inner[1], names, nn, out)
            return out
    if k == "b" and t[1] in ("&&", "||"):
        _derefs(t[2], names, nn, out)
        _derefs(t[3], names, nn | _nn_atoms(t[2], t[1] == "&&", names), out)
        return out
    if k == "q":
        _derefs(t[1], names, nn, out)
        _derefs(t[2], names, nn | _nn_atoms(t[1], True, names), out)
        _derefs(t[3], names, nn | _nn_atoms(t[1], False, names), out)
        return out
    if k == "m":
        _derefs(t[1], names, nn, out)
    elif k == "i":
        _derefs(t[1], names, nn, out)
        _derefs(t[2], names, nn, out)
    elif k == "u":
        _derefs(t[2], names, nn, out)
    elif k in ("b", "a"):
        _derefs(t[2], names, nn, out)
        _derefs(t[3], names, nn, out)
    elif k == "c":
        if t[2] is not None:
            _derefs(t[2], names, nn, out)
        for a in t[3]:
            _derefs(a, names, nn, out)
    elif k == "k":
        _derefs(t[2], names, nn, out)
    elif k == "se":
        if t[1] is not None:
            _derefs(t[1], names, nn, out)
    elif k == "il":
        for a in t[1]:
            _derefs(a, names, nn, out)
    return out


def _stable_ptr_params(f):
    """pointer parameters that the function never assigns and whose address it never takes"""
    ptr = {p_[0] for p_ in f.params if "*" in p_[1] or "*" in p_[2]}
    changed = set()
    for b, i, e in f.elements(live_only=False):
        for t in _trees(e) + ([e[1]] if e[0] in ("A", "U") else []):
            for nd in walk(t):
                if not isinstance(nd, list) or not nd:
                    continue
                if nd[0] == "u" and nd[1] == "&" and _pvar(nd[2], ptr):
                    changed.add(_pvar(nd[2], ptr))
                if nd[0] == "a" and _pvar(nd[2], ptr):
                    changed.add(_pvar(nd[2], ptr))
                if nd[0] == "u" and nd[1] in ("++", "--", "++post", "--post") and _pvar(nd[2], ptr):
                    changed.add(_pvar(nd[2], ptr))
    return ptr - changed


def _chains(prog, f):
    """groups of condition blocks that belong to one `&&` / `||` chain: block -> group id"""
    grp = {}
    for bid in f.live:
        b = f.blocks[bid]
        if b.get("c") is None or b.get("t") not in ("&&", "||"):
            continue
        g = grp.setdefault(bid, bid)
        for s in prog.live_succs(f, b):
            if s is not None and f.blocks[s].get("c") is not None and not f.blocks[s]["e"]:
                grp[s] = g
    # transitive closure of the representative
    def rep(x):
        while grp.get(x, x) != x:
            x = grp[x]
        return x
    return {b: rep(b) for b in grp}


def _tested_params(prog, f, stable):
    chains = _chains(prog, f)
    members = collections.defaultdict(list)
    for b, g in chains.items():
        members[g].append(b)
    tested = {}
    for bid in f.live:
        c = f.blocks[bid].get("c")
        if c is None or f.blocks[bid].get("t") == "SwitchStmt":
            continue
        hits = set()
        for truth in (True, False):
            for l, op, r in atoms(c, truth):
                for a, b_, o in ((l, r, op), (r, l, SWAP[op])):
                    if _pvar(a, stable) and const_of(b_) == 0 and o in ("==", "!="):
                        hits.add(_pvar(a, stable))
        if not hits:
            continue
        if bid in chains:
            # every member of the chain must be a NULL test of a pointer parameter
            pure = True
            for m in members[chains[bid]]:
                cm = f.blocks[m].get("c")
                ok = False
                for l, op, r in atoms(cm, True) + atoms(cm, False):
                    for a, b_, o in ((l, r, op), (r, l, SWAP[op])):
                        if _pvar(a, stable) and const_of(b_) == 0:
                            ok = True
                if not ok:
                    pure = False
            if not pure:
                continue
        for h in hits:
            tested.setdefault(h, f.blocks[bid].get("tloc", f.loc))
    return tested


def run(prog, rule="R-OPTPTR", floor=40):
    res = RuleResult(rule, "a pointer parameter that the function itself compares with NULL, and for which NULL can arrive, is dereferenced only where a "
                           "non-NULL fact for it holds")
    funcs = [f for f in prog.funcs.values() if f.live is not None and "_dbl." not in f.unit and "_mpf." not in f.unit
             and (f.unit.startswith("qsopt_ex/") or f.unit.startswith("esolver/"))]
    pub = prog.public_functions()
    stable, tested = {}, {}
    for f in funcs:
        stable[f.key] = _stable_ptr_params(f)
        tested[f.key] = _tested_params(prog, f, stable[f.key])
    # evidence that NULL can arrive: (function key, parameter name) -> reason
    EV = {}
    for f in funcs:
        if not f.static and f.name in pub and re.match(r"^(mpq_)?QS", f.name):
            for n in stable[f.key]:
                EV[(f.key, n)] = "public function"
    for f in funcs:
        for b, i, c in f.calls():
            g = prog.resolve(f, c[1]) if c[1] else None
            if g is None or g.live is None or g.key not in stable:
                continue
            for k, a in enumerate(c[3]):
                if k < len(g.params) and g.params[k][0] in stable[g.key] and const_of(a) == 0:
                    EV.setdefault((g.key, g.params[k][0]), "NULL passed by %s (%s)" % (f.name, short_loc(c[4])))
    results = {}
    work = collections.deque(sorted(f.key for f in funcs))
    queued = set(work)
    byk = {f.key: f for f in funcs}
    rounds = 0
    while work:
        key = work.popleft()
        queued.discard(key)
        f = byk[key]
        rounds += 1
        names = sorted(n for n in stable[key] if (key, n) in EV)
        if not names:
            results[key] = (names, {}, set(), None)
            continue
        pos = {n: k for k, n in enumerate(names)}
        bad, seen, forwards = {}, set(), {}
        cells = IntCells(["rval", "__EGrval__"], lambda st, c: st[0] if c == "rval" else st[1],
                         lambda st, c, v: (v,) + st[1:] if c == "rval" else (st[0], v) + st[2:])

        def check(t, st, loc, bid):
            for name, text in _derefs(t, pos):
                seen.add((loc, name, text))
                v = st[2 + pos[name]]
                if v != NN and st[0] == Z:
                    bad.setdefault((name, text, loc), (loc, bid, st))
            for nd in walk(t):
                if isinstance(nd, list) and nd and nd[0] == "c" and nd[1]:
                    g = prog.resolve(f, nd[1])
                    if g is None or g.live is None or g.key not in stable:
                        continue
                    for k, a in enumerate(nd[3]):
                        n = _pvar(a, pos)
                        if n and k < len(g.params) and g.params[k][0] in stable[g.key] and st[2 + pos[n]] != NN:
                            forwards.setdefault((g.key, g.params[k][0]), "%s forwards its %s (%s)" % (f.name, n, short_loc(nd[4])))

        def xfer(b, i, e, st):
            for t in _trees(e):
                check(t, st, e[2] if len(e) > 2 and isinstance(e[2], str) else f.loc, b["id"])
            if e[0] == "D":
                out = [st]
                for name, init in e[1]:
                    nxt = []
                    for s in out:
                        r = cells.declare(s, name, init)
                        nxt.extend(r if r is not None else [s])
                    out = nxt
                return out
            if e[0] == "A":
                r = cells.assign(st, e[1][2], e[1][3], e[1][1])
                if r is not None:
                    return r
            return [st]

        def refine(cond, truth, st):
            r = cells.refine(cond, truth, st)
            if not r:
                return []
            outs = []
            for s in r:
                out = list(s)
                dead = False
                for l, op, rr in atoms(cond, truth):
                    for a, b_, o in ((l, rr, op), (rr, l, SWAP[op])):
                        n = _pvar(a, pos)
                        if n and const_of(b_) == 0:
                            k = 2 + pos[n]
                            if o == "!=":
                                if out[k] == NUL:
                                    dead = True
                                out[k] = NN
                            elif o == "==":
                                if out[k] == NN:
                                    dead = True
                                out[k] = NUL
                if not dead:
                    outs.append(tuple(out))
            return outs

        fl = Flow(prog, f, [(Z, Z) + tuple(UNK for _ in names)], xfer, refine)
        saved = {}
        for bid in f.live:
            c = f.blocks[bid].get("c")
            if c is not None and (_derefs(c, pos) or any(isinstance(nd, list) and nd and nd[0] == "c" for nd in walk(c))):
                saved[bid] = f.blocks[bid]["e"]
                f.blocks[bid]["e"] = list(f.blocks[bid]["e"]) + [["X", c, f.blocks[bid].get("tloc", f.loc)]]
        try:
            fl.run()
        finally:
            for bid, es in saved.items():
                f.blocks[bid]["e"] = es
        results[key] = (names, bad, seen, fl)
        for (gk, n), why in forwards.items():
            if (gk, n) not in EV:
                EV[(gk, n)] = why
                if gk not in queued:
                    work.append(gk)
                    queued.add(gk)
    n_params = n_deref = 0
    for key in sorted(results):
        names, bad, seen, fl = results[key]
        f = byk[key]
        t = tested[key]
        mine = [n for n in names if n in t]
        if not mine:
            continue
        n_params += len(mine)
        sd = {x for x in seen if x[1] in t}
        n_deref += len(sd)
        res.obligations += len(sd)
        res.nontrivial += len(sd)
        hit = False
        for (name, text, _l), (loc, bid, st) in sorted(bad.items()):
            if name not in t:
                continue
            hit = True
            res.violations.append(Violation(rule, "%s|%s tested for NULL and dereferenced unguarded" % (f.name.replace("mpq_", ""), name), f.name, short_loc(loc),
                                            "%s compares its parameter %s with NULL (%s), NULL can arrive (%s), and %s is evaluated on a path on which no test of %s "
                                            "has excluded NULL" % (f.name, name, short_loc(t[name]), EV[(key, name)], text, name), path=fl.witness(bid, st)))
        if not hit and sd:
            res.sample({"function": f.name, "optional_parameters": mine, "dereferences": len(sd), "verdict": "all behind a non-NULL fact"}, limit=12)
    res.counts["pointer_parameters_compared_with_null_that_can_be_null"] = n_params
    res.counts["dereferences_of_those"] = n_deref
    res.counts["function_analyses"] = rounds
    res.floor("optional pointer parameters (compared with NULL in the function, NULL can arrive)", n_params, floor)
    return res
