"""R-BASISSHELL (C07, C14, C19): a failed basis installation does not leave an empty basis record behind.
Public functions that install a basis first empty the problem's basis record (ILLlp_basis_free / _init on p->basis)
and then refill it.  On every path to a return - in particular the failure paths - the record is either refilled (a
callee that writes its status arrays returned 0, or the arrays are stored directly) or p->basis is reset to NULL; an
empty non-NULL record makes the next QSwrite_basis / QSget_basis read NULL status arrays."""
from ..core import strip, is_var, callee, const_of, apath, fields_of, show, short_loc, Flow
from ..intstate import IntCells, Z, NZ
from ..result import RuleResult, Violation
from .inval import api_functions

EMPTIERS = ("ILLlp_basis_free", "ILLlp_basis_init")



def may_fail(prog, g, depth=0):
    """can g return a non-zero int on a path that is not an allocation-failure path?"""
    _mf = prog.__dict__.setdefault("_shell_mf", {})
    _why = prog.__dict__.setdefault("_shell_why", {})
    if g.key in _mf:
        return _mf[g.key]
    if depth > 6 or "int" not in (g.ret or ""):
        return True
    _mf[g.key] = True          # recursion: assume it can
    cells = IntCells(["rval", "__EGrval__"], lambda st, c: st[0] if c == "rval" else st[1],
                     lambda st, c, v: (v,) + st[1:] if c == "rval" else (st[0], v) + st[2:])
    hit = [False]
    reasons = set()

    def xfer(b, i, e, st):
        if e[0] == "D":
            out = [st]
            for name, init in e[1]:
                nxt = []
                for s in out:
                    r = cells.declare(s, name, init)
                    nxt.extend(r if r is not None else [s])
                out = nxt
            return out
        if e[0] == "A":
            rc = strip(e[1][3])
            if cells.cell(e[1][2]) is not None and e[1][1] == "=" and isinstance(rc, list) and rc and rc[0] == "c":
                h = prog.resolve(g, callee(rc)) if callee(rc) else None
                if h is not None and not may_fail(prog, h, depth + 1):
                    return [cells.put(st, cells.cell(e[1][2]), Z)]
                if h is not None and all(is_var(strip(a)) and strip(a)[1].startswith("p") for a in rc[3]):
                    why = ("call", h.name, tuple(int(strip(a)[1][1:]) for a in rc[3]))
                else:
                    why = ("other",)
                r = cells.assign(st, e[1][2], e[1][3], e[1][1])
                return [s_ + (why,) if cells.get(s_, cells.cell(e[1][2])) == NZ else s_ + (st[2],) for s_ in [x[:2] for x in r]]
            r = cells.assign(st, e[1][2], e[1][3], e[1][1])
            if r is None:
                return None
            return [x[:2] + ((("other",) if cells.get(x, cells.cell(e[1][2])) == NZ else st[2]),) for x in r]
        if e[0] == "R" and e[1] is not None:
            if NZ in cells.values(st, e[1]):
                hit[0] = True
                reasons.add(st[2] if st[2] else ("other",))
        return None
    Flow(prog, g, [(Z, Z, None)], xfer, lambda c, t, st: cells.refine(c, t, st)).run()
    _mf[g.key] = hit[0]
    _why[g.key] = reasons
    return hit[0]


def run(prog, E, prefix="mpq_", rule="R-BASISSHELL"):
    res = RuleResult(rule, "on every path of a public function that empties p->basis, the record is refilled by a successful call, filled "
                           "directly, or p->basis is reset to NULL before returning")
    n_funcs = 0
    for f, pidx in api_functions(prog, prefix):
        pk = "p%d" % pidx
        alias = set()
        for b, i, e in f.elements():
            prs = []
            if e[0] == "A" and e[1][1] == "=" and is_var(e[1][2], kind="l"):
                prs.append((strip(e[1][2])[2], e[1][3]))
            elif e[0] == "D":
                prs += [(n, init) for n, init in e[1] if init is not None]
            for n, r in prs:
                p = apath(r)
                fl = fields_of(p[2])
                if p[0] == pk and fl and fl[-1].endswith("qsdata::basis"):
                    alias.add(n)

        def is_basis(t):
            p = apath(t)
            fl = fields_of(p[2])
            if p[0] == pk and fl and fl[-1].endswith("qsdata::basis"):
                return True
            return p[0] == "l" and p[1] in alias and not fl

        def basis_field_store(t):
            p = apath(t)
            fl = fields_of(p[2])
            if not fl or not (fl[-1].endswith("ILLlp_basis::cstat") or fl[-1].endswith("ILLlp_basis::rstat")):
                return False
            if "[]" in p[2][p[2].index(fl[-1]):]:
                return False
            return (p[0] == pk and len(fl) >= 2 and fl[-2].endswith("qsdata::basis")) or (p[0] == "l" and p[1] in alias and len(fl) == 1)
        empt = [(b["id"], i) for b, i, c in f.calls() if callee(c) and callee(c).replace(prefix, "") in EMPTIERS and c[3] and is_basis(c[3][0])]
        if not empt:
            continue
        n_funcs += 1
        cells = IntCells(["rval", "__EGrval__"], lambda st, c: st[0] if c == "rval" else st[1],
                         lambda st, c, v: (v,) + st[1:] if c == "rval" else (st[0], v) + st[2:])
        bad = {}

        def fills(c):
            """does call c pass the basis record to a callee that writes its status arrays?"""
            n = callee(c)
            g = prog.resolve(f, n) if n else None
            if g is None:
                return False
            for k, a in enumerate(c[3]):
                if is_basis(a):
                    for (kk, fp) in E.W.get(g.key, ()):
                        if kk == k and fp and (fp[-1].endswith("ILLlp_basis::cstat") or fp[0].endswith("ILLlp_basis::cstat")):
                            return True
            return False

        def xfer(b, i, e, st):
            out = [st]
            if e[0] == "D":
                for name, init in e[1]:
                    nxt = []
                    for s in out:
                        r = cells.declare(s, name, init)
                        nxt.extend(r if r is not None else [s])
                    out = nxt
                return out
            if e[0] == "C":
                if (b["id"], i) in empt:
                    return [(st[0], st[1], 1, st[3])]
                return None
            if e[0] == "A":
                lhs, rhs = e[1][2], e[1][3]
                r = cells.assign(st, lhs, rhs, e[1][1])
                if r is not None:
                    rc = strip(rhs)
                    if isinstance(rc, list) and rc and rc[0] == "c" and fills(rc):
                        g = prog.resolve(f, callee(rc))
                        if g is not None and not may_fail(prog, g):
                            r = [cells.put(st, cells.cell(lhs), Z)]
                        elif g is not None:
                            why = prog.__dict__.get("_shell_why", {}).get(g.key, {("other",)})
                            if why and all(w[0] == "call" and (w[1], tuple(show(rc[3][k]) for k in w[2] if k < len(rc[3]))) in st[3] for w in why):
                                r = [cells.put(st, cells.cell(lhs), Z)]     # every failure of g is a validator that already accepted these arguments
                        return [(s[0], s[1], 0 if cells.get(s, cells.cell(lhs)) == Z else s[2], s[3]) for s in r]
                    if isinstance(rc, list) and rc and rc[0] == "c" and callee(rc) and prog.resolve(f, callee(rc)) is not None and e[1][1] == "=":
                        h = prog.resolve(f, callee(rc))
                        tag = (h.name, tuple(show(a) for a in rc[3]))
                        return [s if cells.get(s, cells.cell(lhs)) == NZ else s[:3] + (s[3] | {tag},) for s in r]
                    return r
                if basis_field_store(lhs):
                    return [(st[0], st[1], 0, st[3])]
                l0 = strip(lhs)
                if len(e) > 4 and e[4] and str(e[4]).endswith("ILLlp_basis") and isinstance(l0, list) and l0 and l0[0] == "u" and l0[1] == "*" and is_basis(l0[2]):
                    return [(st[0], st[1], 0, st[3])]       # *p->basis = B: the whole record is replaced by a filled one (move)
                p = apath(lhs)
                fl = fields_of(p[2])
                if p[0] == pk and fl and fl[-1].endswith("qsdata::basis") and p[2][-1] == fl[-1]:
                    return [(st[0], st[1], 0, st[3])]
                return None
            if e[0] == "R" and st[2] == 1:
                bad.setdefault(short_loc(e[2]), (b["id"], st))
            return None
        fl = Flow(prog, f, [(Z, Z, 0, frozenset())], xfer, lambda c, t, st: cells.refine(c, t, st)).run()
        res.obligations += 1
        res.nontrivial += 1
        if bad:
            loc, (bid, st) = sorted(bad.items())[0]
            res.violations.append(Violation(rule, "%s|empty basis record left behind" % f.name.replace(prefix, ""), f.name, loc,
                                            "%s can return (rval %s) after emptying p->basis without refilling it or resetting p->basis to NULL: "
                                            "a later QSwrite_basis(p, 0, ..) / QSget_basis(p) reads NULL status arrays" % (
                                                f.name, "!= 0" if st[0] == NZ else "== 0"), path=fl.witness(bid, st)))
        else:
            res.sample({"function": f.name, "emptying_calls": len(empt), "verdict": "refilled or reset on every path"})
    res.counts["functions_that_empty_the_basis_record"] = n_funcs
    res.floor("public functions that empty p->basis", n_funcs, 3)
    return res
