"""R-TOKENS (C08, C09, C14, C19): what a writer emits, the reader accepts.  Pure agreement of type-resolved
string literals: tokens taken from the format literals of the writer functions must be members of the set of
literals the reader functions compare their input against (strcmp-family operands and string tables)."""
import re

from ..core import walk, strip, is_var, callee, const_of, show, short_loc, AnalysisBroken
from ..result import RuleResult, Violation

CMP_FUNCS = {"strcmp", "strcasecmp", "strncasecmp", "strncmp", "ILLutil_index", "ILLutil_array_index"}
PRINT_FUNCS = {"EGioPrintf": 1, "mpq_ILLprint_report": 1, "fprintf": 1, "sprintf": 1, "snprintf": 2, "QSlog": 0,
               "mpq_ILLwrite_lp_state_append": 1, "mpq_ILLwrite_lp_state_init": 1, "mpq_ILLwrite_lp_state_start": 1}


def string_tables(prog, units=None):
    """global const char *[] tables: name -> list of strings"""
    out = {}
    for name, gl in prog.globals.items():
        for g in gl:
            if units and g["unit"] not in units:
                continue
            init = g.get("init")
            if init and init[0] == "il":
                vals = []
                for x in init[1]:
                    x = strip(x)
                    if isinstance(x, list) and x and x[0] == "s":
                        vals.append(x[1])
                    elif isinstance(x, list) and x and x[0] == "n":
                        vals.append(None)
                if vals and any(v is not None for v in vals):
                    out[name] = vals
    return out


def format_literals(prog, funcs, print_funcs=PRINT_FUNCS):
    """(literal, loc, function, call node) for every literal format/text argument of a print call in funcs"""
    out = []
    for f in funcs:
        for b, i, c in f.calls():
            n = callee(c)
            if n in print_funcs:
                k = print_funcs[n]
                if k < len(c[3]):
                    a = strip(c[3][k])
                    if isinstance(a, list) and a and a[0] == "s":
                        out.append((a[1], c[4], f, c))
                    elif isinstance(a, list) and a and a[0] == "q":
                        for alt in (strip(a[2]), strip(a[3])):
                            if isinstance(alt, list) and alt and alt[0] == "s":
                                out.append((alt[1], c[4], f, c))
                # literal %s arguments ("%s", "RANGES")
                for a in c[3][k + 1:] if k < len(c[3]) else []:
                    a = strip(a)
                    if isinstance(a, list) and a and a[0] == "s":
                        out.append((a[1], c[4], f, c))
    return out


def accepted_literals(prog, funcs, tables):
    """strings the given functions compare input against: strcmp-family operands, table elements of tables they reference,
    and character constants in switch cases / comparisons (returned separately)"""
    strs = set()
    chars = set()
    used_tables = set()
    for f in funcs:
        for b, i, e in f.elements():
            trees = [x[1] for x in e[1]] if e[0] == "D" else [e[1]]
            for t in trees:
                for n in walk(t):
                    if n[0] == "c" and callee(n) in CMP_FUNCS:
                        for a in n[3]:
                            a = strip(a)
                            if isinstance(a, list) and a and a[0] == "s":
                                strs.add(a[1])
                    if n[0] == "v" and n[1] in ("g", "sg") and n[2] in tables:
                        used_tables.add(n[2])
        for bid in f.live:
            bl = f.blocks[bid]
            l = bl.get("l")
            if l and l[0] == "case" and l[1] is not None and 32 <= l[1] < 127:
                chars.add(chr(l[1]))
            if "c" in bl:
                for n in walk(bl["c"]):
                    if n[0] == "c" and callee(n) in CMP_FUNCS:
                        for a in n[3]:
                            a = strip(a)
                            if isinstance(a, list) and a and a[0] == "s":
                                strs.add(a[1])
                    if n[0] == "v" and n[1] in ("g", "sg") and n[2] in tables:
                        used_tables.add(n[2])
                    if n[0] == "b" and n[1] in ("==", "!="):
                        for x in (n[2], n[3]):
                            v = const_of(x)
                            if v is not None and 32 <= v < 127:
                                chars.add(chr(v))
    for tname in used_tables:
        strs |= {v for v in tables[tname] if v}
    return strs, chars, used_tables


def closure_funcs(prog, roots):
    keys = [prog.require_fn(r).key for r in roots]
    par = prog.reachable(keys)
    return [prog.funcs[k] for k in par if k in prog.funcs]


def first_word(lit):
    m = re.match(r"\s*([A-Za-z_'][A-Za-z_']*)", lit)
    return m.group(1) if m else None


def check_subset(res, rule, what, emitted, accepted, ci=False):
    """emitted: list of (token, loc, function name); accepted: set"""
    acc = {a.lower() for a in accepted} if ci else set(accepted)
    for tok, loc, fn in emitted:
        res.obligations += 1
        ok = (tok.lower() in acc) if ci else (tok in acc)
        if ok:
            res.sample({"token": tok, "emitted_at": "%s %s" % (short_loc(loc), fn), "verdict": "accepted by the reader (%s)" % what}, limit=10)
        else:
            res.violations.append(Violation(rule, "%s|writer emits %r not accepted by the reader" % (what, tok), fn, short_loc(loc),
                                            "the %s writer emits the token %r, which is not among the literals the reader compares against" % (what, tok)))


def run_basis(prog, rule="R-TOKENS"):
    res = RuleResult(rule, "every status code / section keyword the basis-file writer emits is one the basis-file reader compares against")
    w = prog.require_fn("mpq_ILLlib_writebasis")
    r = prog.require_fn("mpq_ILLlib_readbasis")
    tables = string_tables(prog)
    acc, chars, used = accepted_literals(prog, [r], tables)
    emitted = []
    for lit, loc, f, c in format_literals(prog, [w]):
        tok = first_word(lit)
        if tok and tok.isupper() and len(tok) >= 2:
            emitted.append((tok, loc, f.name))
    check_subset(res, rule, "basis file", emitted, acc)
    codes = {t for t, _, _ in emitted}
    res.counts["emitted"] = sorted(codes)
    res.counts["accepted"] = sorted(a for a in acc if a.isupper() and len(a) <= 8)
    res.floor("basis status codes written (XL, XU, UL)", len(codes & {"XL", "XU", "UL"}), 3)
    res.floor("basis section keywords written (NAME, ENDATA)", len(codes & {"NAME", "ENDATA"}), 2)
    return res


def run_sections(prog, writer, terminators, print_funcs=PRINT_FUNCS, rule="R-SECTIONS", token_ok=None):
    """In a sectioned-file writer the terminator keyword (ENDATA / End) is emitted only after every section emitter has been
    passed: for each emission of a section token that sits in a loop, the loop's condition block must lie on every path to
    each emission of a terminator.  (A writer that returns early with the terminator drops the remaining sections.)"""
    from ..core import Flow
    res = RuleResult(rule, "the terminator keyword of %s is emitted only after the loop of every section emitter has been passed" % writer)
    f = prog.require_fn(writer)
    succ = {bid: [x for x in prog.live_succs(f, b) if x is not None] for bid, b in f.blocks.items()}

    def loop_header_of(bid):
        """innermost loop condition block whose body contains bid"""
        best = None
        for hb, hblk in f.blocks.items():
            if hblk.get("t") not in ("ForStmt", "WhileStmt", "DoStmt") or hb not in f.live:
                continue
            ss = prog.live_succs(f, hblk)
            if not ss or ss[0] is None:
                continue
            body = set()
            st = [ss[0]]
            while st:
                x = st.pop()
                if x in body or x == hb:
                    continue
                body.add(x)
                st.extend(succ.get(x, ()))
            # body of the loop = blocks reachable from the true edge from which the header is reachable again
            if bid in body and hb in _reach(succ, bid):
                if best is None or len(body) < best[1]:
                    best = (hb, len(body))
        return best[0] if best else None
    term_sites = {}
    sect = {}
    for b, i, e in f.elements():
        if e[0] != "C" or callee(e[1]) not in print_funcs:
            continue
        k = print_funcs[callee(e[1])]
        lits = []
        for a in e[1][3][k:]:
            a = strip(a)
            if isinstance(a, list) and a and a[0] == "s":
                lits.append(a[1])
        for lit in lits:
            tok = first_word(lit)
            if not tok:
                continue
            if tok in terminators:
                term_sites[(b["id"], i)] = (tok, e[2])
            elif token_ok is None or token_ok(tok):
                hb = loop_header_of(b["id"])
                if hb is not None:
                    sect.setdefault(hb, set()).add(tok)
    res.counts["section_loops"] = {str(h): sorted(v) for h, v in sect.items()}
    res.counts["terminator_sites"] = len(term_sites)
    if not term_sites:
        raise AnalysisBroken("%s: no emission of a terminator keyword %s found" % (writer, sorted(terminators)))
    headers = set(sect)
    seen = {}

    def xfer(b, i, e, st):
        k = (b["id"], i)
        if k in term_sites:
            missing = headers - set(st[0])
            if missing:
                seen.setdefault(k, (missing, b["id"], st))
        return None

    def refine(cond, truth, st):
        return None
    # passing a header = visiting its block: record on block entry via xfer of its first element is not possible for
    # empty blocks, so track through a wrapper on edges: we mark in xfer when the block id is a header (any element) and
    # additionally in the edge step below
    class F2(Flow):
        pass
    fl = Flow(prog, f, [(frozenset(),)], xfer, None)
    # custom run: mark headers on block entry
    orig_blocks = f.blocks
    import collections as _c
    IN = _c.defaultdict(set)
    wl = _c.deque()
    IN[f.entry].add((frozenset(),))
    wl.append((f.entry, (frozenset(),)))
    prov = {}
    visits = 0
    while wl:
        bid, st = wl.popleft()
        visits += 1
        if visits > 500000:
            raise AnalysisBroken("R-SECTIONS did not converge in %s" % writer)
        b = f.blocks[bid]
        cur = st
        if bid in headers:
            cur = (frozenset(set(cur[0]) | {bid}),)
        for i, e in enumerate(b["e"]):
            xfer(b, i, e, cur)
        if b.get("noret"):
            continue
        for s in prog.live_succs(f, b):
            if s is None:
                continue
            if cur not in IN[s]:
                IN[s].add(cur)
                wl.append((s, cur))
    for k, (tok, loc) in sorted(term_sites.items()):
        res.obligations += 1
        res.nontrivial += 1
        if k in seen:
            missing = seen[k][0]
            names = sorted(set().union(*[sect[h] for h in missing]))
            res.violations.append(Violation(rule, "%s|%s emitted before sections %s" % (writer, tok, ",".join(names)), writer, short_loc(loc),
                                            "%s can be written on a path that has not passed the emitter loop of section token(s) %s: those lines are dropped from the file"
                                            % (tok, ", ".join(names))))
        else:
            res.sample({"terminator": tok, "at": short_loc(loc), "verdict": "every section emitter loop precedes it on all paths",
                        "sections": sorted(set().union(*sect.values())) if sect else []})
    res.floor("section emitter loops in %s" % writer, len(headers), 1)
    return res


def _reach(succ, start):
    seen = set()
    st = list(succ.get(start, ()))
    while st:
        x = st.pop()
        if x in seen:
            continue
        seen.add(x)
        st.extend(succ.get(x, ()))
    return seen
