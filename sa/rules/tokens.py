"""R-TOKENS (C08, C09, C14, C19): what a writer emits, the reader accepts.  Pure agreement of type-resolved
string literals: tokens taken from the format literals of the writer functions must be members of the set of
literals the reader functions compare their input against (strcmp-family operands and string tables)."""
import re

from ..core import walk, strip, is_var, callee, const_of, show, short_loc, AnalysisBroken
from ..result import RuleResult, Violation

CMP_FUNCS = {"strcmp", "strcasecmp", "strncasecmp", "strncmp", "ILLutil_index", "ILLutil_array_index"}
PRINT_FUNCS = {"EGioPrintf": 1, "mpq_ILLprint_report": 1, "fprintf": 1, "sprintf": 1, "snprintf": 2, "QSlog": 0,
               "mpq_ILLwrite_lp_state_append": 1, "mpq_ILLwrite_lp_state_init": 1, "mpq_ILLwrite_lp_state_start": 1}


def string_tables(prog, units=None):
    """global const char *[] tables: name -> list of strings"""
    out = {}
    for name, gl in prog.globals.items():
        for g in gl:
            if units and g["unit"] not in units:
                continue
            init = g.get("init")
            if init and init[0] == "il":
                vals = []

                def collect(items, depth=0):
                    # arrays of strings and arrays of records with string members ({"XL", READ_BASIS_XL}, ...)
                    for x in items:
                        x = strip(x)
                        if isinstance(x, list) and x and x[0] == "s":
                            vals.append(x[1])
                        elif isinstance(x, list) and x and x[0] == "n":
                            vals.append(None)
                        elif isinstance(x, list) and x and x[0] == "il" and depth < 3:
                            collect(x[1], depth + 1)
                collect(init[1])
                if vals and any(v is not None for v in vals):
                    out[name] = vals
    return out


def format_literals(prog, funcs, print_funcs=PRINT_FUNCS, with_args=True, args_only=False):
    """(literal, loc, function, call node) for every literal format/text argument of a print call in funcs"""
    out = []
    for f in funcs:
        for b, i, c in f.calls():
            n = callee(c)
            if n in print_funcs:
                k = print_funcs[n]
                if k < len(c[3]) and not args_only:
                    a = strip(c[3][k])
                    if isinstance(a, list) and a and a[0] == "s":
                        out.append((a[1], c[4], f, c))
                    elif isinstance(a, list) and a and a[0] == "q":
                        for alt in (strip(a[2]), strip(a[3])):
                            if isinstance(alt, list) and alt and alt[0] == "s":
                                out.append((alt[1], c[4], f, c))
                if not with_args:
                    continue
                # literal %s arguments ("%s", "RANGES")
                for a in c[3][k + 1:] if k < len(c[3]) else []:
                    a = strip(a)
                    if isinstance(a, list) and a and a[0] == "s":
                        out.append((a[1], c[4], f, c))
                    elif isinstance(a, list) and a and a[0] == "q":
                        for alt in (strip(a[2]), strip(a[3])):
                            if isinstance(alt, list) and alt and alt[0] == "s":
                                out.append((alt[1], c[4], f, c))
    return out


def accepted_literals(prog, funcs, tables):
    """strings the given functions compare input against: strcmp-family operands, table elements of tables they reference,
    and character constants in switch cases / comparisons (returned separately)"""
    strs = set()
    chars = set()
    used_tables = set()
    for f in funcs:
        for b, i, e in f.elements():
            trees = [x[1] for x in e[1]] if e[0] == "D" else [e[1]]
            for t in trees:
                for n in walk(t):
                    if n[0] == "c" and callee(n) in CMP_FUNCS:
                        for a in n[3]:
                            a = strip(a)
                            if isinstance(a, list) and a and a[0] == "s":
                                strs.add(a[1])
                    if n[0] == "v" and n[1] in ("g", "sg") and n[2] in tables:
                        used_tables.add(n[2])
        for bid in f.live:
            bl = f.blocks[bid]
            l = bl.get("l")
            if l and l[0] == "case" and l[1] is not None and 32 <= l[1] < 127:
                chars.add(chr(l[1]))
            if "c" in bl:
                for n in walk(bl["c"]):
                    if n[0] == "c" and callee(n) in CMP_FUNCS:
                        for a in n[3]:
                            a = strip(a)
                            if isinstance(a, list) and a and a[0] == "s":
                                strs.add(a[1])
                    if n[0] == "v" and n[1] in ("g", "sg") and n[2] in tables:
                        used_tables.add(n[2])
                    if n[0] == "b" and n[1] in ("==", "!="):
                        for x in (n[2], n[3]):
                            v = const_of(x)
                            if v is not None and 32 <= v < 127:
                                chars.add(chr(v))
    for tname in used_tables:
        strs |= {v for v in tables[tname] if v}
    return strs, chars, used_tables


def closure_funcs(prog, roots):
    keys = [prog.require_fn(r).key for r in roots]
    par = prog.reachable(keys)
    return [prog.funcs[k] for k in par if k in prog.funcs]


def first_word(lit):
    m = re.match(r"\s*([A-Za-z_'][A-Za-z_']*)", lit)
    return m.group(1) if m else None


def check_subset(res, rule, what, emitted, accepted, ci=False):
    """emitted: list of (token, loc, function name); accepted: set"""
    acc = {a.lower() for a in accepted} if ci else set(accepted)
    for tok, loc, fn in emitted:
        res.obligations += 1
        ok = (tok.lower() in acc) if ci else (tok in acc)
        if ok:
            res.sample({"token": tok, "emitted_at": "%s %s" % (short_loc(loc), fn), "verdict": "accepted by the reader (%s)" % what}, limit=10)
        else:
            res.violations.append(Violation(rule, "%s|writer emits %r not accepted by the reader" % (what, tok), fn, short_loc(loc),
                                            "the %s writer emits the token %r, which is not among the literals the reader compares against" % (what, tok)))


def run_basis(prog, rule="R-TOKENS"):
    res = RuleResult(rule, "every status code / section keyword the basis-file writer emits is one the basis-file reader compares against")
    w = prog.require_fn("mpq_ILLlib_writebasis")
    r = prog.require_fn("mpq_ILLlib_readbasis")
    tables = string_tables(prog)
    acc, chars, used = accepted_literals(prog, [r], tables)
    emitted = []
    for lit, loc, f, c in format_literals(prog, [w]):
        tok = first_word(lit)
        if tok and tok.isupper() and len(tok) >= 2:
            emitted.append((tok, loc, f.name))
    check_subset(res, rule, "basis file", emitted, acc)
    codes = {t for t, _, _ in emitted}
    res.counts["emitted"] = sorted(codes)
    res.counts["accepted"] = sorted(a for a in acc if a.isupper() and len(a) <= 8)
    res.floor("basis status codes written (XL, XU, UL)", len(codes & {"XL", "XU", "UL"}), 3)
    res.floor("basis section keywords written (NAME, ENDATA)", len(codes & {"NAME", "ENDATA"}), 2)
    return res


def run_sections(prog, writer, terminators, print_funcs=PRINT_FUNCS, rule="R-SECTIONS", token_ok=None):
    """In a sectioned-file writer the terminator keyword (ENDATA / End) closes the file: (a) every emission of the terminator
    is dominated by the entry of every section (the lowest block dominating both the section's emitter and the final
    terminator emission), so no early exit can write the terminator while skipping sections; (b) no section emitter is
    reachable after a terminator emission.  Section emitters are the loops (or, failing that, the blocks) containing the
    section-token prints, and calls to same-unit functions that print through the writer's channel."""
    from ..core import dominators
    res = RuleResult(rule, "every emission of the terminator keyword of %s is dominated by the entry of every section and is followed by no section" % writer)
    f = prog.require_fn(writer)
    dom, succ = dominators(prog, f)
    printers = set()
    for g in prog.funcs.values():
        if g.unit == f.unit and g.key != f.key and any(callee(c) in print_funcs or callee(c) in ("mpq_ILLwrite_lp_state_append",) for b, i, c in g.calls()):
            printers.add(g.name)
    term_sites = {}
    sect_blocks = {}
    for b, i, e in f.elements():
        if e[0] != "C":
            continue
        cn = callee(e[1])
        if cn in printers:
            sect_blocks.setdefault(b["id"], set()).add(cn + "()")
            continue
        if cn not in print_funcs:
            continue
        k = print_funcs[cn]
        for a in e[1][3][k:]:
            a = strip(a)
            if not (isinstance(a, list) and a and a[0] == "s"):
                continue
            tok = first_word(a[1])
            if not tok:
                continue
            if tok in terminators:
                term_sites[(b["id"], i)] = (tok, e[2])
            elif token_ok is None or token_ok(tok):
                sect_blocks.setdefault(b["id"], set()).add(tok)
    if not term_sites:
        raise AnalysisBroken("%s: no emission of a terminator keyword %s found" % (writer, sorted(terminators)))
    last = max(term_sites, key=lambda k_: term_sites[k_][1].split(":")[1:2] and int(term_sites[k_][1].split(":")[1]))
    lastb = last[0]
    res.counts["sections"] = sorted(set().union(*sect_blocks.values())) if sect_blocks else []
    res.counts["terminator_sites"] = len(term_sites)
    entries = {}
    for sb, toks in sect_blocks.items():
        if sb not in dom or lastb not in dom:
            continue
        common = dom[sb] & dom[lastb]
        # lowest common dominator = the one dominated by all others in the set
        low = max(common, key=lambda x: len(dom[x]))
        entries.setdefault(low, set()).update(toks)
    for (tb, ti), (tok, loc) in sorted(term_sites.items()):
        res.obligations += 1
        res.nontrivial += 1
        bad = []
        for ent, toks in entries.items():
            if ent not in dom.get(tb, ()):
                bad.append(("skips", toks))
        after = _reach(succ, tb)
        for sb, toks in sect_blocks.items():
            if sb in after and sb != tb:
                bad.append(("precedes", toks))
        if bad:
            kinds = sorted(set(k_ for k_, _ in bad))
            names = sorted(set().union(*[t for _, t in bad]))
            res.violations.append(Violation(rule, "%s|%s %s sections %s" % (writer, tok, "/".join(kinds), ",".join(names)), writer, short_loc(loc),
                                            "%s is written at a point that %s the section emitter(s) %s: those lines are dropped from (or follow the end of) the file"
                                            % (tok, " / ".join(kinds), ", ".join(names))))
        else:
            res.sample({"terminator": tok, "at": short_loc(loc), "verdict": "dominated by the entry of every section; no section emitter after it",
                        "sections": res.counts["sections"]})
    res.floor("section emitters in %s" % writer, len(sect_blocks), 2)
    return res


def _reach(succ, start):
    seen = set()
    st = list(succ.get(start, ()))
    while st:
        x = st.pop()
        if x in seen:
            continue
        seen.add(x)
        st.extend(succ.get(x, ()))
    return seen


def _assigned_literals(funcs):
    out = set()
    for f in funcs:
        for b, i, e in f.elements():
            if e[0] == "A":
                r = strip(e[1][3])
                if isinstance(r, list) and r and r[0] == "s":
                    out.add(r[1])
            elif e[0] == "D":
                for n, init in e[1]:
                    if init is not None:
                        for nd in walk(init):
                            if nd[0] == "s":
                                out.add(nd[1])
            elif e[0] == "C":
                n = callee(e[1]) or ""
                if "next_is" in n or "strcasecmp" in n or "strcmp" in n:
                    for a in e[1][3]:
                        a = strip(a)
                        if isinstance(a, list) and a and a[0] == "s":
                            out.add(a[1])
        for bid in f.live:
            bl = f.blocks[bid]
            if "c" in bl:
                for nd in walk(bl["c"]):
                    if nd[0] == "c" and ("next_is" in (callee(nd) or "") or "strcasecmp" in (callee(nd) or "") or "strcmp" in (callee(nd) or "")):
                        for a in nd[3]:
                            a = strip(a)
                            if isinstance(a, list) and a and a[0] == "s":
                                out.add(a[1])
    return out


def run_mps(prog, rule="R-TOKENS"):
    res = RuleResult(rule, "every section keyword, row-type letter, bound-type mnemonic and marker the MPS writer emits is accepted by the MPS reader")
    w0 = prog.require_fn("mpq_ILLwrite_mps")
    # the writer and the static helpers of its unit that it (transitively) calls - whatever they are called
    wfuncs = [w0] + [f for f in closure_funcs(prog, ["mpq_ILLwrite_mps"]) if f.static and f.unit == w0.unit and f.key != w0.key]
    rfuncs = closure_funcs(prog, ["mpq_ILLread_mps"])
    rfuncs = [f for f in rfuncs if "mps" in f.unit or "rawlp" in f.unit]
    tables = string_tables(prog)
    acc, chars, used = accepted_literals(prog, rfuncs, tables)
    acc |= _assigned_literals(rfuncs)
    sections = set(v for v in tables.get("mpq_ILLmps_section_name", []) if v)
    bounds = set(v for v in tables.get("mps_bound_name", []) if v)
    if not sections or not bounds:
        raise AnalysisBroken("MPS reader tables (section names / bound names) not found")
    em_sec, em_row, em_bnd, em_mark = [], [], [], []
    for lit, loc, f, c in format_literals(prog, wfuncs, {"mpq_ILLprint_report": 1}, args_only=True):
        if re.fullmatch(r"[A-Z][A-Z0-9]+", lit or ""):       # literal passed as %s argument: INTORG / MAX / MIN / S1 ...
            em_mark.append((lit, loc, f.name))
    for lit, loc, f, c in format_literals(prog, wfuncs, {"mpq_ILLprint_report": 1}, with_args=False):
        if not lit:
            continue
        for q in re.findall(r"'([A-Z]+)'", lit):
            em_mark.append(("'%s'" % q, loc, f.name))
        if lit[0].isupper():
            em_sec.append((first_word(lit), loc, f.name))
        elif lit[0] == " ":
            ws = lit.split()
            if ws and re.match(r"^[A-Z]$", ws[0]):
                em_row.append((ws[0], loc, f.name))
            elif len(ws) >= 2 and re.match(r"^[A-Z]{2}$", ws[0]) and ws[1] == "BOUND":
                em_bnd.append((ws[0], loc, f.name))
    check_subset(res, rule, "MPS section", em_sec, sections)
    check_subset(res, rule, "MPS row type", em_row, chars)
    check_subset(res, rule, "MPS bound type", em_bnd, bounds)
    quoted = {a for a in acc if a.startswith("'")} | {a.strip("'") for a in acc if a.startswith("'")} | {a for a in acc if a.isupper()}
    check_subset(res, rule, "MPS marker/objsense", em_mark, quoted)
    res.counts["sections_written"] = sorted({t for t, _, _ in em_sec})
    res.counts["row_types_written"] = sorted({t for t, _, _ in em_row})
    res.counts["bound_types_written"] = sorted({t for t, _, _ in em_bnd})
    res.counts["markers_written"] = sorted({t for t, _, _ in em_mark})
    res.floor("MPS sections written", len(set(t for t, _, _ in em_sec)), 8)
    res.floor("MPS bound types written", len(set(t for t, _, _ in em_bnd)), 6)
    res.floor("MPS row types written", len(set(t for t, _, _ in em_row)), 4)
    return res


def run_lp(prog, rule="R-TOKENS"):
    res = RuleResult(rule, "every keyword the LP writer emits (section headers, free, inf, -inf) is accepted by the LP reader (case-insensitively)")
    wfuncs = [f for f in closure_funcs(prog, ["mpq_ILLwrite_lp"]) if "lp_mpq" in f.unit]
    rfuncs = [f for f in closure_funcs(prog, ["mpq_ILLread_lp"]) if "lp_mpq" in f.unit]
    tables = string_tables(prog)
    acc, chars, used = accepted_literals(prog, rfuncs, tables)
    acc |= _assigned_literals(rfuncs)
    kw = set(v for v in tables.get("all_keyword", []) if v)
    if not kw:
        raise AnalysisBroken("LP reader keyword table all_keyword not found")
    acc |= kw
    em = []
    for lit, loc, f, c in format_literals(prog, wfuncs, {"mpq_ILLprint_report": 1, "mpq_ILLwrite_lp_state_append": 1, "mpq_ILLwrite_lp_state_init": 1}):
        n = callee(c)
        if n == "mpq_ILLprint_report":
            if lit and lit[0].isalpha():
                em.append((first_word(lit), loc, f.name))
        else:
            t = lit.strip()
            if re.match(r"^-?[a-z]{3,}$", t):
                em.append((t.lstrip("-"), loc, f.name))
    check_subset(res, rule, "LP keyword", em, acc, ci=True)
    res.counts["keywords_written"] = sorted({t for t, _, _ in em})
    res.floor("LP keywords written", len(set(t for t, _, _ in em)), 8)
    # sense tokens
    senses = []
    for lit, loc, f, c in format_literals(prog, wfuncs, {"mpq_ILLwrite_lp_state_append": 1}):
        t = lit.strip()
        if t in (">=", "<=", "=", "=>", "=<", ">", "<"):
            senses.append((t, loc, f.name))
    sfun = prog.fn("mpq_ILLtest_lp_state_sense")
    if sfun is None:
        raise AnalysisBroken("LP sense reader (ILLread_lp_state_sense / ILLtest_lp_state_sense) not found")
    _, schars, _ = accepted_literals(prog, [sfun], tables)
    for t, loc, fn in senses:
        res.obligations += 1
        if all(ch in schars for ch in t):
            res.sample({"token": t, "verdict": "every character is one the sense reader tests for"}, limit=3)
        else:
            res.violations.append(Violation(rule, "LP sense|writer emits %r" % t, fn, short_loc(loc), "sense token %r contains a character the LP sense reader does not test" % t))
    res.floor("LP sense tokens written", len(set(t for t, _, _ in senses)), 3)
    return res
