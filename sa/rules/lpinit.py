"""R-LPINIT (C07, C17): what the interface reads of the simplex record has a value from the start.

`QSdata::lp` is allocated with the problem and initialised by ILLsimplex_init_lpinfo / ILLsimplex_load_lpinfo; everything else in it is
set by a simplex run.  A scalar field of lpinfo (an int, a flag of the embedded status records) that code outside the simplex machinery
reads - the query functions of lib.c / qsopt.c, the exact driver - must be written by the initialisation (the closure of the two init
routines): otherwise a query on a problem that was never solved branches on whatever malloc returned (QSget_objval on a freshly read
problem answered rval 0 and a value, valgrind: conditional jump depends on uninitialised value).  Field census: reads outside the
machinery units, writes in the call closure of the initialisers; pointer fields are R-LPSTATE's business (a NULL test is their guard)."""
import collections

from ..core import walk, strip, is_var, show, short_loc, AnalysisBroken
from ..result import RuleResult, Violation

MACHINERY = ("simplex_", "basis_", "factor_", "fct_", "price_", "ratio_")
INITS = ("mpq_ILLsimplex_init_lpinfo", "mpq_ILLsimplex_load_lpinfo")


def _lp_scalar_reads(t):
    """(field path text, node) for lp->F and lp->R.F where the value is a scalar of lpinfo or of a record embedded in it"""
    out = []
    for nd in walk(t):
        if not (isinstance(nd, list) and nd and nd[0] == "m" and isinstance(nd[2], str)):
            continue
        if nd[2].startswith("mpq_lpinfo::"):
            out.append((nd[2].split("::")[1], nd))
        elif len(nd) > 3 and nd[3] == 0:
            inner = strip(nd[1])
            if isinstance(inner, list) and inner and inner[0] == "m" and isinstance(inner[2], str) and inner[2].startswith("mpq_lpinfo::"):
                out.append((inner[2].split("::")[1] + "." + nd[2].split("::")[1], nd))
    return out


def run(prog, rule="R-LPINIT", floor=6):
    res = RuleResult(rule, "every scalar field of the simplex record that code outside the simplex machinery reads is written by the record's initialisation")
    inits = [prog.fn(n) for n in INITS]
    if any(f is None for f in inits):
        raise AnalysisBroken("R-LPINIT: initialiser of lpinfo not found")
    closure = prog.reachable([f.key for f in inits])
    written = set()
    for k in closure:
        f = prog.funcs.get(k)
        if f is None or f.live is None:
            continue
        for b, i, e in f.elements():
            if e[0] == "A":
                for name, nd in _lp_scalar_reads(e[1][2]):
                    written.add(name)
                    written.add(name.split(".")[0] + ".*" if "." in name else name)
            if e[0] in ("C", "A"):
                for nd in walk(e[1]):
                    if isinstance(nd, list) and nd and nd[0] == "c":
                        for a in nd[3]:
                            for name, _n in _lp_scalar_reads(a):
                                written.add(name)       # handed to a routine (EGlpNumInitVar, memset, init_lp_status_info (&lp->basisstat))
    # embedded status records initialised by a helper that stores into every flag: the helper's parameter is the record
    for k in closure:
        f = prog.funcs.get(k)
        if f is None or f.live is None:
            continue
        for b, i, c in f.calls():
            for a in c[3]:
                a0 = strip(a)
                if isinstance(a0, list) and a0 and a0[0] == "u" and a0[1] == "&":
                    inner = strip(a0[2])
                    if isinstance(inner, list) and inner and inner[0] == "m" and isinstance(inner[2], str) and inner[2].startswith("mpq_lpinfo::"):
                        written.add(inner[2].split("::")[1] + ".*")
    rec = prog.records.get("mpq_lpinfo") or {}
    ptr_fields = {x[0] for x in rec.get("fields", ()) if "*" in x[1] or "[" in x[1]}
    reads = collections.defaultdict(list)
    from .inval import api_functions
    pubreach = prog.reachable(sorted(f.key for f, _ in api_functions(prog)))
    for f in sorted(prog.funcs.values(), key=lambda x: x.key):
        if f.key not in pubreach or "editor" in f.unit:
            continue                                    # the interactive editor prints after its own solve
        if f.live is None or "_dbl." in f.unit or "_mpf." in f.unit or not f.unit.startswith("qsopt_ex/") or any(m in f.unit for m in MACHINERY):
            continue
        if f.key in closure:
            continue
        own = set()
        for b, i, e in f.elements():
            if e[0] == "A":
                for name, _n in _lp_scalar_reads(e[1][2]):
                    own.add(name)                       # the function sets the field itself before it uses it (ILLlib_addrows re-links the record)
            if e[0] == "C":
                for a in e[1][3]:
                    a0 = strip(a)
                    if isinstance(a0, list) and a0 and a0[0] == "u" and a0[1] == "&":
                        for name, _n in _lp_scalar_reads(a0[2]):
                            own.add(name.split(".")[0] + ".*")      # memset (&lp->basisstat, 0, ...)
        for bid in f.live:
            blk = f.blocks[bid]
            trees = []
            for e in blk["e"]:
                if e[0] == "A":
                    trees.append((e[1][3], e[2]))
                    l = strip(e[1][2])
                    if isinstance(l, list) and l and l[0] == "i":
                        trees.append((l[2], e[2]))
                elif e[0] == "D":
                    trees += [(x[1], e[2]) for x in e[1] if x[1] is not None]
                elif e[0] in ("C", "R") and isinstance(e[1], list):
                    trees.append((e[1], e[2] if len(e) > 2 else f.loc))
            if blk.get("c") is not None:
                trees.append((blk["c"], blk.get("tloc", f.loc)))
            for t, loc in trees:
                for name, nd in _lp_scalar_reads(t):
                    base = name.split(".")[0]
                    if base in ptr_fields and "." not in name:
                        continue
                    if name in own or base + ".*" in own:
                        continue
                    reads[name].append((f.name, loc))
    n = 0
    for name in sorted(reads):
        base = name.split(".")[0]
        fld = [x for x in rec.get("fields", ()) if x[0] == base]
        if fld and ("*" in fld[0][1]):
            continue
        if "." not in name and fld and not any(t in fld[0][1] for t in ("int", "char", "long", "double", "unsigned", "size_t")):
            continue                                   # numbers (mpq_t) are initialised with the record's arrays; records are handled through their flags
        n += 1
        res.obligations += 1
        res.nontrivial += 1
        if name in written or base + ".*" in written or base in written:
            res.sample({"field": "lpinfo::" + name, "read_by": reads[name][0][0], "verdict": "written by the initialisation"}, limit=12)
        else:
            who, loc = reads[name][0]
            res.violations.append(Violation(rule, "lpinfo::%s|read outside the machinery, not initialised" % name, who, short_loc(loc),
                                            "lpinfo::%s is read by %s (and %d other site(s)) but neither ILLsimplex_init_lpinfo nor ILLsimplex_load_lpinfo (or a callee) "
                                            "writes it: on a problem that was never solved its value is whatever the allocation returned" % (name, who, len(reads[name]) - 1)))
    res.counts["scalar_fields_read_outside_the_machinery"] = n
    res.floor("scalar fields of lpinfo read outside the simplex machinery", n, floor)
    return res
