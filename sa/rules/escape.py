"""R-EXTORDER (C13, C12): internal column numbers never leave the library.
The solver numbers columns internally (structurals and logicals interleaved in creation order); the API speaks
'structural j' / 'row i' (and nstruct + i for the logical of row i in basis orders and tableau rows).  Any value
loaded from an internal-column-valued array (baz, nbaz, structmap, rowmap) that is stored through an int out-parameter
must first pass through an inverse map; the inverse map of ILLlib_basis_order must be populated as
M[structmap[j]] = j and M[rowmap[i]] = nstruct + i."""
from ..core import walk, strip, is_var, apath, fields_of, show, short_loc, AnalysisBroken
from ..result import RuleResult, Violation
from .idxclass import arr_info
from .idx import dim_class, STRUCT, COL

UNITS = ("lib_mpq.c", "qsopt_mpq.c", "basis_mpq.c", "fct_mpq.c")


def _direct_internal(t):
    """field name when the value of t is directly an element of an internal-column-valued array (also through +/- a constant)"""
    t = strip(t)
    if isinstance(t, list) and t and t[0] == "i":
        c, v, fld = arr_info(t[1], {})
        if v == COL:
            return fld
    if isinstance(t, list) and t and t[0] == "q":
        return _direct_internal(t[2]) or _direct_internal(t[3])
    return None


def run(prog, prefix="mpq_", rule="R-EXTORDER"):
    res = RuleResult(rule, "values of internal-column-valued arrays (baz, nbaz, structmap, rowmap) reach an int out-parameter only through an "
                           "inverse map, and the inverse map of the basis order is the inverse of structmap / rowmap with logicals at nstruct + i")
    stores = 0
    for f in sorted(prog.funcs.values(), key=lambda x: x.key):
        if not any(u in f.unit for u in UNITS):
            continue
        for b, i, e in f.elements():
            if e[0] != "A" or e[1][1] != "=":
                continue
            p = apath(e[1][2])
            if not (p[0].startswith("p") and p[0][1:].isdigit() and p[2] and not fields_of(p[2])):
                continue
            k = int(p[0][1:])
            if k >= len(f.params) or "int" not in f.params[k][1] or "*" not in f.params[k][1]:
                continue
            stores += 1
            res.obligations += 1
            fld = _direct_internal(e[1][3])
            if fld:
                res.violations.append(Violation(rule, "%s|%s stored through %s" % (f.name.replace(prefix, ""), fld, f.params[k][0]), f.name, short_loc(e[2]),
                                                "%s hands an internal column number (element of %s) to the caller; the API numbering is "
                                                "structural j / nstruct + row i" % (show(e[1]), fld)))
    # anchor: the inverse map of the basis order
    f = prog.require_fn(prefix + "ILLlib_basis_order")
    out = None
    for b, i, e in f.elements():
        if e[0] == "A" and e[1][1] == "=":
            p = apath(e[1][2])
            if p[0].startswith("p") and p[2] == ("[]",):
                r = strip(e[1][3])
                if isinstance(r, list) and r and r[0] == "i" and is_var(strip(r[1]), kind="l") and _direct_internal(r[2]) == "baz":
                    out = strip(r[1])[2]
    if out is None:
        if not any(v.func == f.name for v in res.violations):
            raise AnalysisBroken("%s: the store header[i] = M[baz[i]] through a local inverse map was not found" % f.name)
        return res
    pop = {}
    for b, i, e in f.elements():
        if e[0] == "A" and e[1][1] == "=":
            l = strip(e[1][2])
            if isinstance(l, list) and l and l[0] == "i" and is_var(strip(l[1]), name=out):
                idx = strip(l[2])
                if isinstance(idx, list) and idx and idx[0] == "i":
                    c, v, fld = arr_info(idx[1], {})
                    if fld in ("structmap", "rowmap") and is_var(strip(idx[2])):
                        pop[fld] = (strip(idx[2])[2], strip(e[1][3]), e[2])
    dimv = {}
    for b, i, e in f.elements():
        if e[0] == "D":
            for n, init in e[1]:
                if init is not None and dim_class(init):
                    dimv[n] = dim_class(init)
    for fld in ("structmap", "rowmap"):
        res.obligations += 1
        res.nontrivial += 1
        if fld not in pop:
            raise AnalysisBroken("%s: population of the inverse map over %s not found" % (f.name, fld))
        v, rhs, loc = pop[fld]
        ok = False
        if fld == "structmap":
            ok = is_var(rhs, name=v)
        else:
            if isinstance(rhs, list) and rhs and rhs[0] == "b" and rhs[1] == "+":
                a, b_ = strip(rhs[2]), strip(rhs[3])
                for x, y in ((a, b_), (b_, a)):
                    if is_var(y, name=v) and (dim_class(x) == STRUCT or (is_var(x) and dimv.get(x[2]) == STRUCT)):
                        ok = True
        if ok:
            res.sample({"store": "%s[%s[%s]] = %s at %s" % (out, fld, v, show(rhs), short_loc(loc)), "verdict": "inverse of the API numbering"})
        else:
            res.violations.append(Violation(rule, "ILLlib_basis_order|inverse map over %s" % fld, f.name, short_loc(loc),
                                            "%s[%s[%s]] = %s: expected %s" % (out, fld, v, show(rhs), v if fld == "structmap" else "nstruct + " + v)))
    res.counts["stores_through_int_out_parameters"] = stores
    res.floor("stores through int out-parameters examined", stores, 20)
    return res


def run_extcopy(prog, prefix="mpq_", rule="R-EXTORDER"):
    """a work vector in internal column order (a local array allocated with ncols entries) is copied into an array handed in by the
    caller only element by element through structmap[] / rowmap[]: the caller's arrays are in external order (structurals, then the
    logical of row i at nstruct + i), and internal order equals external order only for problems whose columns were all created
    before their rows."""
    from ..core import callee, const_of
    res = RuleResult(rule + "(copy)", "elements of a work array in internal column order reach a caller's array only through a structmap[] / rowmap[] subscript")
    n = 0
    for f in sorted(prog.funcs.values(), key=lambda x: x.key):
        if f.live is None or not any(u in f.unit for u in UNITS):
            continue
        byloc = {}
        for b, i, e in f.elements():
            if e[0] == "D":
                for n2, init in e[1]:
                    if init is not None and n2.startswith("__"):
                        byloc.setdefault(e[2].rsplit(":", 1)[0], []).append(init)
        internal = set()
        for b, i, e in f.elements():
            if e[0] == "A" and e[1][1] == "=" and is_var(e[1][2], kind="l"):
                rhs = e[1][3]
                if isinstance(rhs, list) and rhs and rhs[0] == "se":
                    inits = byloc.get(e[2].rsplit(":", 1)[0], [])
                    dims = set()
                    for t in inits:
                        for nd in walk(t):
                            if nd[0] == "m" and nd[2].split("::")[1] in ("ncols", "nrows", "nstruct"):
                                dims.add(nd[2].split("::")[1])
                            elif is_var(nd, kind="l"):
                                # a local copy of a dimension (ncols = qslp->ncols)
                                for b2, i2, e2 in f.elements():
                                    if e2[0] == "D":
                                        for n3, init3 in e2[1]:
                                            if n3 == strip(nd)[2] and init3 is not None:
                                                r3 = strip(init3)
                                                if isinstance(r3, list) and r3 and r3[0] == "m" and r3[2].split("::")[1] in ("ncols", "nrows", "nstruct"):
                                                    dims.add(r3[2].split("::")[1])
                                    elif e2[0] == "A" and e2[1][1] == "=" and is_var(e2[1][2], name=strip(nd)[2], kind="l"):
                                        r3 = strip(e2[1][3])
                                        if isinstance(r3, list) and r3 and r3[0] == "m" and r3[2].split("::")[1] in ("ncols", "nrows", "nstruct"):
                                            dims.add(r3[2].split("::")[1])
                    if dims == {"ncols"}:
                        internal.add(strip(e[1][2])[2])
        if not internal:
            continue
        for b, i, c in f.calls():
            if callee(c) != "mpq_set" or len(c[3]) < 2:
                continue
            d, s = strip(c[3][0]), strip(c[3][1])
            if not (isinstance(d, list) and d and d[0] == "i" and isinstance(s, list) and s and s[0] == "i"):
                continue
            if not (is_var(d[1]) and strip(d[1])[1].startswith("p") and is_var(s[1], kind="l") and strip(s[1])[2] in internal):
                continue
            n += 1
            res.obligations += 1
            res.nontrivial += 1
            ix = strip(s[2])
            ok = False
            if isinstance(ix, list) and ix and ix[0] == "i":
                fl = fields_of(apath(ix[1])[2])
                ok = bool(fl) and fl[-1].split("::")[1] in ("structmap", "rowmap")
                if not ok and is_var(ix[1], kind="l"):
                    ok = strip(ix[1])[2] in ("structmap", "rowmap")
            if ok:
                res.sample({"site": "%s %s: %s" % (short_loc(c[4]), f.name, show(c)[:70]), "verdict": "through %s" % show(ix[1])}, limit=6)
            else:
                res.violations.append(Violation(rule, "%s|internal-order element copied to the caller without structmap/rowmap" % f.name.replace(prefix, ""), f.name, short_loc(c[4]),
                                                "%s copies element %s of the internal-order work array %s into the caller's array: the caller's positions are external "
                                                "(structural j, logical of row i at nstruct + i) and must be reached through structmap[] / rowmap[]" % (
                                                    show(c)[:80], show(ix)[:30], strip(s[1])[2])))
    res.counts["copies_from_internal_order_work_arrays"] = n
    res.floor("copies from internal-order work arrays to caller arrays", n, 2)
    return res
