"""R-EXTORDER (C13, C12): internal column numbers never leave the library.
The solver numbers columns internally (structurals and logicals interleaved in creation order); the API speaks
'structural j' / 'row i' (and nstruct + i for the logical of row i in basis orders and tableau rows).  Any value
loaded from an internal-column-valued array (baz, nbaz, structmap, rowmap) that is stored through an int out-parameter
must first pass through an inverse map; the inverse map of ILLlib_basis_order must be populated as
M[structmap[j]] = j and M[rowmap[i]] = nstruct + i."""
from ..core import walk, strip, is_var, apath, fields_of, show, short_loc, AnalysisBroken
from ..result import RuleResult, Violation
from .idxclass import arr_info
from .idx import dim_class, STRUCT, COL

UNITS = ("lib_mpq.c", "qsopt_mpq.c", "basis_mpq.c", "fct_mpq.c")


def _direct_internal(t):
    """field name when the value of t is directly an element of an internal-column-valued array (also through +/- a constant)"""
    t = strip(t)
    if isinstance(t, list) and t and t[0] == "i":
        c, v, fld = arr_info(t[1], {})
        if v == COL:
            return fld
    if isinstance(t, list) and t and t[0] == "q":
        return _direct_internal(t[2]) or _direct_internal(t[3])
    return None


def run(prog, prefix="mpq_", rule="R-EXTORDER"):
    res = RuleResult(rule, "values of internal-column-valued arrays (baz, nbaz, structmap, rowmap) reach an int out-parameter only through an "
                           "inverse map, and the inverse map of the basis order is the inverse of structmap / rowmap with logicals at nstruct + i")
    stores = 0
    for f in sorted(prog.funcs.values(), key=lambda x: x.key):
        if not any(u in f.unit for u in UNITS):
            continue
        for b, i, e in f.elements():
            if e[0] != "A" or e[1][1] != "=":
                continue
            p = apath(e[1][2])
            if not (p[0].startswith("p") and p[0][1:].isdigit() and p[2] and not fields_of(p[2])):
                continue
            k = int(p[0][1:])
            if k >= len(f.params) or "int" not in f.params[k][1] or "*" not in f.params[k][1]:
                continue
            stores += 1
            res.obligations += 1
            fld = _direct_internal(e[1][3])
            if fld:
                res.violations.append(Violation(rule, "%s|%s stored through %s" % (f.name.replace(prefix, ""), fld, f.params[k][0]), f.name, short_loc(e[2]),
                                                "%s hands an internal column number (element of %s) to the caller; the API numbering is "
                                                "structural j / nstruct + row i" % (show(e[1]), fld)))
    # anchor: the inverse map of the basis order
    f = prog.require_fn(prefix + "ILLlib_basis_order")
    out = None
    for b, i, e in f.elements():
        if e[0] == "A" and e[1][1] == "=":
            p = apath(e[1][2])
            if p[0].startswith("p") and p[2] == ("[]",):
                r = strip(e[1][3])
                if isinstance(r, list) and r and r[0] == "i" and is_var(strip(r[1]), kind="l") and _direct_internal(r[2]) == "baz":
                    out = strip(r[1])[2]
    if out is None:
        if not any(v.func == f.name for v in res.violations):
            raise AnalysisBroken("%s: the store header[i] = M[baz[i]] through a local inverse map was not found" % f.name)
        return res
    pop = {}
    for b, i, e in f.elements():
        if e[0] == "A" and e[1][1] == "=":
            l = strip(e[1][2])
            if isinstance(l, list) and l and l[0] == "i" and is_var(strip(l[1]), name=out):
                idx = strip(l[2])
                if isinstance(idx, list) and idx and idx[0] == "i":
                    c, v, fld = arr_info(idx[1], {})
                    if fld in ("structmap", "rowmap") and is_var(strip(idx[2])):
                        pop[fld] = (strip(idx[2])[2], strip(e[1][3]), e[2])
    dimv = {}
    for b, i, e in f.elements():
        if e[0] == "D":
            for n, init in e[1]:
                if init is not None and dim_class(init):
                    dimv[n] = dim_class(init)
    for fld in ("structmap", "rowmap"):
        res.obligations += 1
        res.nontrivial += 1
        if fld not in pop:
            raise AnalysisBroken("%s: population of the inverse map over %s not found" % (f.name, fld))
        v, rhs, loc = pop[fld]
        ok = False
        if fld == "structmap":
            ok = is_var(rhs, name=v)
        else:
            if isinstance(rhs, list) and rhs and rhs[0] == "b" and rhs[1] == "+":
                a, b_ = strip(rhs[2]), strip(rhs[3])
                for x, y in ((a, b_), (b_, a)):
                    if is_var(y, name=v) and (dim_class(x) == STRUCT or (is_var(x) and dimv.get(x[2]) == STRUCT)):
                        ok = True
        if ok:
            res.sample({"store": "%s[%s[%s]] = %s at %s" % (out, fld, v, show(rhs), short_loc(loc)), "verdict": "inverse of the API numbering"})
        else:
            res.violations.append(Violation(rule, "ILLlib_basis_order|inverse map over %s" % fld, f.name, short_loc(loc),
                                            "%s[%s[%s]] = %s: expected %s" % (out, fld, v, show(rhs), v if fld == "structmap" else "nstruct + " + v)))
    res.counts["stores_through_int_out_parameters"] = stores
    res.floor("stores through int out-parameters examined", stores, 20)
    return res
