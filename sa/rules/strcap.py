"""R-STRCAP (C11, C17): what is written into a freshly allocated string buffer fits the size it was allocated with.

Within one function (path-sensitive dataflow over symbolic facts): a block allocated with a size of the form  strlen (a) + strlen (b)
+ .. + c  (directly, through a local that holds a strlen, or by the string-duplicating helper: c = 1) has capacity "those strings
plus c".  A strcpy / strcat into it needs its source among those strings and c >= 1; a store at  [len + k]  (len a strlen of one of
the strings, or of the block itself after the copy) needs k < c.  The allocation idioms are the ones the library uses for its error
records, names and generated identifiers; a copy into a block whose size is not of this form is not this rule's business (R-BUF)."""
import re

from ..core import walk, strip, is_var, callee, const_of, show, short_loc, Flow
from ..result import RuleResult, Violation

ALLOCS = ("ILLutil_allocrus", "malloc", "EGmalloc", "calloc")
DUPS = ("ILLutil_str", "strdup")


def _unk(t):
    while isinstance(t, list) and t and t[0] == "k":
        t = t[2]
    return t


def _linear(t, facts):
    """(sorted tuple of string sources, constant) of a size / index expression, or None"""
    t = _unk(t)
    c = const_of(t)
    if c is not None:
        return ((), c)
    if not isinstance(t, list) or not t:
        return None
    if t[0] == "v":
        for f_ in facts:
            if f_[0] == "len" and f_[1] == t[2]:
                return (f_[2], f_[3])
        return None
    if t[0] == "c" and (callee(t) or "") == "strlen" and t[3]:
        x = show(_unk(t[3][0]))
        for f_ in facts:
            if f_[0] == "holds" and f_[1] == x:
                return (tuple(sorted(f_[2])), 0)
        return ((x,), 0)
    if t[0] == "b" and t[1] in ("+", "-"):
        a, b = _linear(t[2], facts), _linear(t[3], facts)
        if a is None or b is None:
            return None
        if t[1] == "+":
            return (tuple(sorted(a[0] + b[0])), a[1] + b[1])
        if b[0]:
            return None
        return (a[0], a[1] - b[1])
    if t[0] == "b" and t[1] == "*":
        a, b = _linear(t[2], facts), _linear(t[3], facts)
        if a is not None and a == ((), 1):
            return b
        if b is not None and b == ((), 1):
            return a
        return None
    return None


def _alloc_size(rhs):
    """size argument of the allocator call inside rhs (comma expressions, casts, traces looked through)"""
    for nd in walk(rhs):
        if isinstance(nd, list) and nd and nd[0] == "c" and (callee(nd) or "") in ALLOCS and nd[3]:
            return nd[3][-1] if (callee(nd) or "") != "calloc" else None
    return None


def _dup_src(rhs):
    for nd in walk(rhs):
        if isinstance(nd, list) and nd and nd[0] == "c" and (callee(nd) or "") in DUPS and nd[3]:
            return show(_unk(nd[3][0]))
    return None


def _mentions(txt, name):
    return re.search(r"(?<![A-Za-z0-9_])%s(?![A-Za-z0-9_])" % re.escape(name), txt) is not None


def run(prog, rule="R-STRCAP", floor=8):
    res = RuleResult(rule, "every strcpy / strcat / length-indexed store into a block allocated with a strlen-based size fits that size")
    nob = [0]
    for f in sorted(prog.funcs.values(), key=lambda x: x.key):
        if f.live is None or "_dbl." in f.unit or "_mpf." in f.unit or not (f.unit.startswith("qsopt_ex/") or f.unit.startswith("esolver/")):
            continue
        if not any((callee(c) or "") in ("strlen",) + DUPS for b, i, c in f.calls()):
            continue
        bad = {}
        seen_ob = set()

        def kill(facts, name):
            return {f_ for f_ in facts if not ((f_[0] == "len" and (f_[1] == name or any(_mentions(x, name) for x in f_[2]))) or
                                               (f_[0] in ("cap", "holds") and (_mentions(f_[1], name) or any(_mentions(x, name) for x in f_[2]))))}

        def xfer(b, i, e, st):
            facts = set(st)
            key = (b["id"], i)
            if e[0] in ("A", "D"):
                pairs = [(e[1][2], e[1][3], e[1][1])] if e[0] == "A" else [(["v", "l", n], init, "=") for n, init in e[1] if init is not None]
                for lhs, rhs, op in pairs:
                    l0 = strip(lhs)
                    ltxt = show(_unk(lhs))
                    # length-indexed store  D[idx] = v  (a slot that receives a block is an allocation, below)
                    if isinstance(l0, list) and l0 and l0[0] == "i" and _alloc_size(rhs) is None and _dup_src(rhs) is None:
                        dtxt = show(_unk(l0[1]))
                        cap = [f_ for f_ in facts if f_[0] == "cap" and f_[1] == dtxt]
                        if cap:
                            lin = _linear(l0[2], facts | {("holds", dtxt, h[2]) for h in facts if h[0] == "holds" and h[1] == dtxt})
                            if lin is not None and lin[0]:
                                seen_ob.add(key)
                                S, c = cap[0][2], cap[0][3]
                                rest = list(S)
                                ok = True
                                for x in lin[0]:
                                    if x in rest:
                                        rest.remove(x)
                                    else:
                                        ok = False
                                if not ok or lin[1] >= c:
                                    bad.setdefault(key, (e[2], "%s is stored at offset [%s%+d] of a block allocated with %s%+d bytes" % (
                                        show(e[1])[:50] if e[0] == "A" else ltxt, " + ".join("strlen(%s)" % x for x in lin[0]), lin[1],
                                        " + ".join("strlen(%s)" % x for x in S) or "0", c), b["id"], st))
                        continue
                    if op != "=":
                        if is_var(l0):
                            facts = kill(facts, l0[2])
                        continue
                    # kills
                    if is_var(l0):
                        facts = kill(facts, l0[2])
                    else:
                        facts = {f_ for f_ in facts if not (f_[0] in ("cap", "holds") and f_[1] == ltxt)}
                    if is_var(l0) and "*" not in (f.var_type(l0) or ""):
                        lin = _linear(rhs, facts)
                        if lin is not None and lin[0]:
                            facts.add(("len", l0[2], lin[0], lin[1]))
                            continue
                    d = _dup_src(rhs)
                    if d is not None:
                        facts.add(("cap", ltxt, (d,), 1))
                        facts.add(("holds", ltxt, (d,)))
                        continue
                    sz = _alloc_size(rhs)
                    if sz is not None:
                        lin = _linear(sz, facts)
                        if lin is not None and lin[0]:
                            facts.add(("cap", ltxt, lin[0], lin[1]))
            elif e[0] == "C":
                n = callee(e[1]) or ""
                args = e[1][3]
                if n in ("strcpy", "strcat") and len(args) >= 2:
                    dtxt, stxt = show(_unk(args[0])), show(_unk(args[1]))
                    cap = [f_ for f_ in facts if f_[0] == "cap" and f_[1] == dtxt]
                    held = [f_ for f_ in facts if f_[0] == "holds" and f_[1] == dtxt]
                    have = tuple(held[0][2]) if (held and n == "strcat") else ()
                    # a source that is itself a copy made here is as long as what it holds
                    sh = [f_ for f_ in facts if f_[0] == "holds" and f_[1] == stxt]
                    srcs = tuple(sorted(have + (tuple(sh[0][2]) if sh else (stxt,))))
                    if cap:
                        seen_ob.add(key)
                        S, c = cap[0][2], cap[0][3]
                        rest = list(S)
                        ok = True
                        for x in srcs:
                            if x in rest:
                                rest.remove(x)
                            else:
                                ok = False
                        if not ok or c < 1:
                            bad.setdefault(key, (e[1][4], "%s copies %s (and its terminator) into a block allocated with %s%+d bytes" % (
                                n, " + ".join(srcs), " + ".join("strlen(%s)" % x for x in S) or "0", c), b["id"], st))
                        facts = {f_ for f_ in facts if not (f_[0] == "holds" and f_[1] == dtxt)}
                        facts.add(("holds", dtxt, srcs))
                else:
                    for a in args:
                        a0 = strip(a)
                        if isinstance(a0, list) and a0 and a0[0] == "u" and a0[1] == "&" and is_var(a0[2]):
                            facts = kill(facts, strip(a0[2])[2])
            elif e[0] == "U" and is_var(e[1][2]):
                facts = kill(facts, strip(e[1][2])[2])
            ns = frozenset(facts)
            return [ns] if ns != st else None
        flw = Flow(prog, f, [frozenset()], xfer, None, max_visits=200000).run()
        nob[0] += len(seen_ob)
        res.obligations += len(seen_ob)
        res.nontrivial += len(seen_ob)
        for key, (loc, msg, bid, st) in sorted(bad.items()):
            res.violations.append(Violation(rule, "%s|%s" % (f.name.replace("mpq_", ""), msg[:70]), f.name, short_loc(loc),
                                            "%s: the write runs past the block" % msg, path=flw.witness(bid, st)))
        if seen_ob and not bad:
            res.sample({"function": f.name, "sites": len(seen_ob), "verdict": "every copy / indexed store fits the allocation"}, limit=12)
    res.counts["copies_and_indexed_stores_into_strlen_sized_blocks"] = nob[0]
    res.floor("copies / indexed stores into strlen-sized blocks", nob[0], floor)
    return res
