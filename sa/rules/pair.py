"""R-PAIR (C18): every local resource is released on every path to every return.

Typestate per local: GMP numbers (mpq_t / mpz_t / mpf_t locals and elements of local arrays of them): *_init -> LIVE,
*_clear -> DEAD.  Heap blocks held by local pointers: LIVE after an allocation (allocator call or allocation macro),
DEAD after a release (free-like call on it, release macro), ESCAPED when stored into a field / out-parameter / global,
returned, or handed to a function that keeps it.  Obligation: at every returning exit no local is LIVE.
Paths that end in exit/abort and allocation-failure edges carry no obligation."""
import collections

from ..core import (strip, is_var, callee, const_of, apath, fields_of, show, short_loc, Flow, walk, AnalysisBroken)
from ..cond import atoms, SWAP
from ..result import RuleResult, Violation
from ..intstate import norm_local

GMP_INIT = {"mpq_init", "mpz_init", "mpf_init", "mpf_init2", "mpz_init2", "mpz_init_set", "mpz_init_set_ui", "mpz_init_set_si",
            "mpf_init_set", "mpf_init_set_ui", "mpf_init_set_d", "mpf_init_set_si", "mpz_init_set_d", "mpq_init_set?"}
GMP_CLEAR = {"mpq_clear", "mpz_clear", "mpf_clear"}
GMP_TYPES = ("mpq_t", "mpz_t", "mpf_t")

ALLOC_CALLS = {"malloc", "calloc", "realloc", "ILLutil_allocrus", "strdup", "ILLutil_str", "mpq_get_str", "mpz_get_str", "mpf_get_str"}
ALLOC_MACROS = ("EGlpNumAllocArray", "__EGlpNumAllocArray", "EGsMalloc", "ILL_SAFE_MALLOC", "ILL_UTIL_STR", "EGlpNumGetStr", "ILL_NEW")
FREE_CALLS = {"free", "ILLutil_freerus", "EGfree", "mpq_QSfree", "dbl_QSfree", "mpf_QSfree",
              "mpq_QSfree_basis", "dbl_QSfree_basis", "mpf_QSfree_basis", "mpq_QSfree_prob", "dbl_QSfree_prob", "mpf_QSfree_prob",
              "mpq_QSerror_collector_free", "mpq_QSerror_memory_free", "mpq_QSline_reader_free", "mpq_ILLline_reader_free",
              "mpq_ILLerror_collector_free", "mpq_ILLerror_memory_free", "EGioClose", "fclose", "mpq_ILLfct_free_bndinfo"}
EXEMPT_FUNCS = {"mpq_ILLeditor": "interactive console of the editor (terminal session, not an API history of the property)"}
FREE_MACROS = ("EGlpNumFreeArray", "ILL_IFFREE", "ILL_UTIL_FREE", "EGfree")


def is_gmp_local(f, name):
    t = (f.ltypes.get(name) or "")
    return any(t.startswith(g) for g in GMP_TYPES)


def gmp_key(f, t):
    """resource key for the argument of a GMP init/clear if it is a local number or an element of a local array of numbers"""
    t = strip(t)
    if is_var(t, kind="l") and is_gmp_local(f, t[2]):
        return t[2]
    if isinstance(t, list) and t and t[0] == "i" and is_var(t[1], kind="l") and is_gmp_local(f, strip(t[1])[2]):
        ix = strip(t[2])
        if const_of(ix) is not None:
            return "%s[%d]" % (strip(t[1])[2], const_of(ix))
        return None
    if isinstance(t, list) and t and t[0] == "m" and is_var(t[1], kind="l") and not t[3]:
        # field of a local struct (fi.totinfeas)
        return "%s.%s" % (strip(t[1])[2], t[2].split("::")[1])
    return None


class PairAnalysis:
    """state: frozenset of LIVE resource keys"""

    def __init__(self, prog, f, heap=True):
        self.prog, self.f, self.heap = prog, f, heap
        self.init_sites = {}
        self.leaks = {}
        self.overwritten = {}
        self.returns_fresh = False
        # local pointers eligible as heap holders
        self.ptr_locals = {n for n, t in f.ltypes.items() if "*" in (t or "") and not n.startswith("_")}
        # a pointer parameter that the function re-points at a block it obtains itself holds that block like a local does
        # (basis = dbl_QSget_basis (p_dbl) in QSexact_verify): the caller never sees the new value
        self.repointed_params = set()
        for b_, i_, e_ in f.elements():
            if e_[0] == "A" and e_[1][1] == "=" and is_var(e_[1][2]) and isinstance(strip(e_[1][2])[1], str) and strip(e_[1][2])[1].startswith("p"):
                k_ = int(strip(e_[1][2])[1][1:])
                if k_ < len(f.params) and "*" in f.params[k_][1] and not self._mentions(e_[1][3], strip(e_[1][2])[2]) and any(
                        nd[0] == "c" and (callee(nd) in ALLOC_CALLS or callee(nd) in self.FRESH) for nd in walk(e_[1][3]) if isinstance(nd, list) and nd):
                    self.repointed_params.add(strip(e_[1][2])[2])
        self.ptr_locals |= self.repointed_params

    def xfer(self, b, i, e, st):
        r0 = self._xfer(b, i, e, st)
        base = [st] if r0 is None else [(x[0],) + tuple(st[1:]) for x in r0]
        # return-code classes for rval / EGcall temporaries (correlates `if (rval)` at CLEANUP with the failure that set it)
        k = e[0]
        out = []
        for s in base:
            live, rv, tmp, facts = s
            if k == "A" and is_var(e[1][2]) and e[1][1] == "=":
                nm = norm_local(strip(e[1][2])[2])
                if nm in ("rval", "__EGrval__", "__RVAL__"):
                    vals = self._rv_vals(e[1][3], rv, tmp)
                    for v in vals:
                        out.append((live, v, tmp, facts) if nm == "rval" else (live, rv, v, facts))
                    continue
                # assignment to a parameter or local kills facts about it
                facts = frozenset(f_ for f_ in facts if f_[1] != strip(e[1][2])[2])
            elif k == "D":
                for n, init in e[1]:
                    nm = norm_local(n)
                    if nm in ("__EGrval__", "__RVAL__") and init is not None:
                        vals = self._rv_vals(init, rv, tmp)
                        if len(vals) == 1:
                            tmp = vals[0]
                        else:
                            out.append((live, rv, "Z", facts))
                            tmp = "NZ"
                    elif nm == "rval" and init is not None:
                        vals = self._rv_vals(init, rv, tmp)
                        rv = vals[0] if len(vals) == 1 else rv
            out.append((live, rv, tmp, facts))
        return out

    def _rv_vals(self, rhs, rv, tmp):
        r = strip(rhs)
        c = const_of(r)
        if c is not None:
            return ["NZ" if c else "Z"]
        if is_var(r):
            nm = norm_local(r[2])
            if nm == "rval":
                return [rv]
            if nm in ("__EGrval__", "__RVAL__"):
                return [tmp]
        return ["Z", "NZ"]

    def _xfer(self, b, i, e, st):
        live = st[0]
        k = e[0]
        if k == "C":
            c = e[1]
            n = callee(c)
            if n in GMP_INIT and c[3]:
                key = gmp_key(self.f, c[3][0])
                if key:
                    self.init_sites.setdefault(key, c[4])
                    return [(live | {key},)]
            elif n in GMP_CLEAR and c[3]:
                key = gmp_key(self.f, c[3][0])
                if key and key in live:
                    return [(live - {key},)]
            elif self.heap and n in FREE_CALLS and c[3]:
                a = strip(c[3][0])
                nm = self._holder(a)
                if nm and ("h:" + nm) in live:
                    return [(live - {"h:" + nm},)]
            elif self.heap and n is not None:
                # ownership taken by callee?  conservative list below; otherwise arguments are borrowed
                pass
            return None
        if k in ("A", "D") and self.heap:
            pairs = []
            macs = []
            if k == "A":
                pairs.append((e[1][2], e[1][3], e[1][1]))
                macs = e[3] if len(e) > 3 else []
            else:
                pairs += [(["v", "l", n], init, "=") for n, init in e[1] if init is not None]
            out = set(live)
            changed = False
            for lhs, rhs, op in pairs:
                l = strip(lhs)
                # escape: a LIVE holder stored somewhere that outlives the function
                r = strip(rhs)
                rn = self._holder(r)
                if rn and ("h:" + rn) in out:
                    lp = apath(lhs)
                    if not (is_var(l, kind="l") or (is_var(l) and l[2] in self.repointed_params)) or fields_of(lp[2]) or "*" in lp[2] or "[]" in lp[2]:
                        out.discard("h:" + rn)
                        changed = True
                    elif is_var(l) and l[2] in self.ptr_locals and l[2] != rn:
                        # a second local now names the same block: the block stays one resource, registered under the
                        # name through which this function releases it (or the original name if neither is released)
                        if l[2] in self.released_names and rn not in self.released_names:
                            out.discard("h:" + rn)
                            out.add("h:" + l[2])
                            self.init_sites.setdefault("h:" + l[2], self.init_sites.get("h:" + rn, e[2]))
                            changed = True
                if is_var(l) and l[2] in self.ptr_locals:
                    nm = l[2]
                    if ("h:" + nm) in out and const_of(r) == 0 and nm in self.copied_to and ("h:" + self.copied_to[nm]) not in out \
                            and not any(x in m for m in macs for x in FREE_MACROS):
                        # explicit move:  A = B; ...; B = 0;   the block now belongs to A
                        out.discard("h:" + nm)
                        out.add("h:" + self.copied_to[nm])
                        self.init_sites.setdefault("h:" + self.copied_to[nm], self.init_sites.get("h:" + nm, e[2]))
                        changed = True
                    elif ("h:" + nm) in out and op == "=" and not (is_var(r, kind="l") and r[2] == nm) and self._holder(r) != nm \
                            and not any(x in m for m in macs for x in FREE_MACROS) and not self._mentions(rhs, nm):
                        self.overwritten.setdefault("h:" + nm, (e[2], st))
                    if self._is_alloc(rhs, e[2], macs):
                        out.add("h:" + nm)
                        self.init_sites.setdefault("h:" + nm, e[2])
                        changed = True
                    elif const_of(r) == 0 and ("h:" + nm) in out and any(m.lstrip("@").endswith(x) or x in m for m in macs for x in FREE_MACROS):
                        out.discard("h:" + nm)
                        changed = True
            if changed:
                return [(frozenset(out),)]
            return None
        if k == "R" and self.heap and e[1] is not None:
            rn = self._holder(e[1])
            if rn and ("h:" + rn) in live:
                self.returns_fresh = True
                return [(live - {"h:" + rn},)]
        return None

    @staticmethod
    def _mentions(t, nm):
        return any(n[0] == "v" and n[2] == nm for n in walk(t))

    def _holder(self, t):
        t = strip(t)
        if is_var(t, kind="l") and t[2] in getattr(self, "tmp_alias", {}):
            return self.tmp_alias[t[2]]
        if is_var(t) and t[2] in self.ptr_locals:
            return t[2]
        if isinstance(t, list) and t and t[0] == "b" and t[1] in ("+", "-") and is_var(t[2], kind="l"):
            return strip(t[2])[2] if strip(t[2])[2] in self.ptr_locals else None
        return None

    FRESH = set()     # names of library functions that return a freshly allocated block (computed in a first pass)

    def _is_alloc(self, rhs, loc, macs):
        for n in walk(rhs):
            if n[0] == "c" and (callee(n) in ALLOC_CALLS or callee(n) in self.FRESH):
                return True
        r = strip(rhs)
        if isinstance(rhs, list) and rhs and rhs[0] in ("se", "k"):
            # statement-expression allocators: the allocator call is an element of the same expansion (same line)
            key = loc.rsplit(":", 1)[0]
            return key in self.alloc_lines
        return False

    def refine(self, cond, truth, st):
        live, rv, tmp, facts = st
        fs = set(facts)
        for l, op, r in atoms(cond, truth):
            for a, b_, o in ((l, r, op), (r, l, SWAP[op])):
                cb = const_of(b_)
                if is_var(a) and cb is not None and o in ("==", "!="):
                    nm0 = strip(a)[2]
                    nm = norm_local(nm0)
                    cur = rv if nm == "rval" else (tmp if nm in ("__EGrval__", "__RVAL__") else None)
                    if cur is not None and cb == 0:
                        if (o == "==" and cur == "NZ") or (o == "!=" and cur == "Z"):
                            return []
                        continue
                    # facts about parameters / plain locals compared with a constant (B == NULL, pivot_opt == K)
                    if strip(a)[1].startswith("p"):
                        known = [f_ for f_ in fs if f_[1] == nm0]
                        for f_ in known:
                            if f_[0] == "eq" and ((o == "==" and f_[2] != cb) or (o == "!=" and f_[2] == cb)):
                                return []
                            if f_[0] == "ne" and o == "==" and f_[2] == cb:
                                return []
                        fs.add(("eq" if o == "==" else "ne", nm0, cb))
                nmh = self._holder(a)
                if self.heap and nmh and cb == 0 and o == "==" and ("h:" + nmh) in live:
                    live = live - {"h:" + nmh}
        return [(live, rv, tmp, frozenset(fs))]

    def run(self):
        # macro temporaries that merely carry a holder (void *ILL_RETURN_p = (name); ... return ILL_RETURN_p;)
        srcs = collections.defaultdict(set)
        for b, i, e in self.f.elements():
            ps = []
            if e[0] == "D":
                ps += [(n, init) for n, init in e[1] if init is not None]
            elif e[0] == "A" and is_var(e[1][2], kind="l") and e[1][1] == "=":
                ps.append((strip(e[1][2])[2], e[1][3]))
            for n, rhs in ps:
                r = strip(rhs)
                srcs[n].add(r[2] if (is_var(r, kind="l") and r[2] in self.ptr_locals) else None)
        self.tmp_alias = {n: list(v)[0] for n, v in srcs.items()
                          if len(v) == 1 and list(v)[0] is not None and (n.startswith("_") or n.startswith("ILL_"))}
        # A = B between local holders (flow-insensitive, unique source): candidate move targets
        self.copied_to = {}
        for n, v in srcs.items():
            if len([x for x in v if x is not None]) == 1 and n in self.ptr_locals:
                src = [x for x in v if x is not None][0]
                self.copied_to.setdefault(src, n)
        self.alloc_lines = set()
        self.released_names = set()
        for b, i, c in self.f.calls():
            if callee(c) in ALLOC_CALLS:
                self.alloc_lines.add(c[4].rsplit(":", 1)[0])
            if callee(c) in FREE_CALLS and c[3]:
                nm = self._holder(c[3][0]) if hasattr(self, "ptr_locals") else None
                if nm:
                    self.released_names.add(nm)
        for b, i, e in self.f.elements():
            if e[0] == "A" and is_var(e[1][2], kind="l") and const_of(e[1][3]) == 0 and len(e) > 3 and any(
                    x in m for m in e[3] for x in FREE_MACROS):
                self.released_names.add(strip(e[1][2])[2])
        self.flow = Flow(self.prog, self.f, [(frozenset(), "Z", "Z", frozenset())], self.xfer, self.refine, max_visits=600000).run()
        for st in self.flow.exit_states:
            for key in st[0]:
                self.leaks.setdefault(key, st)
        return self


EXCEPTIONS = {
    ("mpq_ILLwrite_mps", "h:objname"): "objname is a private copy only when the problem has no objective name; it is released under "
                                       "`if (objname != lp->objname)`, a pointer comparison the typestate does not track",
}
OUT_OF_SCOPE_UNITS = ("binary_",)


def run(prog, heap=False, units=None, rule="R-PAIR", exceptions=None, floors=(100, 300)):
    exceptions = dict(EXCEPTIONS, **(exceptions or {}))
    res = RuleResult(rule, "every local GMP number that is initialised is cleared%s on every path to every return" % (
        " and every heap block held by a local pointer is released or handed over" if heap else ""))
    n_funcs = 0
    n_res = 0
    if heap:
        # first pass: which library functions hand a fresh block to their caller (QSget_basis, ILLutil_str, ...)
        PairAnalysis.FRESH = set()
        for _round in range(2):
            for f in prog.funcs.values():
                if "_dbl." in f.unit and not f.name.startswith("dbl_QSget_basis") or "_mpf." in f.unit and not f.name.startswith("mpf_QSget_basis"):
                    continue
                if f.ret.replace("const ", "").strip() in ("int", "void", "double", "unsigned", "unsigned int", "long", "char", "size_t", "unsigned long") \
                        or f.name in PairAnalysis.FRESH or len(f.blocks) > 400:
                    continue
                if not any((callee(c) in ALLOC_CALLS or callee(c) in PairAnalysis.FRESH) for b, i, c in f.calls()):
                    continue
                try:
                    a0 = PairAnalysis(prog, f, heap=True).run()
                except AnalysisBroken:
                    continue
                if a0.returns_fresh:
                    PairAnalysis.FRESH.add(f.name)
        # the dbl / mpf siblings of a fresh-returning template function return fresh blocks too (quick tier loads only mpq)
        for n in list(PairAnalysis.FRESH):
            if n.startswith("mpq_"):
                PairAnalysis.FRESH.add("dbl_" + n[4:])
                PairAnalysis.FRESH.add("mpf_" + n[4:])
        res.counts["functions_returning_fresh_blocks"] = len(PairAnalysis.FRESH)
    for f in sorted(prog.funcs.values(), key=lambda x: x.key):
        if "_dbl." in f.unit or "_mpf." in f.unit:
            continue
        if units and not any(u in f.unit for u in units):
            continue
        if any(u in f.unit for u in OUT_OF_SCOPE_UNITS) or f.name in EXEMPT_FUNCS:
            continue
        has = any(callee(c) in GMP_INIT for b, i, c in f.calls())
        if not has and not heap:
            continue
        if not has and heap and not any((callee(c) in ALLOC_CALLS or callee(c) in PairAnalysis.FRESH) for b, i, c in f.calls()):
            continue
        try:
            an = PairAnalysis(prog, f, heap=heap).run()
        except AnalysisBroken:
            res.counts.setdefault("too_complex", []).append(f.name)
            continue
        n_funcs += 1
        n_res += len(an.init_sites)
        res.obligations += len(an.init_sites)
        res.nontrivial += len(an.init_sites)
        leaks = {k: st for k, st in an.leaks.items() if (f.name, k) not in exceptions}
        for k in an.leaks:
            if (f.name, k) in exceptions:
                res.excepted.append(("%s: %s" % (f.name, k), exceptions[(f.name, k)]))
        for k_, (loc_, st_) in sorted(an.overwritten.items()):
            if (f.name, k_) in exceptions:
                continue
            res.violations.append(Violation(rule, "%s|overwritten while live: %s" % (f.name.replace("mpq_", ""), k_.replace("h:", "*")), f.name, short_loc(loc_),
                                            "the local pointer %s is assigned a new value while it still holds a block this function has to release: the old block is lost" % k_[2:]))
        if leaks:
            names = sorted(leaks)
            k0 = names[0]
            path = an.flow.witness(f.exit, leaks[k0])
            res.violations.append(Violation(rule, "%s|not released: %s" % (f.name.replace("mpq_", ""), ",".join(x.replace("h:", "*") for x in names)),
                                            f.name, short_loc(an.init_sites.get(k0, f.loc)),
                                            "%s initialised/allocated here can reach a return still live: %s (GMP numbers not cleared / blocks not freed on that path)" % (
                                                ", ".join(x.replace("h:", "block held by ") for x in names), "the path skips the release"), path=path))
        elif an.init_sites:
            res.sample({"function": f.name, "resources": sorted(an.init_sites)[:6], "verdict": "released on every returning path"}, limit=6)
    res.counts["functions_with_local_resources"] = n_funcs
    res.counts["local_resources"] = n_res
    res.floor("functions with local GMP numbers", n_funcs, floors[0])
    res.floor("local resources tracked", n_res, floors[1])
    return res
