"""R-OPTSTORE (C01, C02): who may publish a definitive status.  A store of QS_LP_OPTIMAL / QS_LP_INFEASIBLE
or of a non-constant value into qsdata::qstatus / ILLlp_cache::status, and a call of QSgrab_cache with such a
value, is allowed only in the owner functions below (each with its reason and, where stated, its guard)."""
from ..core import strip, callee, const_of, apath, fields_of, show, short_loc, AnalysisBroken
from ..guards import dominated_by_fact, field_pred
from ..result import RuleResult, Violation

OWNERS = {
    "QSexact_optimal_test": {"what": {"QS_LP_OPTIMAL"}, "reason": "after the success marker of the exact optimality test (R-MARK)"},
    "QSexact_infeasible_test": {"what": {"QS_LP_INFEASIBLE"}, "reason": "success marker of the exact infeasibility test (R-MARK)"},
    "opt_work": {"what": {"<non-constant>"}, "reason": "status computed by ILLlib_optimize, the rational simplex at zero tolerances (R-ZEROTOL)"},
    "mpq_QSgrab_cache": {"what": {"<non-constant>"}, "reason": "pass-through of its status parameter; its call sites carry the obligation"},
    "QSexact_basis_status": {"what": {"QS_LP_OPTIMAL"}, "guard": "lp_status_info::optimal",
                             "reason": "exact rational verdict on the loaded basis (R-VERDICT); only under basisstat.optimal"},
}
DEFINITIVE = {"QS_LP_OPTIMAL", "QS_LP_INFEASIBLE", "QS_LP_UNBOUNDED"}


def _promotions(f, src):
    """assignments of a definitive constant to the local `src` (or to a parameter passed through) inside f"""
    if not (isinstance(src, list) and src and src[0] == "v" and src[1] == "l"):
        return []
    out = []
    for b, i, e in f.elements():
        pairs = []
        if e[0] == "A" and e[1][1] == "=":
            l = strip(e[1][2])
            if isinstance(l, list) and l and l[0] == "v" and l[2] == src[2]:
                pairs.append((e[1][3], e[2], show(e[1])))
        elif e[0] == "D":
            pairs += [(init, e[2], "%s = %s" % (n, show(init))) for n, init in e[1] if n == src[2] and init is not None]
        for rhs, loc, txt in pairs:
            for nd in _consts(rhs):
                if nd in DEFINITIVE:
                    out.append((loc, txt))
    return out


def _consts(t):
    from ..core import walk
    for nd in walk(t):
        if isinstance(nd, list) and nd and nd[0] == "n" and nd[2]:
            yield nd[2]


def run(prog, rule="R-OPTSTORE"):
    res = RuleResult(rule, "a definitive status is stored into the problem/cache only by the exact tests, the rational "
                           "simplex driver opt_work, and the exact basis verdict (under its optimal flag)")
    owners_seen = set()
    n_other = 0
    for f in sorted(prog.funcs.values(), key=lambda x: x.key):
        if "_dbl." in f.unit or "_mpf." in f.unit or not f.unit.startswith("qsopt_ex/"):
            continue
        for b, i, e in f.elements():
            what = None
            loc = e[2]
            if e[0] == "A":
                fl = fields_of(apath(e[1][2])[2])
                if not fl or not (fl[-1].endswith("qsdata::qstatus") or fl[-1].endswith("ILLlp_cache::status")):
                    continue
                rhs = strip(e[1][3])
                what = rhs[2] if (rhs and rhs[0] == "n") else "<non-constant>"
                if rhs and rhs[0] == "n" and not rhs[2]:
                    what = str(rhs[1])
                desc = show(e[1])
            elif e[0] == "C" and (callee(e[1]) or "").endswith("mpq_QSgrab_cache"):
                a = strip(e[1][3][1]) if len(e[1][3]) > 1 else None
                what = a[2] if (a and a[0] == "n") else "<non-constant>"
                desc = show(e[1])
            else:
                continue
            res.obligations += 1
            if what not in DEFINITIVE and what != "<non-constant>":
                n_other += 1
                continue
            res.nontrivial += 1
            ow = OWNERS.get(f.name)
            if ow and what in ow["what"]:
                if "guard" in ow and not dominated_by_fact(prog, f, b["id"], i, field_pred(ow["guard"]), "nonzero"):
                    res.violations.append(Violation(rule, "%s|%s unguarded" % (f.name, what), f.name, short_loc(loc),
                                                    "%s publishes %s without being dominated by a test of %s" % (desc, what, ow["guard"])))
                    continue
                if what == "<non-constant>":
                    # provenance of the published value: a local of the owner that the function itself never sets to a definitive
                    # constant - the definitive value can only have come from the callee that received its address (the simplex driver)
                    src = strip(e[1][3]) if e[0] == "A" else strip(e[1][3][1])
                    promo = _promotions(f, src)
                    if promo:
                        owners_seen.add(f.name)
                        ploc, ptxt = promo[0]
                        res.violations.append(Violation(rule, "%s|published status set to a definitive constant by the publisher itself" % f.name, f.name, short_loc(ploc),
                                                        "%s: %s publishes this value (%s), and sets it to a definitive status itself instead of taking it "
                                                        "from the solver (%s)" % (ptxt, f.name, desc, ow["reason"])))
                        continue
                owners_seen.add(f.name)
                res.sample({"site": "%s %s: %s" % (short_loc(loc), f.name, desc), "verdict": "owner: " + ow["reason"]})
                continue
            res.violations.append(Violation(rule, "%s|publishes %s" % (f.name, what), f.name, short_loc(loc),
                                            "%s publishes the status %s outside the owner functions (%s)" % (desc, what, ", ".join(sorted(OWNERS)))))
    res.counts["non_definitive_constant_stores"] = n_other
    res.counts["owners_seen"] = sorted(owners_seen)
    res.floor("owner functions with a publishing site", len(owners_seen), 5)
    return res


def run_solvedgate(prog, driver="mpq_ILLsimplex", rule="R-SOLVEDGATE"):
    """the simplex driver hands out a definitive status (OPTIMAL / INFEASIBLE / UNBOUNDED) through its status parameter only on the branch
    on which its pivot loop ended normally: every such store is dominated by the true edge of `solstatus == ILL_LP_SOLVED`.  The flags in
    lp->basisstat that select among the three are only meaningful there: after an iteration or time limit they describe the basis of
    some earlier test (the starting basis of phase I, for instance), so 'limit reached but the optimal flag is set' is not OPTIMAL."""
    from ..core import dominators, walk
    from ..cond import atoms, SWAP
    import collections
    res = RuleResult(rule, "every store of a definitive status through the status parameter of the simplex driver is dominated by solstatus == ILL_LP_SOLVED")
    f = prog.require_fn(driver)
    dom, succ = dominators(prog, f)
    preds = collections.defaultdict(set)
    for a, ss in succ.items():
        for s in ss:
            preds[s].add(a)
    gate_edges = set()
    for bid in f.live:
        c = f.blocks[bid].get("c")
        if c is None:
            continue
        ss = prog.live_succs(f, f.blocks[bid])
        if len(ss) != 2:
            continue
        for idx, s_ in enumerate(ss):
            if s_ is None or preds[s_] != {bid}:
                continue
            for l, op, r in atoms(c, idx == 0):
                for a, b_, o in ((l, r, op), (r, l, SWAP[op])):
                    if o == "==" and isinstance(b_, list) and b_ and b_[0] == "n" and b_[2] == "ILL_LP_SOLVED" and "solstatus" in show(a):
                        gate_edges.add(s_)
    if not gate_edges:
        raise AnalysisBroken("%s: no branch on solstatus == ILL_LP_SOLVED found in %s" % (rule, driver))
    n = 0
    for b, i, e in f.elements():
        if e[0] != "A" or e[1][1] != "=":
            continue
        l = strip(e[1][2])
        if not (isinstance(l, list) and l and l[0] == "u" and l[1] == "*" and isinstance(strip(l[2]), list) and strip(l[2])[0] == "v" and str(strip(l[2])[1]).startswith("p")):
            continue
        names = set(_consts(e[1][3])) & DEFINITIVE
        if not names:
            continue
        n += 1
        res.obligations += 1
        res.nontrivial += 1
        if any(g == b["id"] or g in dom.get(b["id"], ()) for g in gate_edges):
            res.sample({"site": "%s %s: %s" % (short_loc(e[2]), f.name, show(e[1])[:60]), "verdict": "under solstatus == ILL_LP_SOLVED"}, limit=6)
        else:
            res.violations.append(Violation(rule, "%s|%s stored outside the normal-termination branch" % (f.name.replace("mpq_", ""), "/".join(sorted(names))), f.name, short_loc(e[2]),
                                            "%s hands out a definitive status on a branch that is not dominated by solstatus == ILL_LP_SOLVED: the flags of lp->basisstat "
                                            "it relies on belong to an earlier feasibility test" % show(e[1])[:80]))
    res.counts["definitive_status_stores"] = n
    res.floor("definitive status stores in the simplex driver", n, 3)
    return res
