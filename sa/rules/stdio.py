"""R-STDIO (C20): no live code reachable from an installed-header function, on a path that
returns to the caller, references stdout/stderr or calls an implicit-stream stdio function,
except the frozen, reasoned exceptions below."""
import collections

from ..core import walk, strip, is_var, callee, const_of, apath, fields_of, show, short_loc, Flow, norm_callee
from ..cond import atoms, SWAP
from ..result import RuleResult, Violation

IMPLICIT = {"printf", "vprintf", "puts", "putchar", "perror", "psignal", "herror", "gmp_printf", "gmp_vprintf",
            "putchar_unlocked", "system", "warn", "warnx", "vwarn", "err", "errx", "error"}
FD_FUNCS = {"write": 0, "dprintf": 0, "vdprintf": 0, "fdopen": 0, "dup2": 1}
STREAM_NULL_IS_STDOUT = {"mpq_out_str": 0, "mpz_out_str": 0, "mpf_out_str": 0}

# (function name, guard) -> reason.  guard: ("var", name, "null") / ("param", name, "null") /
# ("field", "Rec::field", "nonzero") : the sink must be dominated by an edge establishing that fact.
ALLOWED = [
    {"func": "QSlogv", "guard": ("var", "global_log_func", "null"),
     "reason": "default handler: with no handler installed the log line goes to stderr by design; with a handler installed this branch is not taken"},
    {"func": "@QSwrite_prob", "guard": ("param", "filename", "null"),
     "reason": "documented contract: file name NULL means 'write the problem to standard output' - the host asked for it"},
    {"func": "@ILLeditor", "guard": None,
     "reason": "the interactive editor console: its contract is terminal I/O (reads commands from stdin, prints to stdout); not a library call of the histories the property quantifies over"},
    {"func": "@ILLread_lp_state_next_line", "guard": ("field", "ILLread_lp_state::interactive", "nonzero"),
     "reason": "prompt of interactive mode, which only the interactive editor requests (checked: every other caller of ILLread_lp_state_init passes literal 0)"},
]


def _match_func(spec, name):
    if spec.startswith("@"):
        base = spec[1:]
        for pre in ("mpq_", "dbl_", "mpf_"):
            if name == pre + base:
                return True
        return name == base
    return name == spec


def _guard_holds(prog, f, bid, idx, guard):
    """is element (bid, idx) of f dominated by an edge that establishes the guard fact?  (path-sensitive)"""
    kind, name, want = guard

    def pred(t):
        t = strip(t)
        if kind == "var":
            return is_var(t, name=name) and t[1] in ("sg", "g")
        if kind == "param":
            return is_var(t, name=name, kind="p")
        if kind == "field":
            p = apath(t)
            fl = fields_of(p[2])
            if not fl:
                return False
            rec, fld = fl[-1].split("::")
            wrec, wfld = name.split("::")
            return fld == wfld and rec.endswith(wrec)
        return False

    seen = []

    def xfer(b, i, e, st):
        if b["id"] == bid and i == idx:
            seen.append(st)
        # an assignment to the guarded variable invalidates the fact
        if e[0] == "A" and pred(e[1][2]):
            return [("u",)]
        return None

    def refine(cond, truth, st):
        for l, op, r in atoms(cond, truth):
            for a, b_, o in ((l, r, op), (r, l, SWAP[op])):
                if pred(a) and const_of(b_) == 0:
                    if o == "==":
                        return [("null",)]
                    if o == "!=":
                        return [("nonzero",)]
        return None

    Flow(prog, f, [("u",)], xfer, refine).run()
    if not seen:
        return False
    wanted = "null" if want == "null" else "nonzero"
    return all(s == (wanted,) for s in seen)


def find_sinks(f):
    """yield (block, idx, elem, description, via_macro) for every stdio sink in live code of f"""
    for b, i, e in f.elements():
        trees = [x[1] for x in e[1]] if e[0] == "D" else [e[1]]
        if e[0] == "C":
            c = e[1]
            n = callee(c)
            mac = [m for m in c[5] if not m.startswith("@")]
            if n in IMPLICIT:
                yield b, i, e, "call %s()" % n, mac
            elif n in FD_FUNCS and len(c[3]) > FD_FUNCS[n] and const_of(c[3][FD_FUNCS[n]]) in (1, 2):
                yield b, i, e, "call %s(fd %d)" % (n, const_of(c[3][FD_FUNCS[n]])), mac
            elif n in STREAM_NULL_IS_STDOUT and c[3] and const_of(c[3][0]) == 0:
                yield b, i, e, "call %s(NULL stream = stdout)" % n, mac
            # stdout/stderr as a direct argument of this call (nested calls report their own)
            for a in c[3]:
                for node in _refs_outside_calls(a):
                    yield b, i, e, "%s passed to %s()" % (node[2], n or "(*fp)"), mac
        elif e[0] in ("A", "R", "D"):
            for t in trees:
                for node in _refs_outside_calls(t):
                    yield b, i, e, "%s used in %s" % (node[2], {"A": "assignment", "R": "return", "D": "initialiser"}[e[0]]), []


def _refs_outside_calls(t, in_cmp=False):
    """stdout/stderr references in tree t, not descending into nested calls (they are their own
    CFG elements) and not counting operands of ==/!= (a comparison writes nothing)"""
    t0 = t
    if not isinstance(t, list) or not t:
        return
    k = t[0]
    if k == "v":
        if t[1] in ("g", "sg") and t[2] in ("stdout", "stderr") and not in_cmp:
            yield t
        return
    if k == "c":
        return
    if k == "b" and t[1] in ("==", "!="):
        for x in (t[2], t[3]):
            yield from _refs_outside_calls(x, True)
        return
    if k == "m":
        yield from _refs_outside_calls(t[1], in_cmp)
    elif k == "i":
        yield from _refs_outside_calls(t[1], in_cmp)
        yield from _refs_outside_calls(t[2], in_cmp)
    elif k == "u":
        yield from _refs_outside_calls(t[2], in_cmp)
    elif k in ("b", "a"):
        yield from _refs_outside_calls(t[2], in_cmp)
        yield from _refs_outside_calls(t[3], in_cmp)
    elif k == "k":
        yield from _refs_outside_calls(t[2], in_cmp)
    elif k == "q":
        for x in t[1:4]:
            yield from _refs_outside_calls(x, in_cmp)
    elif k == "se":
        yield from _refs_outside_calls(t[1], in_cmp)
    elif k == "il":
        for x in t[1]:
            yield from _refs_outside_calls(x, in_cmp)


def cond_refs(f):
    """references in branch conditions other than ==/!= comparisons (none expected)"""
    for bid in f.live:
        b = f.blocks[bid]
        if "c" in b:
            for node in _refs_outside_calls(b["c"]):
                yield b, node


def interactive_only_from_editor(prog):
    """structural support for the ILLread_lp_state_next_line exception: the field
    ILLread_lp_state::interactive is stored only from literal 0 or from a parameter, and every call that
    supplies that parameter from outside the editor unit passes literal 0."""
    bad = []
    n = 0
    feeders = set()   # (function key, param index)
    for f in prog.funcs.values():
        for b, i, e in f.elements():
            if e[0] != "A":
                continue
            fl = fields_of(apath(e[1][2])[2])
            if not fl or not fl[-1].endswith("ILLread_lp_state::interactive"):
                continue
            rhs = strip(e[1][3])
            if const_of(rhs) == 0:
                continue
            if is_var(rhs, kind="p"):
                feeders.add((f.key, int(rhs[1][1:])))
            elif "editor" not in f.unit:
                bad.append((f.key, "stores %s into the interactive flag" % show(rhs)))
    for f in prog.funcs.values():
        for b, i, c in f.calls():
            g = prog.resolve(f, c[1]) if c[1] else None
            if not g:
                continue
            for (gk, k) in feeders:
                if g.key == gk:
                    n += 1
                    if "editor" in f.unit:
                        continue
                    if k >= len(c[3]) or const_of(c[3][k]) != 0:
                        bad.append((f.key, show(c)))
    if not feeders:
        bad.append(("-", "no store into ILLread_lp_state::interactive found"))
    return n, bad


def handler_ownership(prog, lib, res, rule, logv="QSlogv", setter="QSlog_set_handler"):
    """R-STDIO(b): the handler the default branch of QSlogv tests is host-owned: the variable is written only by
    the registration function, from its own parameters, and no library code calls the registration function
    (otherwise a registered handler can be silently dropped and the stderr branch becomes live again)."""
    f = prog.fn(logv)
    if f is None:
        return
    hvars = set()
    for bid in f.live:
        b = f.blocks[bid]
        if "c" in b:
            for l, op, r in atoms(b["c"], True):
                for x in (l, r):
                    if is_var(x) and strip(x)[1] in ("sg", "g"):
                        hvars.add(strip(x)[2])
    hvars -= {"stdout", "stderr"}
    res.counts["handler_variables"] = sorted(hvars)
    # the registration is process-wide: a handler variable with thread storage duration would be NULL again in every other
    # thread of the host, whose library calls would then take the stderr branch
    for hv in sorted(hvars):
        for gd in prog.globals.get(hv, []):
            res.obligations += 1
            if gd.get("tls"):
                res.violations.append(Violation(rule, "%s|handler variable %s is thread-local" % (logv, hv), logv, short_loc(gd.get("loc")),
                                                "the log handler variable %s has thread storage duration: a handler registered by the host is visible only in "
                                                "the registering thread; library calls made from any other thread find no handler and write to stderr" % hv))
    n = 0
    for g in lib:
        for b, i, e in g.elements():
            if e[0] == "A" and is_var(e[1][2]) and strip(e[1][2])[1] in ("sg", "g") and strip(e[1][2])[2] in hvars and g.unit == f.unit:
                n += 1
                res.obligations += 1
                if g.name != setter or not is_var(e[1][3], kind="p"):
                    res.violations.append(Violation(rule, "%s|writes handler variable %s" % (g.name, strip(e[1][2])[2]), g.name,
                                                    short_loc(e[2]), "the log handler variable %s is written outside %s / not from the host's argument: %s"
                                                    % (strip(e[1][2])[2], setter, show(e[1]))))
            if e[0] == "C" and callee(e[1]) == setter:
                res.obligations += 1
                res.violations.append(Violation(rule, "%s|calls %s" % (g.name, setter), g.name, short_loc(e[2]),
                                                "library code calls %s: %s - a handler registered by the host is replaced behind its back, "
                                                "after which diagnostics go to stderr again" % (setter, show(e[1]))))
    res.counts["handler_variable_stores"] = n
    res.floor("stores into the handler variable (in the setter)", n, 1)


def run(prog, lib_units=None, roots=None, allowed=ALLOWED, rule="R-STDIO", handler=("QSlogv", "QSlog_set_handler")):
    res = RuleResult(rule, "no live, returning code reachable from an installed-header function references "
                           "stdout/stderr or calls an implicit-stream stdio function, except the reasoned exceptions")
    if lib_units is None:
        lib_units = [u for u in prog.loaded_units if u.startswith("qsopt_ex/")]
    lib = [f for f in prog.funcs.values() if f.unit in lib_units]
    if roots is None:
        pub = prog.public_functions()
        roots = sorted(f.key for f in lib if f.name in pub and not f.static)
    parent = prog.reachable(roots, returning_only=True)
    res.counts["entry_functions"] = len(roots)
    res.counts["functions_reachable"] = len([k for k in parent if k in prog.funcs])
    res.counts["library_functions"] = len(lib)
    n_int, bad_int = interactive_only_from_editor(prog)
    groups = collections.OrderedDict()
    cls = collections.Counter()
    allowed_used = collections.Counter()
    for f in sorted(lib, key=lambda x: x.key):
        # dead-code census (sites in pruned blocks) for the evidence
        for b, i, e in f.elements(live_only=False):
            if b["id"] not in f.live:
                if e[0] == "C" and (callee(e[1]) in IMPLICIT or any(True for a in e[1][3] for _ in _refs_outside_calls(a))):
                    cls["dead (pruned by constant condition)"] += 1
                    res.obligations += 1
        for b, i, e, desc, mac in find_sinks(f):
            res.obligations += 1
            loc = short_loc(e[2])
            if b["id"] in f.doomed:
                cls["non-returning (followed by exit/abort on every path)"] += 1
                res.nontrivial += 1
                res.sample({"site": "%s %s: %s" % (loc, f.name, desc), "verdict": "non-returning path"})
                continue
            if f.key not in parent:
                cls["not reachable from any installed-header function"] += 1
                res.nontrivial += 1
                continue
            res.nontrivial += 1
            ok = None
            for a in allowed:
                if _match_func(a["func"], f.name):
                    if a["guard"] is None or _guard_holds(prog, f, b["id"], i, a["guard"]):
                        if a["func"] == "@ILLread_lp_state_next_line" and bad_int:
                            continue
                        ok = a
                        break
            if ok:
                cls["allowed: " + ok["func"]] += 1
                allowed_used[ok["func"]] += 1
                res.sample({"site": "%s %s: %s" % (loc, f.name, desc), "verdict": "allowed", "reason": ok["reason"]})
                continue
            via = mac[-1] if mac else ""
            sink = desc
            k = (f.name, sink, via)
            groups.setdefault(k, []).append((loc, f))
        for b, node in cond_refs(f):
            res.obligations += 1
            k = (f.name, "%s in a branch condition" % node[2], "")
            groups.setdefault(k, []).append((short_loc(b.get("tloc")), f))
    for (fname, sink, via), sites in groups.items():
        f = sites[0][1]
        key = "%s|%s|%s|x%d" % (fname, sink, via, len(sites))
        chain = [prog.funcs[k].name if k in prog.funcs else k for k in prog.chain(parent, f.key)]
        msg = "%s%s on a returning path reachable from the public API (%d site%s: %s)" % (
            sink, (" (expansion of %s)" % via) if via else "", len(sites), "s" if len(sites) > 1 else "",
            ", ".join(s[0] for s in sites))
        res.violations.append(Violation(rule, key, fname, sites[0][0], msg, chain=chain))
    if handler:
        handler_ownership(prog, lib, res, rule, handler[0], handler[1])
    for a in allowed:
        if a["func"] in allowed_used:
            res.excepted.append(("%s x%d" % (a["func"], allowed_used[a["func"]]), a["reason"]))
    res.counts["sites_by_class"] = dict(cls)
    res.counts["violating_sites"] = sum(len(s) for s in groups.values())
    res.counts["interactive_flag_feeding_calls"] = n_int
    res.counts["interactive_flag_nonzero_outside_editor"] = [list(x) for x in bad_int]
    res.counts["indirect_call_sites_resolved"] = len(prog.indirect_sites)
    res.floor("allowed default-handler site in QSlogv", allowed_used.get("QSlogv", 0), 1)
    res.floor("library functions analysed", len(lib), 800)
    res.floor("entry functions (installed headers)", len(roots), 400)
    return res


def run_restore(prog, rule="R-REPRESTORE", floor=2):
    """a redirected reporter is put back on every path.  The writers send their text through the problem's string reporter: they save it
    in a local (ILLstring_reporter_copy (&saved, &X->reporter)), point it at the output stream (ILLstring_reporter_init (&X->reporter, ..))
    and restore it afterwards.  Must-follow, all paths, failing ones included: from every such redirection of a reporter that belongs to
    a caller's record to every return, the restoring copy (ILLstring_reporter_copy (&X->reporter, &saved)) is executed - otherwise a failed
    write leaves the problem reporting into a stream the caller is about to close, and later diagnostics never reach the log handler."""
    from ..core import Flow, apath
    res = RuleResult(rule, "every redirection of a record's string reporter is followed, on every path to a return, by the copy that restores it")
    n = 0
    for f in sorted(prog.funcs.values(), key=lambda x: x.key):
        if f.live is None or "_dbl." in f.unit or "_mpf." in f.unit or not f.unit.startswith("qsopt_ex/"):
            continue
        redirects, restores = {}, {}
        for b, i, c in f.calls():
            nm = callee(c) or ""
            if nm == "ILLstring_reporter_init" and c[3]:
                p_ = apath(c[3][0])
                if isinstance(p_[0], str) and p_[0].startswith("p") and p_[2]:
                    redirects[(b["id"], i)] = (show(c[3][0]), c)
            if nm == "ILLstring_reporter_copy" and len(c[3]) >= 2:
                p_ = apath(c[3][0])
                if isinstance(p_[0], str) and p_[0].startswith("p") and p_[2]:
                    restores[(b["id"], i)] = show(c[3][0])
        # a temporary redirection saves the reporter first (the setter QSset_reporter installs one for good)
        saved = set()
        for b, i, c in f.calls():
            if (callee(c) or "") == "ILLstring_reporter_copy" and len(c[3]) >= 2:
                d0 = strip(c[3][0])
                if isinstance(d0, list) and d0 and d0[0] == "u" and d0[1] == "&" and is_var(d0[2], kind="l"):
                    saved.add(show(c[3][1]))
        redirects = {k_: v for k_, v in redirects.items() if v[0] in saved}
        if not redirects:
            continue
        bad = {}

        def xfer(b, i, e, st):
            key = (b["id"], i)
            if key in redirects:
                return [st | {redirects[key][0]}]
            if key in restores and restores[key] in st:
                return [st - {restores[key]}]
            if e[0] == "R" and st:
                for x in st:
                    bad.setdefault(x, (e[2] if len(e) > 2 else f.loc, b["id"], st))
            return None
        flw = Flow(prog, f, [frozenset()], xfer, None).run()
        for key, (txt, c) in sorted(redirects.items()):
            n += 1
            res.obligations += 1
            res.nontrivial += 1
            if txt in bad:
                loc, bid, st = bad[txt]
                res.violations.append(Violation(rule, "%s|%s left redirected" % (f.name.replace("mpq_", ""), txt.lstrip("&")), f.name, short_loc(c[4]),
                                                "%s redirects the reporter, and a return (%s) is reachable without the copy that restores it: the problem keeps "
                                                "reporting into the writer's stream" % (show(c)[:70], short_loc(loc)), path=flw.witness(bid, st)))
            else:
                res.sample({"site": "%s %s: %s" % (short_loc(c[4]), f.name, show(c)[:60]), "verdict": "restored on every path to a return"})
    res.counts["reporter_redirections"] = n
    res.floor("redirections of a caller's string reporter", n, floor)
    return res
