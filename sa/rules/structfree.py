"""R-STRUCTFREE (C18): destructors cover their record.  For each record with a free function X_free(X *) (a function
that releases pointer fields of X through a parameter of type X *): every pointer field of X into which any library
function stores a fresh allocation is released by some X_free-like function; otherwise the block is lost when the
object is discarded."""
import collections

from ..core import (strip, is_var, callee, const_of, apath, fields_of, show, short_loc, walk)
from ..effects import Effects
from ..result import RuleResult, Violation
from . import copy as copyrule
from .pair import ALLOC_CALLS

EXCEPT = {}


def run(prog, E=None, rule="R-STRUCTFREE", exceptions=EXCEPT):
    E = E or Effects(prog)
    res = RuleResult(rule, "every pointer field of a record that receives a fresh allocation anywhere in the library is released by "
                           "a function that frees fields of that record through a parameter of its type")
    own = copyrule.owning_fields(prog, E)
    # allocation stores:  x->...->F = <allocation>
    stores = collections.defaultdict(list)
    for f in prog.funcs.values():
        if "_dbl." in f.unit or "_mpf." in f.unit or f.unit.startswith("esolver/") or "binary_" in f.unit:
            continue
        alloc_lines = {c[4].rsplit(":", 1)[0] for b, i, c in f.calls() if callee(c) in ALLOC_CALLS}
        for b, i, e in f.elements():
            if e[0] != "A" or e[1][1] != "=":
                continue
            p = apath(e[1][2])
            fl = fields_of(p[2])
            if not fl or p[2][-1] != fl[-1]:
                continue        # not a store into the pointer field itself
            rhs = e[1][3]
            is_alloc = any(n[0] == "c" and callee(n) in ALLOC_CALLS for n in walk(rhs))
            if not is_alloc and isinstance(rhs, list) and rhs and rhs[0] in ("se", "k"):
                is_alloc = e[2].rsplit(":", 1)[0] in alloc_lines and strip(rhs) is not None and not is_var(strip(rhs), kind="p")
            if is_alloc:
                stores[fl[-1]].append((f.name, e[2], show(e[1])[:90]))
    owned_last = collections.defaultdict(set)
    for rec, fps in own.items():
        for fp in fps:
            owned_last[fp[-1]].add(rec)
    n = 0
    for fld, sites in sorted(stores.items()):
        rec = fld.split("::")[0]
        if rec not in prog.records:
            continue
        n += 1
        res.obligations += 1
        if fld in owned_last:
            res.sample({"field": fld, "allocated_in": sites[0][0], "verdict": "released through a %s parameter" % sorted(owned_last[fld])[0]}, limit=8)
            continue
        if fld in exceptions:
            res.excepted.append((fld, exceptions[fld]))
            continue
        res.nontrivial += 1
        res.violations.append(Violation(rule, "%s|allocated but never released by a destructor" % fld.replace("mpq_", ""), sites[0][0], short_loc(sites[0][1]),
                                        "%s stores a fresh allocation into %s (%d site%s), but no function releases that field through a parameter of "
                                        "the record's type: the block is lost when the object is freed" % (sites[0][2], fld, len(sites), "s" if len(sites) > 1 else "")))
    res.counts["pointer_fields_receiving_allocations"] = n
    res.counts["records_with_destructors"] = len(own)
    res.floor("pointer fields receiving allocations", n, 60)
    res.floor("records with a destructor", len(own), 10)
    return res
