"""R-STRUCTFREE (C18): destructors cover their record.  For each record with a free function X_free(X *) (a function
that releases pointer fields of X through a parameter of type X *): every pointer field of X into which any library
function stores a fresh allocation is released by some X_free-like function; otherwise the block is lost when the
object is discarded."""
import collections

from ..core import (strip, is_var, callee, const_of, apath, fields_of, show, short_loc, walk)
from ..effects import Effects
from ..result import RuleResult, Violation
from . import copy as copyrule
from .pair import ALLOC_CALLS

EXCEPT = {}


def run(prog, E=None, rule="R-STRUCTFREE", exceptions=EXCEPT):
    E = E or Effects(prog)
    res = RuleResult(rule, "every pointer field of a record that receives a fresh allocation anywhere in the library is released by "
                           "a function that frees fields of that record through a parameter of its type")
    own = copyrule.owning_fields(prog, E)
    # allocation stores:  x->...->F = <allocation>
    stores = collections.defaultdict(list)
    for f in prog.funcs.values():
        if "_dbl." in f.unit or "_mpf." in f.unit or f.unit.startswith("esolver/") or "binary_" in f.unit:
            continue
        alloc_lines = {c[4].rsplit(":", 1)[0] for b, i, c in f.calls() if callee(c) in ALLOC_CALLS}
        for b, i, e in f.elements():
            if e[0] != "A" or e[1][1] != "=":
                continue
            p = apath(e[1][2])
            fl = fields_of(p[2])
            if not fl or p[2][-1] != fl[-1]:
                continue        # not a store into the pointer field itself
            rhs = e[1][3]
            is_alloc = any(n[0] == "c" and callee(n) in ALLOC_CALLS for n in walk(rhs))
            if not is_alloc and isinstance(rhs, list) and rhs and rhs[0] in ("se", "k"):
                is_alloc = e[2].rsplit(":", 1)[0] in alloc_lines and strip(rhs) is not None and not is_var(strip(rhs), kind="p")
            if is_alloc:
                stores[fl[-1]].append((f.name, e[2], show(e[1])[:90]))
    owned_last = collections.defaultdict(set)
    for rec, fps in own.items():
        for fp in fps:
            owned_last[fp[-1]].add(rec)
    n = 0
    for fld, sites in sorted(stores.items()):
        rec = fld.split("::")[0]
        if rec not in prog.records:
            continue
        n += 1
        res.obligations += 1
        if fld in owned_last:
            res.sample({"field": fld, "allocated_in": sites[0][0], "verdict": "released through a %s parameter" % sorted(owned_last[fld])[0]}, limit=8)
            continue
        if fld in exceptions:
            res.excepted.append((fld, exceptions[fld]))
            continue
        res.nontrivial += 1
        res.violations.append(Violation(rule, "%s|allocated but never released by a destructor" % fld.replace("mpq_", ""), sites[0][0], short_loc(sites[0][1]),
                                        "%s stores a fresh allocation into %s (%d site%s), but no function releases that field through a parameter of "
                                        "the record's type: the block is lost when the object is freed" % (sites[0][2], fld, len(sites), "s" if len(sites) > 1 else "")))
    res.counts["pointer_fields_receiving_allocations"] = n
    res.counts["records_with_destructors"] = len(own)
    res.floor("pointer fields receiving allocations", n, 60)
    res.floor("records with a destructor", len(own), 10)
    return res


RELEASE = {"free", "ILLutil_freerus", "EGfree"}


def run_nodefree(prog, E=None, rule="R-NODEFREE"):
    """deep release: a function that releases an object of a record type R which owns heap storage (R has fields that R's destructor
    releases) releases those fields first - by freeing x->field itself or by handing x to a function that does.  Otherwise every
    discarded node of a list (the errors recorded by an error-memory collector) loses the strings hanging off it."""
    E = E or Effects(prog)
    res = RuleResult(rule, "before an object of a record type that owns heap blocks is released, its owning fields are released (directly or by a "
                           "destructor of that record called on the same pointer)")
    by_func = {}
    own = copyrule.owning_fields(prog, E, by_func=by_func)
    direct = {rec: {fp[0] for fp in fps if len(fp) == 1} for rec, fps in own.items()}
    # destructors: functions that release a field of R through a parameter of type R * (from the effect summaries)
    destructors = collections.defaultdict(dict)     # rec -> {function key: set of first fields}
    for rec, fm in by_func.items():
        for fk, fps in fm.items():
            destructors[rec][fk] = {fp[0] for fp in fps}
    n = 0
    for f in sorted(prog.funcs.values(), key=lambda x: x.key):
        if "_dbl." in f.unit or "_mpf." in f.unit or f.live is None or "binary_" in f.unit:
            continue
        rel_fields = collections.defaultdict(set)     # variable name -> fields released through it in this function
        via_destr = collections.defaultdict(set)
        frees = []
        alias = {}                                    # local -> (owner variable, field) when assigned from owner->field
        for b, i, e in f.elements():
            pairs = []
            if e[0] == "A" and e[1][1] == "=" and is_var(e[1][2], kind="l"):
                pairs.append((strip(e[1][2])[2], e[1][3]))
            elif e[0] == "D":
                pairs += [(n2, init) for n2, init in e[1] if init is not None]
            for n2, rhs in pairs:
                pp = apath(rhs)
                fl2 = fields_of(pp[2])
                if len(fl2) == 1 and (pp[0] == "l" or pp[0].startswith("p")):
                    alias.setdefault(n2, (pp[1], fl2[0]))
        for b, i, c in f.calls():
            nm = callee(c)
            if nm in RELEASE and c[3]:
                a = strip(c[3][0])
                p = apath(a)
                fl = fields_of(p[2])
                if is_var(a) and not fl and a[2] in alias:
                    rel_fields[alias[a[2]][0]].add(alias[a[2]][1])      # releasing a local that walks owner->field
                if is_var(a) and not fl:
                    ty = (f.var_type(a) or "").replace("const ", "").replace("struct ", "")
                    rec = ty.replace("*", "").strip()
                    if ty.count("*") == 1 and rec in direct and direct[rec]:
                        frees.append((a[2], rec, c))
                elif len(fl) == 1 and p[0] in ("l",) or (len(fl) == 1 and p[0].startswith("p")):
                    rel_fields[p[1]].add(fl[0])
            elif c[1] is not None:
                g = prog.resolve(f, c[1])
                if g is not None:
                    for k, a in enumerate(c[3]):
                        a = strip(a)
                        if is_var(a):
                            for rec, ds in destructors.items():
                                if g.key in ds:
                                    via_destr[a[2]] |= ds[g.key]
        for (var, rec, c) in frees:
            n += 1
            res.obligations += 1
            res.nontrivial += 1
            missing = sorted(fld for fld in direct[rec] if fld not in rel_fields[var] and fld not in via_destr[var])
            if f.key in destructors.get(rec, {}):
                missing = [m for m in missing if m not in destructors[rec][f.key]]
            if missing:
                res.violations.append(Violation(rule, "%s|%s released without its %s" % (f.name.replace("mpq_", ""), rec.replace("mpq_", ""), ",".join(m.split("::")[1] for m in missing)),
                                                f.name, short_loc(c[4]),
                                                "%s releases an object of type %s, whose field(s) %s own heap blocks (released elsewhere by %s), without releasing them "
                                                "first: the blocks are lost with every object discarded here" % (
                                                    show(c)[:60], rec, ", ".join(m.split("::")[1] for m in missing),
                                                    ", ".join(sorted(prog.funcs[k].name for k in destructors.get(rec, {}) if k in prog.funcs))[:80] or "no destructor")))
            else:
                res.sample({"site": "%s %s: %s" % (short_loc(c[4]), f.name, show(c)[:50]), "verdict": "owning fields of %s released first" % rec}, limit=8)
    res.counts["releases_of_owning_records"] = n
    res.floor("releases of objects of owning record types", n, 5)
    return res
