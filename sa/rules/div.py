"""R-DIV (C11): a division whose divisor comes from the input is guarded by a zero test.
In the reader closures every GMP division (mpq_div, mpq_inv, mpz_*div*, mpz_mod*) must be dominated by a branch
whose condition inspects the divisor and one of whose edges cannot reach the division; mpq_canonicalize and integer
/ and % sites are listed with the reason why their divisor is non-zero by construction (frozen, one reason each)."""
from ..core import walk, strip, is_var, callee, const_of, show, short_loc, dominators, AnalysisBroken
from ..result import RuleResult, Violation

DIVS = {"mpq_div": 2, "mpq_inv": 1, "mpz_tdiv_q": 2, "mpz_fdiv_q": 2, "mpz_cdiv_q": 2, "mpz_mod": 2, "mpz_divexact": 2, "mpz_tdiv_r": 2,
        "mpz_fdiv_r": 2, "mpz_tdiv_qr": 3, "mpz_fdiv_qr": 3, "mpz_tdiv_q_ui": 2, "mpz_fdiv_q_ui": 2, "mpz_fdiv_ui": 1, "mpz_tdiv_ui": 1,
        "mpq_set_z_div?": 2}
BY_CONSTRUCTION = {
    ("mpq_EGlpNumReadStrXc", "mpq_canonicalize"): "the denominators of den[0], den[1] start at 1 and are only multiplied by 10 (fractional digits, negative exponents)",
    ("mpq_EGlpNumSet", "mpq_canonicalize"): "numerator and denominator are continued-fraction convergents; the denominator recurrence starts at 1 and only grows",
    ("mpq_EGlpNumSet", "mpq_div_2exp"): "divides by a power of two",
    ("mpq_EGlpNumSet_mpf", "mpq_canonicalize"): "continued-fraction convergents, denominator >= 1",
    ("mpq_EGlpNumSet_mpf", "mpq_div_2exp"): "divides by a power of two",
    ("stringhash", "%"): "tsize is the table's hashspace: look_it_up returns before hashing when hashspace is 0, and registration / renaming only run on tables made by ILLsymboltab_create (hashspace >= 1)",
    ("mpq_EGlpNumSet", "/"): "floating-point division (no trap); the loop leaves when the remainder underflows",
}


def guarded(prog, f, bid, divisor_txt):
    """is block bid dominated by a branch that inspects the divisor and has an edge from which bid is unreachable?"""
    dom, succ = dominators(prog, f)

    def reach(a):
        seen, st = set(), [a]
        while st:
            x = st.pop()
            if x in seen:
                continue
            seen.add(x)
            st.extend(succ.get(x, ()))
        return seen
    key = divisor_txt.replace(" ", "")
    for g in dom.get(bid, ()):
        b = f.blocks[g]
        if g == bid or "c" not in b:
            continue
        ctxt = show(b["c"]).replace(" ", "")
        if key not in ctxt:
            continue
        for s in succ.get(g, ()):
            if bid not in reach(s) and s != bid:
                return True, short_loc(b.get("tloc"))
    return False, None


def run(prog, roots=("mpq_QSread_prob", "mpq_QSget_prob", "mpq_QSread_basis", "mpq_QSread_and_load_basis"), rule="R-DIV"):
    res = RuleResult(rule, "every GMP division on a reader path is dominated by a zero test of its divisor; canonicalisations and integer "
                           "divisions are non-zero by construction (one frozen reason each)")
    keys = [prog.require_fn(r).key for r in roots]
    par = prog.reachable(keys)
    n_gmp = 0
    for k in sorted(par):
        f = prog.funcs.get(k)
        if f is None or "_dbl." in f.unit or "_mpf." in f.unit:
            continue
        for b, i, c in f.calls():
            n = callee(c)
            if n in DIVS and DIVS[n] < len(c[3]):
                res.obligations += 1
                res.nontrivial += 1
                n_gmp += 1
                dtxt = show(c[3][DIVS[n]])
                ok, where = guarded(prog, f, b["id"], dtxt)
                if ok:
                    res.sample({"site": "%s %s: %s" % (short_loc(c[4]), f.name, show(c)), "verdict": "dominated by a test of %s at %s" % (dtxt, where)})
                else:
                    res.violations.append(Violation(rule, "%s|%s by %s without zero test" % (f.name, n, dtxt), f.name, short_loc(c[4]),
                                                    "%s: no dominating branch inspects the divisor %s with an edge that avoids the division (a zero divisor traps with SIGFPE)" % (show(c), dtxt)))
            elif n in ("mpq_canonicalize", "mpq_div_2exp"):
                res.obligations += 1
                why = BY_CONSTRUCTION.get((f.name, n))
                if why:
                    res.excepted.append(("%s: %s" % (f.name, show(c)), why))
                else:
                    res.violations.append(Violation(rule, "%s|%s unexplained" % (f.name, n), f.name, short_loc(c[4]),
                                                    "%s on a reader path without a recorded reason why its denominator is non-zero" % show(c)))
        for b, i, e in f.elements():
            if e[0] not in ("A", "D", "R"):
                continue
            trees = [x[1] for x in e[1]] if e[0] == "D" else [e[1]]
            for t in trees:
                for nd in walk(t):
                    if nd[0] == "b" and nd[1] in ("/", "%") and const_of(nd[3]) is None:
                        res.obligations += 1
                        why = BY_CONSTRUCTION.get((f.name, nd[1]))
                        if why:
                            res.excepted.append(("%s: %s" % (f.name, show(nd)), why))
                        else:
                            ok, where = guarded(prog, f, b["id"], show(nd[3]))
                            if not ok:
                                res.violations.append(Violation(rule, "%s|integer %s by %s" % (f.name, nd[1], show(nd[3])), f.name, short_loc(e[2]),
                                                                "%s: divisor not provably non-zero and no dominating test" % show(nd)))
    res.counts["gmp_divisions"] = n_gmp
    res.floor("GMP divisions on reader paths", n_gmp, 1)
    res.floor("division-like sites examined", res.obligations, 6)
    return res
