"""R-OUTUNSET (C07, C17): a scalar handed out through an out-parameter is set on every successful return before the caller reads it.

Callee side (summary): a function that stores through a pointer-to-scalar parameter (`*pk = ...`) on some path is an out-parameter
routine for k; the set of parameters already stored through and the value class of the error code are propagated path-sensitively to
the return statements: (g, k) MAY-SKIP when a return whose value may be zero is reachable with *pk unwritten.  Caller side: a local
scalar declared without initialiser whose address is handed to a MAY-SKIP parameter stays undefined behind the call; reading it
(before any assignment, on any path) is a read of an indeterminate value - the library then branches on garbage (the duplicate-name
test of ILLlib_addcol was the model case)."""
import collections

from ..core import walk, strip, is_var, callee, const_of, show, short_loc, Flow
from ..intstate import IntCells, Z, NZ, norm_local
from ..cond import atoms, SWAP
from ..result import RuleResult, Violation

SCALAR = ("int *", "char *", "double *", "unsigned int *", "long *", "size_t *")


def _cond_loc(c):
    for nd in walk(c):
        if isinstance(nd, list) and nd and nd[0] == "c" and len(nd) > 4:
            return nd[4]
    return None


def _out_params(f):
    """parameters of pointer-to-scalar type through which f stores directly"""
    out = set()
    for b, i, e in f.elements():
        if e[0] == "A":
            l = strip(e[1][2])
            if isinstance(l, list) and l and l[0] == "u" and l[1] == "*" and is_var(l[2]):
                v = strip(l[2])
                if isinstance(v[1], str) and v[1].startswith("p"):
                    k = int(v[1][1:])
                    if k < len(f.params) and f.params[k][1].strip() in ("int *",):
                        out.add(k)
    return out


def _may_skip(prog, f, outs):
    names = ["rval", "__EGrval__"]
    cells = IntCells(names, lambda st, c: st[1][names.index(c)], lambda st, c, v: (st[0], st[1][:names.index(c)] + (v,) + st[1][names.index(c) + 1:]))
    skip = {}

    def xfer(b, i, e, st):
        if e[0] == "D":
            out = [st]
            for name, init in e[1]:
                nxt = []
                for s_ in out:
                    r = cells.declare(s_, name, init)
                    nxt.extend(r if r is not None else [s_])
                out = nxt
            return out
        if e[0] == "A":
            l = strip(e[1][2])
            if isinstance(l, list) and l and l[0] == "u" and l[1] == "*" and is_var(l[2]):
                v = strip(l[2])
                if isinstance(v[1], str) and v[1].startswith("p") and int(v[1][1:]) in outs:
                    return [(st[0] | {int(v[1][1:])}, st[1])]
            r = cells.assign(st, e[1][2], e[1][3], e[1][1])
            if r is not None:
                return r
        if e[0] == "C":
            # the parameter is handed on to a callee: counted as written (optimistic: the callee is judged on its own)
            w = set()
            for a in e[1][3]:
                a0 = strip(a)
                if is_var(a0) and isinstance(a0[1], str) and a0[1].startswith("p") and int(a0[1][1:]) in outs:
                    w.add(int(a0[1][1:]))
            if w - st[0]:
                return [(st[0] | w, st[1])]
        if e[0] == "R":
            vals = set(cells.values(st, e[1])) if e[1] is not None else {Z}
            if Z in vals:
                for k in outs - st[0]:
                    skip.setdefault(k, (b["id"], st, e[2]))
        return None
    def refine(c, t, st):
        # `if (out) *out = ...`: on the branch where the parameter is NULL there is nothing to store through (callers that pass &local never
        # take it)
        add = set()
        for l, op, r in atoms(c, t):
            for a, b_, o in ((l, r, op), (r, l, SWAP[op])):
                a0 = strip(a)
                if is_var(a0) and isinstance(a0[1], str) and a0[1].startswith("p") and int(a0[1][1:]) in outs and const_of(b_) == 0 and o == "==":
                    add.add(int(a0[1][1:]))
        if add - st[0]:
            st = (st[0] | add, st[1])
        r = cells.refine(c, t, st)
        return r if r is not None else [st]
    flw = Flow(prog, f, [(frozenset(), tuple(Z for _ in names))], xfer, refine, max_visits=200000).run()
    return {k: (flw.witness(v[0], v[1]), v[2]) for k, v in skip.items()}


def run(prog, rule="R-OUTUNSET", floor=20):
    res = RuleResult(rule, "a local scalar whose address is handed to an out-parameter that a successful return may leave unwritten is not read "
                           "before it is assigned")
    funcs = [f for f in prog.funcs.values() if f.live is not None and "_dbl." not in f.unit and "_mpf." not in f.unit
             and (f.unit.startswith("qsopt_ex/") or f.unit.startswith("esolver/"))]
    SKIP = {}
    nout = 0
    for f in funcs:
        outs = _out_params(f)
        if not outs:
            continue
        nout += len(outs)
        ms = _may_skip(prog, f, outs)
        for k, w in ms.items():
            SKIP[(f.key, k)] = w
    res.counts["out_parameters"] = nout
    res.counts["may_skip"] = sorted("%s#%d" % (k[0].split(":")[-1], k[1]) for k in SKIP)
    nsite = 0
    for f in sorted(funcs, key=lambda x: x.key):
        sites = {}
        for b, i, c in f.calls():
            g = prog.resolve(f, c[1]) if c[1] else None
            if g is None:
                continue
            for k, a in enumerate(c[3]):
                if (g.key, k) in SKIP:
                    a0 = strip(a)
                    if isinstance(a0, list) and a0 and a0[0] == "u" and a0[1] == "&" and is_var(a0[2], kind="l"):
                        sites.setdefault((b["id"], i), []).append((strip(a0[2])[2], g, k))
        if not sites:
            continue
        tracked = {n for v in sites.values() for (n, g, k) in v}
        bad = {}

        def reads(e, name):
            """the element reads the local (not merely takes its address or assigns it)"""
            trees = []
            if e[0] == "D":
                trees = [x[1] for x in e[1] if x[1] is not None]
            elif e[0] == "A":
                trees = [e[1][3]] + ([e[1][2]] if not is_var(e[1][2], name=name) or e[1][1] != "=" else [])
            elif e[1] is not None:
                trees = [e[1]]
            for t in trees:
                stack = [t]
                while stack:
                    nd = stack.pop()
                    if not isinstance(nd, list) or not nd:
                        continue
                    if nd[0] == "u" and nd[1] == "&" and is_var(nd[2], name=name):
                        continue
                    if nd[0] == "v" and nd[2] == name and nd[1] == "l":
                        return True
                    for ch in nd[1:]:
                        if isinstance(ch, list):
                            stack.append(ch)
            return False

        def xfer(b, i, e, st):
            undef = set(st)
            if e[0] == "D":
                for name, init in e[1]:
                    if name in tracked:
                        if init is None:
                            undef.add(name)
                        else:
                            undef.discard(name)
                return [frozenset(undef)] if undef != set(st) else None
            for name in list(undef):
                if reads(e, name):
                    bad.setdefault(name, (b["id"], st, e[2] if len(e) > 2 else None))
            if e[0] == "A" and is_var(e[1][2], kind="l") and strip(e[1][2])[2] in undef and e[1][1] == "=":
                undef.discard(strip(e[1][2])[2])
            if e[0] == "C":
                key = (b["id"], i)
                skipping = {n for (n, g, k) in sites.get(key, ())}
                for a in e[1][3]:
                    a0 = strip(a)
                    if isinstance(a0, list) and a0 and a0[0] == "u" and a0[1] == "&" and is_var(a0[2], kind="l"):
                        n = strip(a0[2])[2]
                        if n in undef and n not in skipping:
                            undef.discard(n)          # handed to another routine: judged there
            return [frozenset(undef)] if undef != set(st) else None
        def crefine(c, t, st):
            for name in st:
                if reads(["X", c, None], name):
                    bad.setdefault(name, (None, st, _cond_loc(c)))
            return None
        flw = Flow(prog, f, [frozenset()], xfer, crefine, max_visits=200000).run()
        for key, lst in sorted(sites.items()):
            for (name, g, k) in lst:
                nsite += 1
                res.obligations += 1
                res.nontrivial += 1
                if name in bad:
                    bid, st, loc = bad[name]
                    res.violations.append(Violation(rule, "%s|%s read although %s may leave it unset" % (f.name.replace("mpq_", ""), name, g.name.replace("mpq_", "")), f.name,
                                                    short_loc(loc or f.loc),
                                                    "%s is declared without a value, its address is handed to parameter %d of %s, which can return 0 without storing "
                                                    "through it (%s), and it is read afterwards: the value is indeterminate on that path" % (
                                                        name, k, g.name, short_loc(SKIP[(g.key, k)][1])), path=flw.witness(bid, st) if bid is not None else None))
                else:
                    res.sample({"site": "%s: &%s -> %s#%d" % (f.name, name, g.name, k), "verdict": "assigned before every read"}, limit=8)
    res.counts["call_sites_handing_a_local_to_a_may_skip_parameter"] = nsite
    res.floor("out-parameters analysed", nout, floor)
    return res
