"""R-NORMS (C17): installing a basis replaces or discards every norm array of the pricing record.
The pricing record outlives a solve; its norm arrays have the dimension of the basis they were computed for.  In
ILLsimplex, on every path from ILLbasis_load(lp, B) to ILLprice_build_pricing_info each of the four norm arrays (steepest
edge and devex, primal and dual) is either loaded from B or freed, so neither build_pricing_info (which re-uses any non-NULL
array of the rule in effect) nor the basis export (ILLlib_getrownorms) ever reads an array that belongs to another basis.  The algorithm selector is only compared with constants: the flow is run once per value."""
from ..core import strip, is_var, callee, const_of, apath, fields_of, show, short_loc, Flow, AnalysisBroken
from ..cond import atoms, SWAP
from ..result import RuleResult, Violation

ALGS = {"PRIMAL_SIMPLEX": 1, "DUAL_SIMPLEX": 2}


def _is_alg(t):
    t = strip(t)
    return isinstance(t, list) and t and t[0] == "m" and t[2].endswith("::algorithm")


KINDS = ("ds", "ps", "dd", "pd")
KIND_TEXT = {"ds": "dual steepest-edge norms (dsinfo.norms)", "ps": "primal steepest-edge norms (psinfo.norms)",
             "dd": "dual devex norms (ddinfo.norms)", "pd": "primal devex norms (pdinfo.norms)"}


def _norm_field(t):
    fl = fields_of(apath(t)[2])
    if fl and fl[-1].endswith("::norms"):
        for x in fl:
            for k in KINDS:
                if x.endswith("::%sinfo" % k):
                    return k
    return None


def run(prog, prefix="mpq_", rule="R-NORMS"):
    res = RuleResult(rule, "between ILLbasis_load and ILLprice_build_pricing_info the norms of the running algorithm are loaded from the basis or freed on every path")
    f = prog.require_fn(prefix + "ILLsimplex")
    seen = set()
    for name, av in ALGS.items():
        viol = {}

        def xfer(b, i, e, st, av=av):
            alg, loaded, done = st
            if e[0] == "A":
                side = _norm_field(e[1][2])
                if side:
                    return [(alg, loaded, done | {side})]
                if _is_alg(e[1][2]) and e[1][1] == "=":
                    v = const_of(e[1][3])
                    return [(v if v is not None else alg, loaded, done)]
                return None
            if e[0] != "C":
                return None
            n = callee(e[1])
            if n == prefix + "ILLbasis_load":
                seen.add("load")
                return [(alg, True, frozenset())]
            if n == prefix + "ILLprice_load_rownorms":
                seen.add("rown")
                return [(alg, loaded, done | {"ds"})]
            if n == prefix + "ILLprice_load_colnorms":
                seen.add("coln")
                return [(alg, loaded, done | {"ps"})]
            if n == prefix + "ILLprice_free_pricing_info":
                return [(alg, loaded, frozenset(KINDS))]
            if n == prefix + "ILLprice_build_pricing_info":
                seen.add("build")
                if loaded:
                    for k in KINDS:
                        if k not in done:
                            viol.setdefault((alg, k), (e[1][4], b["id"], st))
            return None

        def refine(cond, truth, st):
            alg = st[0]
            for l, op, r in atoms(cond, truth):
                for a, b_, o in ((l, r, op), (r, l, SWAP[op])):
                    if _is_alg(a):
                        v = const_of(b_)
                        if v is None:
                            continue
                        if (o == "==" and v != alg) or (o == "!=" and v == alg):
                            return []
            return None
        fl = Flow(prog, f, [(av, False, frozenset())], xfer, refine).run()
        res.obligations += len(KINDS)
        res.nontrivial += len(KINDS)
        if viol:
            for (alg, k), (loc, bid, st) in sorted(viol.items()):
                res.violations.append(Violation(rule, "ILLsimplex|%s survive a basis load (%s simplex)" % (KIND_TEXT[k].split(" (")[0], "dual" if alg == 2 else "primal"), f.name, short_loc(loc),
                                                "ILLprice_build_pricing_info is reached after ILLbasis_load on a path that neither loaded nor freed the %s: the array "
                                                "was computed for another basis, possibly of another dimension (rows / columns added since), and is re-used as it is "
                                                "by the pricing code and by the basis export" % KIND_TEXT[k],
                                                path=fl.witness(bid, st)))
        else:
            res.sample({"algorithm": name, "verdict": "norms loaded or freed on every path from ILLbasis_load to ILLprice_build_pricing_info"})
    for k in ("load", "rown", "coln", "build"):
        if k not in seen:
            raise AnalysisBroken("ILLsimplex: anchor call '%s' not found" % k)
    # the two algorithm constants are the only ones passed by callers
    vals = set()
    k = [i for i, p in enumerate(f.params) if p[0] == "algorithm"]
    for g in prog.funcs.values():
        for b, i, c in g.calls():
            if callee(c) == prefix + "ILLsimplex" and k and k[0] < len(c[3]):
                v = const_of(c[3][k[0]])
                vals.add(v if v is not None else "param")
    res.counts["algorithm_arguments_at_call_sites"] = sorted(map(str, vals))
    return res


def run_handover(prog, prefix="mpq_", rule="R-FOREIGNNORMS", floor=1):
    """a basis record that moves from one problem object to another leaves its edge norms behind.  rownorms / colnorms are the
    steepest-edge weights of the rows / columns of the basis inverse of the problem they were computed on; opt_work solves a scaled copy
    first and hands the copy's basis record to the problem itself.  Every pointer move `X->basis = Y->basis` between two different
    problem variables must be dominated by the release of Y->basis->rownorms and Y->basis->colnorms (the weights of the other - scaled -
    matrix make the weight recurrence of the exact dual steepest-edge pricing leave the positive range, and the floor it is clamped to
    is 0 in the rational instantiation: the next pricing pass divides by it)."""
    from ..core import walk, dominators
    res = RuleResult(rule, "a move of the basis record between two problem objects is dominated by the release of both edge-norm arrays of the "
                           "record that moves")
    n = 0
    for f in sorted(prog.funcs.values(), key=lambda x: x.key):
        if f.live is None or "_dbl." in f.unit or "_mpf." in f.unit or not f.unit.startswith("qsopt_ex/"):
            continue
        moves = []
        for b, i, e in f.elements():
            if e[0] != "A" or e[1][1] != "=":
                continue
            l, r = strip(e[1][2]), strip(e[1][3])
            if isinstance(l, list) and l and l[0] == "m" and l[2].endswith("qsdata::basis") and isinstance(r, list) and r and r[0] == "m" and \
                    r[2].endswith("qsdata::basis") and is_var(l[1]) and is_var(r[1]) and strip(l[1])[2] != strip(r[1])[2]:
                moves.append((b["id"], i, e, strip(r[1])[2]))
        if not moves:
            continue
        dom, succ = dominators(prog, f)
        for (bid, i, e, src) in moves:
            n += 1
            res.obligations += 1
            res.nontrivial += 1
            released = set()
            for b2, i2, e2 in f.elements():
                if not ((b2["id"] in dom.get(bid, ()) and b2["id"] != bid) or (b2["id"] == bid and i2 < i)):
                    continue
                # the release macro ends with  X = 0  /  the free call takes the array
                cand = None
                if e2[0] == "A" and e2[1][1] == "=" and const_of(e2[1][3]) == 0:
                    cand = e2[1][2]
                for fld in ("rownorms", "colnorms"):
                    if cand is not None and show(cand).replace(" ", "") == "%s->basis->%s" % (src, fld):
                        released.add(fld)
            if released >= {"rownorms", "colnorms"}:
                res.sample({"site": "%s %s: %s" % (short_loc(e[2]), f.name, show(e[1])[:50]), "verdict": "both norm arrays of the moving record are released first"}, limit=4)
            else:
                missing = sorted({"rownorms", "colnorms"} - released)
                res.violations.append(Violation(rule, "%s|basis of %s handed over with its %s" % (f.name.replace(prefix, ""), src, " and ".join(missing)), f.name, short_loc(e[2]),
                                                "%s moves the basis record of %s into another problem object together with %s: these are the edge weights of %s's (scaled) "
                                                "matrix, and the next solve loads them as the weights of its own rows" % (show(e[1])[:60], src, " and ".join(missing), src)))
    res.counts["basis_moves_between_problem_objects"] = n
    res.floor("moves of a basis record between two problem objects", n, floor)
    return res
