"""R-INVAL / R-FOK / R-GATE / R-INVALFN (C05, C14): no stale solution is served.

R-INVAL   every public function that may write solution-relevant LP data of its problem argument (computed from
          effect summaries, not listed) passes an invalidation event on every path from the mutation to a success return.
R-FOK     every public function that may write the constraint matrix / its dimensions / the row and column maps stores
          factorok = 0 (or hands factorok to the mutating callee) on every such path; every function that installs a
          basis from outside stores factorok = 0.
R-GATE    every public accessor that dereferences p->cache is dominated by a null test of p->cache whose null edge
          cannot reach the dereference.
R-INVALFN the invalidation function itself frees+nulls the cache when present and stores QS_LP_MODIFIED on every path.
"""
import collections

from ..core import (strip, is_var, callee, const_of, apath, fields_of, show, short_loc, Flow, AnalysisBroken, walk)
from ..cond import atoms, SWAP
from ..effects import Effects
from ..intstate import IntCells, Z, NZ, norm_local
from ..guards import states_at, field_pred
from ..result import RuleResult, Violation

D_ALL = {"nrows", "ncols", "nstruct", "nzcount", "objsense", "sense", "obj", "rhs", "rangeval", "lower", "upper",
         "structmap", "rowmap", "intmarker", "rownames", "colnames", "rowtab", "coltab", "A", "sos"}
D_SOL = D_ALL - {"rownames", "colnames", "rowtab", "coltab", "nzcount", "intmarker"}
D_STRUCT = {"A", "nrows", "ncols", "nstruct", "structmap", "rowmap"}

INVALIDATORS = {"free_cache"}


def invalidator_names(prog):
    """free_cache and the static helpers that call it (or another such helper) with their own first parameter on every path to their
    return: `static void partial_batch_invalidate (p) { drop_devex_info (p); free_cache (p); p->factorok = 0; }` invalidates like the
    call it wraps"""
    cached = getattr(prog, "_invalidator_names", None)
    if cached is not None:
        return cached
    from ..core import dominators
    names = set(INVALIDATORS)
    changed = True
    while changed:
        changed = False
        for f in prog.funcs.values():
            if f.live is None or not f.static or base(f.name) in names or not f.params:
                continue
            sites = []
            for b_, i_, c in f.calls():
                if base(callee(c) or "") in names and c[3] and is_var(c[3][0]) and strip(c[3][0])[1] == "p0":
                    sites.append(b_["id"])
            if not sites:
                continue
            dom, succ = dominators(prog, f)
            rets = [b_["id"] for b_, i_, e in f.elements() if e[0] == "R"] or [f.exit]
            if all(any(sb in dom.get(rb, ()) for sb in sites) for rb in rets):
                names.add(base(f.name))
                changed = True
    prog._invalidator_names = names
    return names
# documented guarded form (qsopt.c: "If we only delete basic rows then cached soln is valid")
# the waiver variable is not named: it is the local whose address QSdelete_rows passes as the last argument of ILLlib_delrows
WAIVER = {"QSdelete_rows": (("ILLlib_delrows", 6), "only basic rows were deleted: ILLlib_delrows reports through cache_ok that the cached "
                                       "solution (repacked) is still valid; documented in QSdelete_rows")}
EXEMPT = {"QSfree_prob": "destructor: the problem ceases to exist",
          "QSopt_strongbranch": "edits bounds temporarily inside the strong-branching loop and restores them; resets qstatus itself "
                                "(checked by R-INVAL-SB below: stores qstatus = QS_LP_UNSOLVED)"}


def _waiver_var(f, spec):
    """the local whose address is passed at position spec[1] of the call of spec[0]"""
    for b, i, c in f.calls():
        if base(c[1] or "") == spec[0] and len(c[3]) > spec[1]:
            a = strip(c[3][spec[1]])
            if isinstance(a, list) and a and a[0] == "u" and a[1] == "&" and is_var(a[2], kind="l"):
                return strip(a[2])[2]
    return None


def lp_field(fp, prefix="mpq_"):
    """first field of ILLlpdata crossed by the composed field path"""
    for s in fp:
        rec, f = s.split("::")
        if rec == prefix + "ILLlpdata":
            return f
    return None


def base(name):
    for pre in ("mpq_", "dbl_", "mpf_"):
        if name.startswith(pre):
            return name[len(pre):]
    return name


ALL_NONSTATIC_PUBLIC = False   # fixtures: every non-static function counts as public


def api_functions(prog, prefix="mpq_"):
    pub = prog.public_functions() if not ALL_NONSTATIC_PUBLIC else {f.name for f in prog.funcs.values() if not f.static}
    out = []
    for f in prog.funcs.values():
        if f.static or f.name not in pub:
            continue
        if not (f.name.startswith(prefix + "QS") or f.name.startswith("QSexact")):
            continue
        pi = [i for i, p in enumerate(f.params) if (prefix + "QSdata") in p[1]]
        if not pi:
            continue
        out.append((f, pi[0]))
    return sorted(out, key=lambda x: x[0].name)


class MustFollow:
    """state (rv, tmp, dirty, waived): dirty set by mutation events, cleared by invalidation events"""

    def __init__(self, prog, f, mut, inv, waiver_var=None):
        self.prog, self.f, self.mut, self.inv, self.waiver_var = prog, f, mut, inv, waiver_var
        self.cells = IntCells(["rval", "__EGrval__"], lambda st, c: st[0] if c == "rval" else st[1],
                              lambda st, c, v: (v,) + st[1:] if c == "rval" else (st[0], v) + st[2:])
        self.bad = {}

    def xfer(self, b, i, e, st):
        key = (b["id"], i)
        out = [st]
        k = e[0]
        if k == "D":
            for name, init in e[1]:
                nxt = []
                for s in out:
                    r = self.cells.declare(s, name, init)
                    nxt.extend(r if r is not None else [s])
                out = nxt
        elif k == "A":
            r = self.cells.assign(st, e[1][2], e[1][3], e[1][1])
            if r is not None:
                out = r
        if key in self.mut:
            out = [(s[0], s[1], 1, s[3]) for s in out]
        if key in self.inv:
            out = [(s[0], s[1], 0, s[3]) for s in out]
        if k == "R":
            vals = self.cells.values(st, e[1]) if (e[1] is not None and "int" in self.f.ret) else [Z]
            for v in vals:
                if v == Z and st[2] == 1 and not st[3]:
                    self.bad.setdefault(e[2], (b["id"], st))
        return out

    def refine(self, cond, truth, st):
        r = self.cells.refine(cond, truth, st)
        if not r:
            return []
        if self.waiver_var:
            for l, op, rr in atoms(cond, truth):
                for a, b_, o in ((l, rr, op), (rr, l, SWAP[op])):
                    if is_var(a, name=self.waiver_var, kind="l") and const_of(b_) == 0 and o == "!=":
                        return [(st[0], st[1], st[2], 1)]
        return [st]

    def run(self):
        self.flow = Flow(self.prog, self.f, [(Z, Z, 0, 0)], self.xfer, self.refine).run()
        return self


def events(prog, E, f, pidx, fields, prefix="mpq_"):
    """(mutation events, description) for public function f: elements that may write LP fields in `fields`
    of the object reachable from parameter pidx"""
    mut = {}
    for ci in E.callinfo[f.key]:
        (g, name, loc, args, bid, idx, c) = ci
        hit = set()
        for (j, fp) in E.call_writes(f, ci):
            if j == pidx:
                lf = lp_field(fp, prefix)
                if lf in fields:
                    hit.add(lf)
        if hit:
            mut[(bid, idx)] = (loc, "call %s writes {%s}" % (name or "(*fp)", ",".join(sorted(hit))))
    for (j, fp, loc, how, bid, idx) in E.direct_writes(f):
        if j == pidx:
            lf = lp_field(fp, prefix)
            if lf in fields:
                mut[(bid, idx)] = (loc, "direct write of %s" % lf)
    return mut


def run_inval(prog, E=None, prefix="mpq_", rule="R-INVAL"):
    E = E or Effects(prog)
    res = RuleResult(rule, "every public function that may write solution-relevant LP data passes an invalidation of the cached "
                           "solution on every path from the write to a success return")
    apis = api_functions(prog, prefix)
    res.counts["api_functions"] = len(apis)
    # which API functions are established mutators-with-invalidation (so that wrappers calling them inherit it)
    mutators = {}
    for f, pidx in apis:
        m = events(prog, E, f, pidx, D_SOL, prefix)
        if m:
            mutators[f.key] = (f, pidx, m)
    res.counts["public_mutators"] = sorted(base(prog.funcs[k].name) for k in mutators)
    ok_funcs = set()
    pending = dict(mutators)
    results = {}
    for _round in range(6):
        progress = False
        for key, (f, pidx, m) in list(pending.items()):
            inv = set()
            unknown_api_call = False
            for (g, name, loc, args, bid, idx, c) in E.callinfo[f.key]:
                if name and base(name) in invalidator_names(prog) and args and args[0][0] == "p%d" % pidx and not args[0][2]:
                    inv.add((bid, idx))
                elif g is not None and g.key in mutators and g.key != f.key:
                    if g.key in ok_funcs:
                        inv.add((bid, idx))     # a checked public mutator: mutation + invalidation happen inside
                    elif g.key not in results:
                        unknown_api_call = True
            if unknown_api_call and _round < 5:
                continue
            wv = WAIVER.get(base(f.name))
            an = MustFollow(prog, f, m, inv, _waiver_var(f, wv[0]) if wv else None).run()
            results[key] = (an, inv)
            del pending[key]
            progress = True
            if not an.bad:
                ok_funcs.add(key)
        if not pending or not progress:
            break
    n_mut = 0
    for key, (f, pidx, m) in sorted(mutators.items()):
        bname = base(f.name)
        n_mut += 1
        if bname in EXEMPT:
            res.excepted.append((bname, EXEMPT[bname]))
            continue
        an, inv = results[key]
        res.obligations += len(m)
        res.nontrivial += len(m)
        if an.bad:
            loc, (bid, st) = sorted(an.bad.items())[0]
            what = sorted(set(d for (_, d) in m.values()))
            res.violations.append(Violation(rule, "%s|success exit without invalidation" % bname, f.name, short_loc(loc),
                                            "%s; a return with code 0 is reachable without free_cache(p)%s" % (
                                                "; ".join(what[:3]), " (no invalidation event in the function)" if not inv else ""),
                                            path=an.flow.witness(bid, st)))
        else:
            res.sample({"function": f.name, "mutation_events": sorted(set(d for (_, d) in m.values()))[:3],
                        "invalidation_events": len(inv), "verdict": "every success path invalidates"})
    if base_has(WAIVER, mutators, prog):
        res.excepted.append(("QSdelete_rows: cache_ok", WAIVER["QSdelete_rows"][1]))
    res.floor("public mutators found", n_mut, 28)
    return res


def base_has(table, mutators, prog):
    return any(base(prog.funcs[k].name) in table for k in mutators)


def run_fok(prog, E=None, prefix="mpq_", rule="R-FOK"):
    E = E or Effects(prog)
    res = RuleResult(rule, "every public function that may write the constraint matrix, its dimensions or the row/column maps resets "
                           "factorok (or hands it to the mutating callee) on every path to a success return; every basis installer resets it")
    apis = api_functions(prog, prefix)
    ok_funcs = set()
    cand = {}
    for f, pidx in apis:
        m = events(prog, E, f, pidx, D_STRUCT, prefix)
        if m:
            cand[f.key] = (f, pidx, m)
    # basis installers: write cstat/rstat of p->basis from a parameter or a file (found by effect query, frozen by name below)
    installers = {}
    for f, pidx in apis:
        w = {fp for (k, fp) in E.W[f.key] if k == pidx and len(fp) >= 2 and fp[0].endswith("qsdata::basis")
             and fp[1].split("::")[1] in ("cstat", "rstat")}
        if w and base(f.name) in ("QSload_basis", "QSload_basis_array", "QSload_basis_and_row_norms_array", "QSread_and_load_basis"):
            installers[f.key] = (f, pidx)
    res.counts["structure_mutators"] = sorted(base(prog.funcs[k].name) for k in cand)
    res.counts["basis_installers"] = sorted(base(prog.funcs[k].name) for k in installers)

    def fok_events(f, pidx, mut):
        ev = set()
        for b, i, e in f.elements():
            if e[0] == "A":
                p = apath(e[1][2])
                fl = fields_of(p[2])
                if p[0] == "p%d" % pidx and len(fl) == 1 and fl[0].endswith("qsdata::factorok") and const_of(e[1][3]) == 0:
                    ev.add((b["id"], i))
            elif e[0] == "C":
                for a in e[1][3]:
                    p = apath(a)
                    fl = fields_of(p[2])
                    if p[0] == "p%d" % pidx and fl and fl[-1].endswith("qsdata::factorok") and len(fl) == 1:
                        if (b["id"], i) in mut:
                            ev.add((b["id"], i))   # factorok handed to the mutating callee
        return ev

    order = list(cand.items())
    done = {}
    for _round in range(6):
        progress = False
        for key, (f, pidx, m) in order:
            if key in done:
                continue
            inv = fok_events(f, pidx, m)
            wait = False
            for (g, name, loc, args, bid, idx, c) in E.callinfo[f.key]:
                if g is not None and g.key in cand and g.key != f.key:
                    if g.key in ok_funcs:
                        inv.add((bid, idx))
                    elif g.key not in done:
                        wait = True
            if wait and _round < 5:
                continue
            an = MustFollow(prog, f, m, inv).run()
            done[key] = (an, inv)
            progress = True
            if not an.bad:
                ok_funcs.add(key)
        if not progress:
            break
    for key, (f, pidx, m) in sorted(cand.items()):
        bname = base(f.name)
        if bname in ("QSfree_prob",):
            res.excepted.append((bname, EXEMPT["QSfree_prob"]))
            continue
        an, inv = done[key]
        res.obligations += len(m)
        res.nontrivial += len(m)
        if an.bad:
            loc, (bid, st) = sorted(an.bad.items())[0]
            what = sorted(set(d for (_, d) in m.values()))
            res.violations.append(Violation(rule, "%s|success exit without factorok reset" % bname, f.name, short_loc(loc),
                                            "%s; a return with code 0 is reachable with p->factorok left unchanged: the next solve "
                                            "reuses the factorization of the old matrix" % "; ".join(what[:3]),
                                            path=an.flow.witness(bid, st)))
        else:
            res.sample({"function": f.name, "verdict": "factorok reset / handed over on every success path",
                        "events": sorted(set(d for (_, d) in m.values()))[:2]})
    for key, (f, pidx) in sorted(installers.items()):
        res.obligations += 1
        res.nontrivial += 1
        # the installing event: the call that writes basis cstat/rstat
        m = {}
        for ci in E.callinfo[f.key]:
            (g, name, loc, args, bid, idx, c) = ci
            for (j, fp) in E.call_writes(f, ci):
                if j == pidx and len(fp) >= 2 and fp[0].endswith("qsdata::basis") and fp[1].split("::")[1] in ("cstat", "rstat"):
                    m[(bid, idx)] = (loc, "call %s installs basis status arrays" % name)
        inv = fok_events(f, pidx, set())
        # wrappers: a call to another installer that is ok
        for (g, name, loc, args, bid, idx, c) in E.callinfo[f.key]:
            if g is not None and g.key in installers and g.key != f.key:
                inv.add((bid, idx))
        an = MustFollow(prog, f, m, inv).run()
        if an.bad:
            loc, (bid, st) = sorted(an.bad.items())[0]
            res.violations.append(Violation(rule, "%s|basis installed without factorok reset" % base(f.name), f.name, short_loc(loc),
                                            "installs a basis from outside and returns 0 with p->factorok unchanged (sibling installers reset it)",
                                            path=an.flow.witness(bid, st)))
        else:
            res.sample({"function": f.name, "verdict": "basis installer resets factorok"})
    res.floor("structure mutators found", len(cand), 20)
    res.floor("basis installers found", len(installers), 4)
    return res


CACHE_RELEASERS = {"free_cache", "ILLlp_cache_free"}


def run_gate(prog, E=None, prefix="mpq_", rule="R-GATE"):
    """accessors of the cached solution: public functions that neither allocate p->cache nor mutate the LP, and that
    dereference p->cache or hand it to a callee.  Each such use must be dominated by an edge establishing
    p->cache != NULL, or p->qstatus != QS_LP_MODIFIED (free_cache stores MODIFIED together with dropping the cache)."""
    E = E or Effects(prog)
    res = RuleResult(rule, "every public accessor that uses p->cache does so only after a test that fails the call when no "
                           "valid cached solution exists (p->cache == NULL, or p->qstatus == QS_LP_MODIFIED)")
    pred_cache = field_pred("qsdata::cache")
    n = 0
    skipped = []
    for f, pidx in api_functions(prog, prefix):
        producer = False
        for b, i, e in f.elements():
            if e[0] == "A":
                p = apath(e[1][2])
                fl = fields_of(p[2])
                if p[0] == "p%d" % pidx and len(fl) == 1 and fl[0].endswith("qsdata::cache") and const_of(e[1][3]) != 0:
                    producer = True
        if producer:
            skipped.append((base(f.name), "producer: allocates the cache itself"))
            continue
        if events(prog, E, f, pidx, D_SOL, prefix):
            skipped.append((base(f.name), "LP mutator: covered by R-INVAL"))
            continue
        targets = {}
        for b, i, e in f.elements():
            if e[0] == "C":
                cn = callee(e[1]) or ""
                if base(cn) in CACHE_RELEASERS:
                    continue
                for a in e[1][3]:
                    p = apath(a)
                    fl = fields_of(p[2])
                    if p[0] == "p%d" % pidx and len(fl) == 1 and fl[0].endswith("qsdata::cache") and len(p[2]) == 1:
                        targets[(b["id"], i)] = (e[2], "p->cache passed to %s" % cn)
            trees = [x[1] for x in e[1]] if e[0] == "D" else [e[1]]
            for t in trees:
                for nd in walk(t):
                    if nd[0] == "m" and nd[3] == 1:
                        bp = apath(nd[1])
                        fl = fields_of(bp[2])
                        if bp[0] == "p%d" % pidx and len(fl) == 1 and fl[0].endswith("qsdata::cache"):
                            targets.setdefault((b["id"], i), (e[2], "p->cache->%s" % nd[2].split("::")[1]))
        if not targets:
            continue
        n += 1
        st_cache = states_at(prog, f, set(targets), pred_cache)
        st_mod = _modified_gate(prog, f, set(targets))
        bad = []
        for k in targets:
            okc = st_cache[k] and st_cache[k] == {"nonzero"}
            okm = st_mod[k] and st_mod[k] == {"notmod"}
            if not (okc or okm):
                bad.append(targets[k])
        res.obligations += len(targets)
        res.nontrivial += len(targets)
        if bad:
            res.violations.append(Violation(rule, "%s|cached solution used without presence gate" % base(f.name), f.name, short_loc(bad[0][0]),
                                            "%s on a path that has established neither p->cache != NULL nor p->qstatus != QS_LP_MODIFIED "
                                            "(%d site%s): after an edit the accessor can serve stale solver state" % (bad[0][1], len(bad), "s" if len(bad) > 1 else "")))
        else:
            res.sample({"function": f.name, "uses": sorted(set(d for (_, d) in targets.values()))[:3], "verdict": "all uses gated"})
    res.counts["accessors_using_cache"] = n
    res.counts["skipped"] = ["%s (%s)" % x for x in skipped]
    res.floor("public accessors using p->cache", n, 10)
    return res


def _modified_gate(prog, f, targets):
    """states at targets: 'notmod' if an edge has established p->qstatus != QS_LP_MODIFIED"""
    seen = {t: set() for t in targets}
    pred = field_pred("qsdata::qstatus")

    def xfer(b, i, e, st):
        k = (b["id"], i)
        if k in seen:
            seen[k].add(st[0])
        if e[0] == "A" and pred(e[1][2]):
            return [("u",)]
        return None

    def refine(cond, truth, st):
        for l, op, r in atoms(cond, truth):
            for a, b_, o in ((l, r, op), (r, l, SWAP[op])):
                bs = strip(b_)
                if pred(a) and bs and bs[0] == "n" and bs[2] == "QS_LP_MODIFIED":
                    if o == "!=":
                        return [("notmod",)]
                    if o == "==":
                        return [("mod",)]
        return None

    Flow(prog, f, [("u",)], xfer, refine).run()
    return seen


def run_invalfn(prog, prefix="mpq_", rule="R-INVALFN"):
    res = RuleResult(rule, "the invalidation function stores QS_LP_MODIFIED into qstatus on every path and nulls the cache when present")
    cands = [f for f in prog.funcs.values() if f.name == "free_cache" and (prefix[:-1] + ".") in f.unit.replace("_" + prefix[:-1] + ".", "." + prefix[:-1] + ".")]
    cands = [f for f in prog.funcs.values() if f.name == "free_cache" and ("_" + prefix[:-1] + ".c") in f.unit]
    if not cands:
        raise AnalysisBroken("anchor function free_cache not found in the %s instantiation" % prefix)
    f = cands[0]

    # state: (status_stored, cache_state) cache_state in u/null/nonnull/freed
    def xfer(b, i, e, st):
        if e[0] == "A":
            fl = fields_of(apath(e[1][2])[2])
            rhs = strip(e[1][3])
            if fl and fl[-1].endswith("qsdata::qstatus") and len(fl) == 1:
                okv = rhs and rhs[0] == "n" and rhs[2] == "QS_LP_MODIFIED"
                return [(1 if okv else 0, st[1])]
            if fl and fl[-1].endswith("qsdata::cache") and len(fl) == 1 and const_of(rhs) == 0:
                return [(st[0], "nulled")]
        return None

    def refine(cond, truth, st):
        for l, op, r in atoms(cond, truth):
            for a, b_, o in ((l, r, op), (r, l, SWAP[op])):
                fl = fields_of(apath(a)[2])
                if fl and fl[-1].endswith("qsdata::cache") and len(fl) == 1 and const_of(b_) == 0 and st[1] in ("u",):
                    return [(st[0], "null" if o == "==" else "nonnull")]
        return None

    fl = Flow(prog, f, [(0, "u")], xfer, refine).run()
    res.obligations += 2
    res.nontrivial += 2
    ex = fl.exit_states
    res.counts["exit_states"] = sorted(str(x) for x in ex)
    if any(s[0] == 0 for s in ex):
        res.violations.append(Violation(rule, "free_cache|exit without qstatus = QS_LP_MODIFIED", f.name, short_loc(f.loc),
                                        "free_cache can return without storing QS_LP_MODIFIED into p->qstatus: after an edit the old status "
                                        "(e.g. INFEASIBLE/UNBOUNDED of the previous solve) keeps being served"))
    if any(s[1] in ("nonnull", "u") for s in ex):
        res.violations.append(Violation(rule, "free_cache|exit with cache still set", f.name, short_loc(f.loc),
                                        "free_cache can return with p->cache non-NULL"))
    if not res.violations:
        res.sample({"function": "free_cache", "exit_states": sorted(str(x) for x in ex), "verdict": "status reset and cache nulled on every path"})
    res.floor("exit states of free_cache", len(ex), 1)
    return res


COUPD_EXCEPT = {"transferRanges": "runs on the raw LP before ILLlp_add_logicals derives the logical columns' bounds *from* rangeval "
                                  "(presolve.c: upper[ncols] = rangeval[i])"}


def run_coupd(prog, E=None, prefix="mpq_", rule="R-COUPD"):
    """co-update of the two representations of a row range: ILLlpdata::rangeval[row] (served by the query API and the
    writers) and the upper bound of the row's logical column ILLlpdata::upper[rowmap[row]] (read by the solver)."""
    E = E or Effects(prog)
    res = RuleResult(rule, "every function that stores a new (non-zero, non-repacking) value into ILLlpdata::rangeval also writes "
                           "ILLlpdata::upper on every path to a success return")
    suffix_r = "ILLlpdata::rangeval"
    suffix_u = "ILLlpdata::upper"
    nsites = 0
    for f in sorted(prog.funcs.values(), key=lambda x: x.key):
        if not f.unit.startswith("qsopt_ex/") or "_dbl." in f.unit or "_mpf." in f.unit:
            continue
        rng_ev, upp_ev = {}, set()
        for b, i, e in f.elements():
            dst = src = None
            if e[0] == "C":
                cn = callee(e[1])
                if cn in ("mpq_set", "mpq_abs", "mpq_neg", "mpq_set_ui", "mpq_set_si", "mpq_sub", "mpq_add", "mpq_init", "mpq_set_d", "mpq_EGlpNumSet"):
                    dst = e[1][3][0]
                    src = e[1][3][1] if len(e[1][3]) > 1 else None
                    if cn == "mpq_init":
                        src = ["n", 0, ""]
            if dst is None:
                continue
            fl = fields_of(apath(dst)[2])
            if not fl:
                continue
            if fl[-1].endswith(suffix_u):
                upp_ev.add((b["id"], i))
            elif fl[-1].endswith(suffix_r):
                s_fl = fields_of(apath(src)[2]) if src is not None else ()
                if src is not None and const_of(src) == 0:
                    continue                      # zero: "no range"
                if s_fl and s_fl[-1].endswith(suffix_r):
                    continue                      # repacking rangeval[j] = rangeval[i]
                rng_ev[(b["id"], i)] = (e[2], show(e[1]))
        # callee that writes upper through its summary
        for ci in E.callinfo[f.key]:
            (g, name, loc, args, bid, idx, c) = ci
            if g is not None and any(fp and fp[-1].endswith(suffix_u) or any(x.endswith(suffix_u) for x in fp) for (k, fp) in E.W.get(g.key, ())):
                upp_ev.add((bid, idx))
        if not rng_ev:
            continue
        nsites += len(rng_ev)
        res.obligations += len(rng_ev)
        res.nontrivial += len(rng_ev)
        if f.name in COUPD_EXCEPT:
            res.excepted.append((f.name, COUPD_EXCEPT[f.name]))
            continue
        an = MustFollow2(prog, f, set(rng_ev), upp_ev).run()
        if an.bad:
            loc, (bid, st) = sorted(an.bad.items())[0]
            first = sorted(rng_ev.values())[0]
            res.violations.append(Violation(rule, "%s|rangeval stored without logical bound" % base(f.name), f.name, short_loc(first[0]),
                                            "%s stores a new range but a success return is reachable without any write to ILLlpdata::upper: "
                                            "the query API reports the new range while the solver still uses the old bound of the logical column" % first[1],
                                            path=an.flow.witness(bid, st)))
        else:
            res.sample({"function": f.name, "range_stores": [d for (_, d) in rng_ev.values()][:2], "verdict": "upper written on every success path"})
    res.counts["rangeval_store_sites"] = nsites
    res.floor("rangeval store sites", nsites, 2)
    return res


class MustFollow2(MustFollow):
    """co-update: the bit st[3] records 'the partner field has been written on this path' (before or after the
    store); violation = store seen (dirty) and partner never written at a success return"""

    def run(self):
        self.bad = {}
        partner = self.inv
        self.inv = set()     # the base class must not clear dirty

        def xf(b, i, e, st):
            out = MustFollow.xfer(self, b, i, e, st)
            if (b["id"], i) in partner:
                out = [(s[0], s[1], s[2], 1) for s in out]
            return out
        self.flow = Flow(self.prog, self.f, [(Z, Z, 0, 0)], xf, self.refine).run()
        return self


SENSE_EXCEPT = {
    "convert_rawlpdata_to_lpdata": "raw-LP conversion: the row senses are stored before ILLlp_add_logicals creates the logical columns from them",
    "transferRanges": "raw-LP conversion: marks ranged rows 'R' before ILLlp_add_logicals derives the logical columns",
    "transferSenseRhsRowNames": "raw-LP conversion: senses are stored before the logical columns exist (ILLlp_add_logicals derives them)",
}


def run_coupd_sense(prog, E=None, rule="R-COUPD"):
    """co-update of a row's sense with its logical column: the sense letter (query API, writers) and the logical column's lower bound,
    upper bound and coefficient (what the solver sees) are two representations of the same fact.  Every store of a new (non-repacking)
    value into ILLlpdata::sense is accompanied, on every path of the same loop iteration (or of the function) that completes, by a write
    to ILLlpdata::lower, to ILLlpdata::upper and to ILLmatrix::matval - directly or through a callee."""
    from .certdep import natural_loops
    E = E or Effects(prog)
    res = RuleResult(rule + "(sense)", "every path that stores a new row sense also writes the logical column's lower bound, upper bound and "
                                      "coefficient before the iteration / the function completes")
    partners = ("ILLlpdata::lower", "ILLlpdata::upper", "ILLmatrix::matval", "ILLlpdata::rangeval")
    nsites = 0
    n_append = [0]

    def dim_of_expr(f, ix):
        """'nrows' when the index expression is the row count itself (field, or a local assigned from it and nothing else)"""
        if isinstance(ix, list) and ix and ix[0] == "m":
            return ix[2].split("::")[1]
        if is_var(ix, kind="l"):
            srcs = set()
            for b2, i2, e2 in f.elements():
                if e2[0] == "A" and e2[1][1] == "=" and is_var(e2[1][2], name=ix[2]):
                    r = strip(e2[1][3])
                    srcs.add(r[2].split("::")[1] if isinstance(r, list) and r and r[0] == "m" else "?")
                elif e2[0] == "D":
                    for n2, init in e2[1]:
                        if n2 == ix[2] and init is not None:
                            r = strip(init)
                            srcs.add(r[2].split("::")[1] if isinstance(r, list) and r and r[0] == "m" else "?")
                elif e2[0] == "U" and is_var(e2[1][2], name=ix[2]):
                    srcs.add("?")
            if len(srcs) == 1:
                return list(srcs)[0]
        return None
    for f in sorted(prog.funcs.values(), key=lambda x: x.key):
        if not f.unit.startswith("qsopt_ex/") or "_dbl." in f.unit or "_mpf." in f.unit or f.live is None:
            continue
        stores = []
        wr = {p: set() for p in partners}
        for b, i, e in f.elements():
            dst = None
            if e[0] == "A" and e[1][1] == "=":
                fl = fields_of(apath(e[1][2])[2])
                if fl and fl[-1].endswith("ILLlpdata::sense") and "[]" in apath(e[1][2])[2]:
                    sfl = fields_of(apath(e[1][3])[2])
                    lhs = strip(e[1][2])
                    ix = strip(lhs[2]) if isinstance(lhs, list) and lhs and lhs[0] == "i" else None
                    appended = ix is not None and (dim_of_expr(f, ix) == "nrows")
                    if appended:
                        n_append[0] += 1          # the append slot of a new row: its logical column is created with it (R-APPENDINIT)
                    elif not (sfl and sfl[-1].endswith("ILLlpdata::sense")):        # repacking sense[j] = sense[i]
                        stores.append((b["id"], e[2], show(e[1])))
                dst = e[1][2]
            elif e[0] == "C" and e[1][3] and (callee(e[1]) or "").startswith(("mpq_", "mpz_")):
                dst = e[1][3][0]
            if dst is not None:
                fl = fields_of(apath(dst)[2])
                for p in partners:
                    if fl and fl[-1].endswith(p):
                        wr[p].add(b["id"])
        if not stores:
            continue
        for (g, name, loc, args, bid, idx, c) in E.callinfo[f.key]:
            if g is None:
                continue
            for (k, fp) in E.W.get(g.key, ()):
                for p in partners:
                    if fp and fp[-1].endswith(p):
                        wr[p].add(bid)
        # the range array is optional: `if (lp->rangeval) Zero (lp->rangeval[row])` - the test block counts when its taken branch writes
        # the entry (no array means every range is zero)
        for bid in f.live:
            c = f.blocks[bid].get("c")
            if c is None:
                continue
            c0 = strip(c)
            if isinstance(c0, list) and c0 and c0[0] == "m" and c0[2].endswith("ILLlpdata::rangeval"):
                ss = prog.live_succs(f, f.blocks[bid])
                if ss and ss[0] in wr["ILLlpdata::rangeval"]:
                    wr["ILLlpdata::rangeval"].add(bid)
        nsites += len(stores)
        if f.name in SENSE_EXCEPT:
            res.obligations += len(stores)
            res.excepted.append((f.name, SENSE_EXCEPT[f.name]))
            continue
        loops, dom, succ = natural_loops(prog, f)
        for (wb, loc, txt) in stores:
            inner = sorted((h for h in loops if wb in loops[h]), key=lambda h: len(loops[h]))
            region = loops[inner[0]] if inner else set(f.live)
            head = inner[0] if inner else None
            starts = [s for s in succ.get(head, ()) if s in region and s != head] if inner else [f.entry]
            for p in partners:
                res.obligations += 1
                res.nontrivial += 1
                S = wr[p]
                if wb in S:
                    continue

                def reach(srcs, goal):
                    seen, wl = set(x for x in srcs if x not in S), [x for x in srcs if x not in S]
                    while wl:
                        x = wl.pop()
                        if goal(x):
                            return True
                        for s in succ.get(x, ()):
                            if inner and s == head:
                                if goal("HEAD"):
                                    return True
                                continue
                            if s in seen or s in S:
                                continue
                            if inner and s not in region:
                                # leaving the loop: counts as completing only when a return can still be reached (it always can)
                                if goal("OUT"):
                                    return True
                                continue
                            seen.add(s)
                            wl.append(s)
                    return False
                before = reach(starts, lambda x: x == wb)
                if inner:
                    after = reach(list(succ.get(wb, ())) if wb not in S else [], lambda x: x in ("HEAD", "OUT")) or any(s == head for s in succ.get(wb, ()))
                else:
                    after = reach(list(succ.get(wb, ())), lambda x: x == f.exit)
                if before and after:
                    res.violations.append(Violation(rule, "%s|sense stored without %s of the logical column" % (base(f.name), p.split("::")[1]), f.name, short_loc(loc),
                                                    "%s stores a new row sense, and the %s can complete on a path that never writes %s: the query API and the "
                                                    "writers report the new sense while the solver still sees the logical column of the old one" % (
                                                        txt, "loop iteration" if inner else "function", p)))
                else:
                    res.sample({"function": f.name, "store": txt, "partner": p, "verdict": "written on every completing path"}, limit=6)
    res.counts["sense_store_sites"] = nsites
    res.counts["append_slot_stores_left_to_R-APPENDINIT"] = n_append[0]
    res.floor("sense store sites", nsites, 4)
    return res


def run_skipgate(prog, prefix="mpq_", rule="R-SKIPGATE"):
    """The solve entry points may answer from the cache instead of calling opt_work.  That short cut must be conditioned on everything
    the edit functions use to announce that the cached answer is stale: the cache itself (free_cache), the basis, and factorok (reset by
    every function that installs another basis or edits the matrix - R-FOK).  A short cut that ignores factorok (QSopt_primal on the
    pinned tree) answers with the solution of the previous basis after QSload_basis / QSread_and_load_basis."""
    from ..core import dominators
    res = RuleResult(rule, "a solve entry point returns without calling opt_work only under tests of p->basis, p->cache and p->factorok")
    need = {"basis", "cache", "factorok"}
    n = 0
    for f in sorted(prog.funcs.values(), key=lambda x: x.key):
        if f.static or f.live is None or not f.name.startswith(prefix + "QSopt_"):
            continue
        work = [b["id"] for b, i, c in f.calls() if callee(c) == "opt_work"]
        if not work:
            continue
        n += 1
        res.obligations += 1
        res.nontrivial += 1
        dom, succ = dominators(prog, f)
        # blocks from which the exit is reachable without passing an opt_work block, and which are not dominated by one
        tested_on_skip = None
        # fields tested in conditions from which BOTH an opt_work block and a path avoiding every opt_work block are reachable
        def reach_avoiding(src, avoid):
            seen, wl = {src}, [src]
            while wl:
                x = wl.pop()
                if x == f.exit:
                    return True
                for s in succ.get(x, ()):
                    if s not in seen and s not in avoid:
                        seen.add(s)
                        wl.append(s)
            return False
        if not reach_avoiding(f.entry, set(work)):
            res.sample({"function": f.name, "verdict": "opt_work is called on every path"}, limit=6)
            continue
        fields = set()
        for bid in f.live:
            b = f.blocks[bid]
            c = b.get("c")
            if c is None or bid in work:
                continue
            ss = [s for s in succ.get(bid, ())]
            if len(ss) != 2:
                continue
            # a deciding condition: one side must reach opt_work, the other can avoid it
            def reaches_work(src):
                seen, wl = {src}, [src]
                while wl:
                    x = wl.pop()
                    if x in work:
                        return True
                    for s in succ.get(x, ()):
                        if s not in seen:
                            seen.add(s)
                            wl.append(s)
                return False
            sides = [(reaches_work(s), reach_avoiding(s, set(work))) for s in ss]
            if any(r for r, a in sides) and any(a for r, a in sides):
                for nd in walk(c):
                    if nd[0] == "m" and nd[2].split("::")[0].endswith("qsdata"):
                        fields.add(nd[2].split("::")[1])
        missing = sorted(need - fields)
        if missing:
            res.violations.append(Violation(rule, "%s|answers from the cache without testing %s" % (base(f.name), ",".join(missing)), f.name, short_loc(f.loc),
                                            "%s can return without calling opt_work, and the decision tests %s but not p->%s: after an edit or a basis load that "
                                            "announces itself through that field the cached answer of the previous solve is returned" % (
                                                f.name, ", ".join("p->" + x for x in sorted(fields)) or "nothing", ", p->".join(missing))))
        else:
            res.sample({"function": f.name, "verdict": "short cut conditioned on " + ", ".join(sorted(fields))}, limit=6)
    res.counts["solve_entry_points"] = n
    res.floor("solve entry points calling opt_work", n, 2)
    return res


def run_pricedim(prog, E=None, prefix="mpq_", rule="R-PRICEDIM"):
    """the devex part of the pricing record (weights and reference frames, laid out for the numbers of rows and columns they were built
    with) does not survive a change of those numbers: every public function that may change ILLlpdata::nrows / ncols / nstruct returns
    successfully only after it has reset p->factorok (the next solve then rebuilds all pricing data) or released the reference frames
    (a callee whose effects include *_devex_info::refframe of p->pricing).  QSadd_col on the pinned tree kept both: the next dual solve
    with devex pricing indexed the old frame with the new column."""
    E = E or Effects(prog)
    res = RuleResult(rule, "every public function that may change the number of rows or columns resets factorok or releases the devex reference frames "
                           "on every path to a success return")
    n = 0
    for f, pidx in api_functions(prog, prefix):
        m = events(prog, E, f, pidx, {"nrows", "ncols", "nstruct"}, prefix)
        if not m:
            continue
        if base(f.name) in EXEMPT:
            continue
        inv = set()
        for ci in E.callinfo[f.key]:
            (g, name, loc, args, bid, idx, c) = ci
            for (j, fp) in E.call_writes(f, ci):
                if j == pidx and fp and fp[-1].endswith("devex_info::refframe"):
                    inv.add((bid, idx))
        for (j, fp, loc, how, bid, idx) in E.direct_writes(f):
            if j == pidx and fp and fp[-1].endswith("qsdata::factorok"):
                e = f.blocks[bid]["e"][idx]
                if e[0] == "A" and const_of(e[1][3]) == 0:
                    inv.add((bid, idx))
        # a callee that is itself a checked public mutator (QSadd_row -> QSadd_rows) carries the obligation
        for ci in E.callinfo[f.key]:
            (g, name, loc, args, bid, idx, c) = ci
            if g is not None and (bid, idx) in m and any(g.key == f2.key for f2, _ in api_functions(prog, prefix)):
                inv.add((bid, idx))
        n += 1
        an = MustFollow(prog, f, m, inv).run()
        res.obligations += len(m)
        res.nontrivial += len(m)
        if an.bad:
            loc, (bid, st) = sorted(an.bad.items())[0]
            res.violations.append(Violation(rule, "%s|row / column count changed, factorok and devex data kept" % base(f.name), f.name, short_loc(loc),
                                            "%s can return 0 after a call that changes the number of rows or columns with p->factorok still set and the devex weights / "
                                            "reference frames of p->pricing still in place: the next dual solve keeps the pricing record and indexes arrays of the old "
                                            "dimensions" % f.name, path=an.flow.witness(bid, st)))
        else:
            res.sample({"function": f.name, "dimension_changing_events": len(m), "verdict": "factorok reset or devex data released on every success path"}, limit=12)
    res.counts["dimension_changing_public_functions"] = n
    res.floor("public functions that may change the row / column count", n, 8)
    # the same for every array of the pricing sub-records that is laid out in a column dimension: not only the devex frames - the primal
    # steepest-edge norms (one per non-basic column) are kept by a dual re-solve as well
    arrays = pricing_arrays(prog, prefix)
    colarr = sorted(a for a, d in arrays.items() if d & {"ncols", "nnbasic", "nstruct"})
    res.counts["pricing_arrays_by_dimension"] = {a: sorted(d) for a, d in sorted(arrays.items())}
    res.floor("arrays of the pricing sub-records allocated in a column dimension", len(colarr), 4)
    for f, pidx in api_functions(prog, prefix):
        m_all = events(prog, E, f, pidx, {"ncols", "nstruct"}, prefix)
        if not m_all or base(f.name) in EXEMPT:
            continue
        # one entry per non-basic column: the count changes with the structural columns only (a new row brings its own basic logical)
        m_nnb = events(prog, E, f, pidx, {"nstruct"}, prefix)
        common = set()
        for (j, fp, loc, how, bid, idx) in E.direct_writes(f):
            if j == pidx and fp and fp[-1].endswith("qsdata::factorok"):
                e = f.blocks[bid]["e"][idx]
                if e[0] == "A" and const_of(e[1][3]) == 0:
                    common.add((bid, idx))
        for ci in E.callinfo[f.key]:
            (g, name, loc, args, bid, idx, c) = ci
            if g is not None and (bid, idx) in m_all and any(g.key == f2.key for f2, _ in api_functions(prog, prefix)):
                common.add((bid, idx))
        for arr in colarr:
            m = m_all if arrays[arr] & {"ncols"} else m_nnb
            if not m:
                continue
            inv = set(common)
            for ci in E.callinfo[f.key]:
                (g, name, loc, args, bid, idx, c) = ci
                for (j, fp) in E.call_writes(f, ci):
                    if j == pidx and fp and fp[-1].endswith(arr):
                        inv.add((bid, idx))
            for (j, fp, loc, how, bid, idx) in E.direct_writes(f):
                if j == pidx and fp and fp[-1].endswith(arr):
                    inv.add((bid, idx))
            an = MustFollow(prog, f, m, inv).run()
            res.obligations += len(m)
            res.nontrivial += len(m)
            if an.bad:
                loc, (bid, st) = sorted(an.bad.items())[0]
                res.violations.append(Violation(rule, "%s|column count changed, factorok and %s kept" % (base(f.name), arr), f.name, short_loc(loc),
                                                "%s can return 0 after a call that changes the number of columns with p->factorok still set and the array %s of p->pricing "
                                                "(allocated with %s entries) still in place: a dual re-solve keeps the pricing record, and the array is then indexed "
                                                "with the new column numbers" % (f.name, arr, "/".join(sorted(arrays[arr]))), path=an.flow.witness(bid, st)))
    return res


def _line_of(e):
    loc = e[2] if len(e) > 2 and isinstance(e[2], str) else ""
    parts = loc.split(":")
    return ":".join(parts[:2]) if len(parts) >= 2 else None


def pricing_arrays(prog, prefix="mpq_"):
    """{record::field: {dimension names}} for the pointer fields of the pricing sub-records (*_steep_info, *_devex_info): the dimensions of
    lpinfo that occur in the allocation of the field - the allocation macros expand at one source position, so the length expression is
    found among the elements that share the position of the store into the field"""
    out = {}
    for f in prog.funcs.values():
        if f.live is None or not f.name.startswith(prefix):
            continue
        byloc = {}
        stores = []
        for b, i, e in f.elements(live_only=True):
            byloc.setdefault(_line_of(e), []).append(e)
            if e[0] == "A" and e[1][1] == "=":
                fl = fields_of(apath(e[1][2])[2])
                if fl and fl[-1].split("::")[0].endswith(("steep_info", "devex_info")) and const_of(e[1][3]) is None:
                    stores.append((fl[-1].replace(prefix, ""), e))
        for fld, e in stores:
            dims = set()
            for e2 in byloc.get(_line_of(e), []):
                roots = [init for _n, init in e2[1] if init is not None] if e2[0] == "D" else [e2[1]]
                for nd in (x for r in roots for x in walk(r)):
                    if isinstance(nd, list) and nd and nd[0] == "m" and isinstance(nd[2], str) and nd[2].replace(prefix, "").startswith("lpinfo::"):
                        d = nd[2].split("::")[1]
                        if d in ("nrows", "ncols", "nnbasic", "nstruct"):
                            dims.add(d)
            if dims:
                out.setdefault(fld, set()).update(dims)
    return out


class MustFollowFail(MustFollow):
    """as MustFollow, and: after a mutation event of `partial` (a callee that may have written LP data before it rejects its arguments)
    a failing return with the cache still in place is bad as well"""

    def __init__(self, prog, f, mut, inv, partial):
        MustFollow.__init__(self, prog, f, mut, inv)
        self.partial = partial

    def xfer(self, b, i, e, st):
        out = MustFollow.xfer(self, b, i, e, st)
        key = (b["id"], i)
        if key in self.partial:
            out = [(s[0], s[1], 2, s[3]) for s in out]          # 2: dirty on success and on failure
        if e[0] == "R" and st[2] == 2 and not st[3]:
            self.bad.setdefault(e[2], (b["id"], st))
        return out

    def _saved_count(self, a, b_):
        """a is a count field of the problem, b_ a local whose only assignment copies that field (the count saved before the batch call)"""
        a0, b0 = strip(a), strip(b_)
        if not (isinstance(a0, list) and a0 and a0[0] == "m" and a0[2].split("::")[1] in ("nrows", "ncols", "nstruct") and is_var(b0, kind="l")):
            return False
        srcs = []
        for bb, ii, ee in self.f.elements(live_only=False):
            if ee[0] == "A" and is_var(ee[1][2], name=b0[2], kind="l"):
                srcs.append(ee[1][3] if ee[1][1] == "=" else None)
            elif ee[0] == "D":
                srcs += [init for n2, init in ee[1] if n2 == b0[2] and init is not None]
            elif ee[0] == "U" and is_var(ee[1][2], name=b0[2], kind="l"):
                srcs.append(None)
        if len(srcs) != 1 or srcs[0] is None:
            return False
        r0 = strip(srcs[0])
        return isinstance(r0, list) and r0 and r0[0] == "m" and r0[2] == a0[2]

    def refine(self, cond, truth, st):
        r = MustFollow.refine(self, cond, truth, st)
        if not r:
            return r
        out = []
        for s in r:
            if s[2] == 2:
                for l, op, rr in atoms(cond, truth):
                    for a, b_, o in ((l, rr, op), (rr, l, SWAP[op])):
                        if o == "==" and self._saved_count(a, b_):
                            # the count is what it was before the batch call: nothing of the batch went in, the failing return is that of
                            # a call rejected as a whole (which must leave the cache alone, R-ATOMIC)
                            s = (s[0], s[1], 1, s[3])
            out.append(s)
        return out


def run_failpath(prog, E=None, prefix="mpq_", rule="R-INVALPART"):
    """callees that apply a batch element by element can fail after having changed the problem (the known findings of R-ATOMIC name them:
    ILLlib_addrows, ILLlib_addcols).  A public function that calls one of them must drop the cached solution on the failure path as well:
    the problem is no longer the one the cache belongs to."""
    import json, os
    E = E or Effects(prog)
    res = RuleResult(rule, "a public function that calls a batch routine which can fail half-way drops the cached solution on every path behind the call, "
                           "failing ones included")
    kf = os.path.join(os.path.dirname(os.path.dirname(os.path.dirname(os.path.abspath(__file__)))), "known_findings.json")
    partial_names = set()
    try:
        for fd in json.load(open(kf)).get("findings", []):
            if fd.get("rule") == "R-ATOMIC" and "|ILLlib_" in fd.get("key", "") and fd["key"].split("|")[0] in ("ILLlib_addrows", "ILLlib_addcols"):
                partial_names.add(fd["key"].split("|")[0])
    except Exception:
        pass
    partial_names |= {"ILLlib_addrows", "ILLlib_addcols"}
    res.counts["batch_routines_that_can_fail_half_way"] = sorted(partial_names)
    n = 0
    for f, pidx in api_functions(prog, prefix):
        m = events(prog, E, f, pidx, D_SOL, prefix)
        part = set()
        for ci in E.callinfo[f.key]:
            (g, name, loc, args, bid, idx, c) = ci
            if g is not None and base(g.name) in partial_names and (bid, idx) in m:
                part.add((bid, idx))
        if not part:
            continue
        inv = set()
        for b, i, c in f.calls():
            if base(callee(c) or "") in invalidator_names(prog):
                inv.add((b["id"], i))
        n += 1
        res.obligations += len(part)
        res.nontrivial += len(part)
        an = MustFollowFail(prog, f, m, inv, part).run()
        if an.bad:
            loc, (bid, st) = sorted(an.bad.items())[0]
            res.violations.append(Violation(rule, "%s|return behind a half-applied batch with the cache in place" % base(f.name), f.name, short_loc(loc),
                                            "%s can return (with an error code) after its batch routine has already applied part of the batch, without free_cache(p): the "
                                            "cached solution and status of the old problem keep being served" % f.name, path=an.flow.witness(bid, st)))
        else:
            res.sample({"function": f.name, "verdict": "cache dropped on every path behind the batch call"}, limit=8)
    res.counts["public_callers_of_batch_routines"] = n
    res.floor("public callers of batch routines", n, 3)
    return res


def run_normstale(prog, E=None, prefix="mpq_", rule="R-NORMSTALE", floor=3):
    """the steepest-edge norms stored with the problem's basis are weights of the rows / columns of the inverse of the *current* basis
    matrix.  A public function that may write the entries of the constraint matrix without changing a dimension (effect summaries: a
    write of ILLlpdata::A through the problem parameter, none of nrows / ncols / nstruct) must, on every path from that write to a success return, pass an event that deals with both norm arrays of
    p->basis: a release / store into ILLlp_basis::rownorms and ::colnorms through p->basis (directly, by a helper, or inside a library
    routine that extends or drops them).  A coefficient or sense change that leaves them alone makes the next warm dual solve load the
    weights of another matrix; the exact weight recurrence then leaves the positive range and the pricing divides by a zero weight."""
    E = E or Effects(prog)
    res = RuleResult(rule, "every public function that may write the entries of the constraint matrix deals with both edge-norm arrays of p->basis "
                           "on every path from the write to a success return")
    n = 0
    for f, pidx in api_functions(prog, prefix):
        if f.live is None:
            continue
        mut = events(prog, E, f, pidx, {"A"}, prefix)
        if not mut:
            continue
        # functions that change a dimension extend / repack the norm arrays with the basis (R-NORMLEN, R-PRICEDIM are in charge of those);
        # here: changes of entries of the matrix as it stands (a coefficient, the sign of a logical column)
        if events(prog, E, f, pidx, {"nrows", "ncols", "nstruct"}, prefix):
            continue
        bname = base(f.name)
        if bname in ("QSfree_prob",):
            continue
        n += 1
        res.obligations += 1
        res.nontrivial += 1
        missing = []
        for fld in ("rownorms", "colnorms"):
            inv = set()
            for ci in E.callinfo[f.key]:
                (g, name, loc, args, bid, idx, c) = ci
                if g is None:
                    continue
                if any(fp and fp[-1].endswith("ILLlp_basis::" + fld) for (j, fp) in E.call_writes(f, ci)):
                    inv.add((bid, idx))
                elif g.key in getattr(prog, "_normstale_ok", set()):
                    inv.add((bid, idx))
            for (j, fp, loc, how, bid, idx) in E.direct_writes(f):
                if fp and fp[-1].endswith("ILLlp_basis::" + fld):
                    inv.add((bid, idx))
            # replacing / dropping the whole basis record deals with its norms too
            for (j, fp, loc, how, bid, idx) in E.direct_writes(f):
                if j == pidx and len(fp) == 1 and fp[0].endswith("qsdata::basis"):
                    inv.add((bid, idx))
            an = MustFollow(prog, f, mut, inv).run()
            if an.bad:
                loc, (bid, st) = sorted(an.bad.items())[0]
                missing.append((fld, loc, an.flow.witness(bid, st)))
        if missing:
            what = sorted(set(d for (_, d) in mut.values()))
            res.violations.append(Violation(rule, "%s|matrix written, %s kept" % (bname, " and ".join(m[0] for m in missing)), f.name, short_loc(missing[0][1]),
                                            "%s; a return with code 0 is reachable on which %s of p->basis has been neither released nor rewritten: the next warm "
                                            "solve loads the edge weights of the old matrix" % ("; ".join(what[:2]), " / ".join(m[0] for m in missing)),
                                            path=missing[0][2]))
        else:
            prog.__dict__.setdefault("_normstale_ok", set()).add(f.key)
            res.sample({"function": f.name, "verdict": "both norm arrays dealt with on every success path"}, limit=10)
    res.counts["public_matrix_writers"] = n
    res.floor("public functions that may write matrix entries without changing a dimension", n, floor)
    return res


class MustFollowLook(MustFollow):
    """as MustFollow; a condition that examines the given field of the problem (p->basis) counts as dealing with what hangs on it: the
    code behind it runs only where there is something to deal with"""

    def __init__(self, prog, f, mut, inv, field):
        MustFollow.__init__(self, prog, f, mut, inv)
        self.field = field

    def refine(self, cond, truth, st):
        r = MustFollow.refine(self, cond, truth, st)
        if not r:
            return r
        if any(isinstance(nd, list) and nd and nd[0] == "m" and nd[2].endswith(self.field) for nd in walk(cond)):
            return [(s_[0], s_[1], 0, s_[3]) for s_ in r]
        return r


def run_rstatsense(prog, E=None, prefix="mpq_", rule="R-RSTATSENSE", floor=3):
    """the row statuses kept with the problem's basis depend on the row senses: QS_ROW_BSTAT_UPPER is a status of ranged rows only
    (ILLbasis_load rejects it for any other sense).  A public function that may store into ILLlpdata::sense must, on every path from
    that store to a success return, pass an event that deals with the row statuses of p->basis (a store into ILLlp_basis::rstat through
    p->basis - directly, in a helper, or inside the library routine that extends / repacks the basis - or the replacement of the basis
    record).  Otherwise a row that leaves 'R' while its logical is non-basic at upper keeps a status the next solve cannot load: every
    later QSopt_primal / dual fails until the caller replaces the basis."""
    E = E or Effects(prog)
    res = RuleResult(rule, "every public function that may change a row sense deals with the row statuses of p->basis on every path from the change "
                           "to a success return")
    n = 0
    for f, pidx in api_functions(prog, prefix):
        if f.live is None:
            continue
        mut = events(prog, E, f, pidx, {"sense"}, prefix)
        if not mut:
            continue
        bname = base(f.name)
        if bname in ("QSfree_prob",):
            continue
        n += 1
        res.obligations += 1
        res.nontrivial += 1
        inv = set()
        for ci in E.callinfo[f.key]:
            (g, name, loc, args, bid, idx, c) = ci
            if g is None:
                continue
            if any(fp and fp[-1].endswith("ILLlp_basis::rstat") for (j, fp) in E.call_writes(f, ci)):
                inv.add((bid, idx))
            elif g.key in getattr(prog, "_rstatsense_ok", set()):
                inv.add((bid, idx))
        for (j, fp, loc, how, bid, idx) in E.direct_writes(f):
            if fp and fp[-1].endswith("ILLlp_basis::rstat"):
                inv.add((bid, idx))
            if j == pidx and len(fp) == 1 and fp[0].endswith("qsdata::basis"):
                inv.add((bid, idx))
        # the normalisation sits behind `if (p->basis && p->basis->rstat)`: only functions that contain a store into the row statuses (or hand
        # the basis to a routine that does) can be discharged by looking at the basis
        an = (MustFollowLook(prog, f, mut, inv, "qsdata::basis") if inv else MustFollow(prog, f, mut, inv)).run()
        if an.bad:
            loc, (bid, st) = sorted(an.bad.items())[0]
            what = sorted(set(d for (_, d) in mut.values()))
            res.violations.append(Violation(rule, "%s|sense written, row statuses of the basis left alone" % bname, f.name, short_loc(loc),
                                            "%s; a return with code 0 is reachable on which the rstat of p->basis has been neither rewritten nor dropped: a row that "
                                            "left 'R' keeps the status UPPER, which ILLbasis_load rejects for its new sense" % "; ".join(what[:2]),
                                            path=an.flow.witness(bid, st)))
        else:
            prog.__dict__.setdefault("_rstatsense_ok", set()).add(f.key)
            res.sample({"function": f.name, "verdict": "row statuses dealt with on every success path"}, limit=10)
    res.counts["public_sense_writers"] = n
    res.floor("public functions that may store a row sense", n, floor)
    return res


def run_basiscache(prog, E=None, prefix="mpq_", rule="R-BASISCACHE"):
    """the stored solution belongs to the stored basis.  QSopt_primal / QSopt_dual answer from the cache without solving when the problem has
    a basis, a cached solution and a current factorization.  A public function that may write the statuses of p->basis (ILLlp_basis::cstat /
    rstat, through its own stores or a callee's) therefore returns successfully only after one of: p->factorok = 0 (the next solve starts
    from the new basis), an invalidation of the cache (free_cache or a helper that wraps it), or a call that stores a new solution for the
    new basis (QSgrab_cache).  QSopt_pivotin_row / _col replaced the basis by forced pivots and kept all three: the next solve was skipped
    and OPTIMAL was answered with a basis that is not dual feasible."""
    E = E or Effects(prog)
    res = RuleResult(rule, "every public function that may write the statuses of p->basis resets factorok, drops the cached solution or stores a new one on "
                           "every path to a success return")
    n = 0
    invs = invalidator_names(prog)
    ex = prog.fn(prefix + "ILLfct_update_basis_info")
    if ex is None:
        raise AnalysisBroken("R-BASISCACHE: the basis exchange routine %sILLfct_update_basis_info was not found" % prefix)
    exch = ex.key
    apikeys = {f2.key for f2, _ in api_functions(prog, prefix)}
    rc = {}

    def reach_of(g):
        if g.key not in rc:
            rc[g.key] = set(prog.reachable([g.key]))
        return rc[g.key]
    for f, pidx in api_functions(prog, prefix):
        if f.live is None or base(f.name) in EXEMPT:
            continue
        m = {}
        for ci in E.callinfo[f.key]:
            (g, name, loc, args, bid, idx, c) = ci
            if name and base(name).endswith("grab_basis"):
                continue              # copies the statuses of the simplex into p->basis: a change only if the simplex basis was changed (below)
            for (j, fp) in E.call_writes(f, ci):
                if j == pidx and len(fp) >= 2 and fp[0].endswith("qsdata::basis") and fp[-1].split("::")[0].endswith("ILLlp_basis") \
                        and fp[-1].split("::")[1] in ("cstat", "rstat"):
                    m[(bid, idx)] = (loc, "call %s writes the basis statuses" % (name or "(*fp)"))
            if g is not None and g.key not in apikeys and g.live is not None and any(prog.resolve(g, c2[1]) is not None and prog.resolve(g, c2[1]).key == exch
                                                                                         for _b, _i, c2 in g.calls() if c2[1]) \
                    and any(a[0] == "p%d" % pidx for a in args if a):
                m[(bid, idx)] = (loc, "call %s can exchange basic and non-basic variables" % (name or "(*fp)"))
        for (j, fp, loc, how, bid, idx) in E.direct_writes(f):
            if j == pidx and len(fp) >= 2 and fp[0].endswith("qsdata::basis") and fp[-1].split("::")[1] in ("cstat", "rstat"):
                m[(bid, idx)] = (loc, "direct write of the basis statuses")
        if not m:
            continue
        inv = set()
        for ci in E.callinfo[f.key]:
            (g, name, loc, args, bid, idx, c) = ci
            if name and (base(name) in invs or base(name).endswith("QSgrab_cache")) and args and args[0][0] == "p%d" % pidx:
                inv.add((bid, idx))
            # a callee that may set the problem's status word stores the status of what it has just computed (opt_work, the exact tests)
            if any(j == pidx and fp and fp[-1].endswith("qsdata::qstatus") for (j, fp) in E.call_writes(f, ci)):
                inv.add((bid, idx))
            # a public callee that is itself checked by this rule carries the obligation (wrappers)
            if g is not None and (bid, idx) in m and any(g.key == f2.key for f2, _ in api_functions(prog, prefix)):
                inv.add((bid, idx))
        for (j, fp, loc, how, bid, idx) in E.direct_writes(f):
            if j == pidx and fp and fp[-1].endswith("qsdata::factorok"):
                e = f.blocks[bid]["e"][idx]
                if e[0] == "A" and const_of(e[1][3]) == 0:
                    inv.add((bid, idx))
            if j == pidx and len(fp) == 1 and fp[0].endswith(("qsdata::cache", "qsdata::qstatus")):
                inv.add((bid, idx))          # the cache dropped / the status word set in place (the exact verdict functions)
        # a status write behind an invalidation happens with the cache already gone (nothing but QSgrab_cache, itself counted, stores one)
        from ..core import dominators as _doms
        dom_ = _doms(prog, f)[0]
        m = {k: v for k, v in m.items() if not any((b2 == k[0] and i2 < k[1]) or (b2 != k[0] and b2 in dom_.get(k[0], ())) for (b2, i2) in inv)}
        if not m:
            res.sample({"function": f.name, "verdict": "every basis write lies behind an invalidation"}, limit=14)
            n += 1
            res.obligations += 1
            res.nontrivial += 1
            continue
        n += 1
        an = MustFollow(prog, f, m, inv).run()
        res.obligations += len(m)
        res.nontrivial += len(m)
        if an.bad:
            loc, (bid, st) = sorted(an.bad.items())[0]
            res.violations.append(Violation(rule, "%s|basis statuses replaced, factorok and the cached solution kept" % base(f.name), f.name, short_loc(loc),
                                            "%s can return 0 after %s with p->factorok still set and the cached solution still in place: QSopt_primal / QSopt_dual "
                                            "then answer from the cache without solving, for a basis the solution does not belong to" % (
                                                f.name, sorted(m.values())[0][1]), path=an.flow.witness(bid, st)))
        else:
            res.sample({"function": f.name, "basis_writing_events": len(m), "verdict": "factorok reset / cache dropped / new solution stored on every success path"}, limit=14)
    res.counts["public_functions_writing_the_basis_statuses"] = n
    res.floor("public functions that may write the statuses of p->basis", n, 10)
    return res
