"""R-BASISDIM (C07, C17): a basis record handed in by the caller is used with the problem only after its two counts were compared with
the problem's.

A QSbasis carries its own nstruct / nrows and two status arrays of those lengths.  Every library routine that works on it together
with a problem (installing it, writing it to a file with the problem's names) walks the arrays with the *problem's* counts.  For every
public function with a QSbasis* parameter (and, transitively, every function it hands the parameter to) one of the following must
hold for each call that passes the record on: the call is dominated by tests that mention both qsbasis::nstruct and qsbasis::nrows of
that parameter on a rejecting branch, or the callee itself is such a validating function for the parameter.  Functions that only
release or fill the record (no problem involved: the destructor, the converters' own cardinality check) are not consumers: a consumer
is a function that also receives the problem (a QSdata* / lpinfo* argument in the same call)."""
import collections

from ..core import walk, strip, is_var, callee, const_of, show, short_loc, dominators
from ..result import RuleResult, Violation
from .inval import api_functions


def _mentions_counts(f, pname):
    """blocks whose condition compares <pname>->nstruct / ->nrows: {block: set(fields)}"""
    out = collections.defaultdict(set)
    for bid in f.live:
        c = f.blocks[bid].get("c")
        if c is None:
            continue
        for nd in walk(c):
            if isinstance(nd, list) and nd and nd[0] == "m" and nd[2] in ("qsbasis::nstruct", "qsbasis::nrows") and is_var(nd[1], name=pname):
                out[bid].add(nd[2])
    return out


def run(prog, prefix="mpq_", rule="R-BASISDIM"):
    res = RuleResult(rule, "a caller's QSbasis reaches a routine that walks it with the problem's counts only after both of its counts were compared "
                           "with the problem's")
    funcs = [f for f in prog.funcs.values() if f.live is not None and "_dbl." not in f.unit and "_mpf." not in f.unit
             and f.unit.startswith("qsopt_ex/")]
    bparams = {}
    for f in funcs:
        ks = [k for k, p in enumerate(f.params) if "QSbasis" in p[1] or "qsbasis" in p[2]]
        if ks:
            bparams[f.key] = ks
    # VALID[f][k]: f compares both counts of parameter k somewhere on a dominating position of every hand-over (checked below per call);
    # summary used for callees: the function tests both counts of the parameter at all (rejecting)
    VALID = collections.defaultdict(set)
    for f in funcs:
        for k in bparams.get(f.key, ()):
            m = _mentions_counts(f, f.params[k][0])
            got = set().union(*m.values()) if m else set()
            if got == {"qsbasis::nstruct", "qsbasis::nrows"}:
                VALID[f.key].add(k)
    nsite = 0
    seen = set()
    apis = [f for f, _ in api_functions(prog, prefix)] + [f for f in funcs if f.unit.endswith("qsopt_ex/exact.c") and not f.static]
    work = [(f, k) for f in apis for k in bparams.get(f.key, ())]
    while work:
        f, k = work.pop()
        if (f.key, k) in seen:
            continue
        seen.add((f.key, k))
        pname = f.params[k][0]
        dom, succ = dominators(prog, f)
        tests = _mentions_counts(f, pname)
        for b, i, c in f.calls():
            g = prog.resolve(f, c[1]) if c[1] else None
            if g is not None and g.name[:4] in ("dbl_", "mpf_"):
                g = prog.funcs.get("mpq_" + g.name[4:]) or g      # the three instantiations come from one template: judge the rational twin
            elif g is None and c[1] and c[1][:4] in ("dbl_", "mpf_"):
                g = prog.funcs.get("mpq_" + c[1][4:])
            if g is None or not g.blocks:
                continue
            pos = [j for j, a in enumerate(c[3]) if is_var(strip(a), name=pname)]
            if not pos:
                continue
            with_problem = any(j2 < len(g.params) and ("QSdata" in g.params[j2][1] or "lpinfo" in g.params[j2][1] or "qsdata" in g.params[j2][2])
                               for j2 in range(len(c[3])))
            for j in pos:
                if j >= len(g.params):
                    continue
                # validated here on a dominating position?
                got = set()
                for d, flds in tests.items():
                    if d in dom.get(b["id"], ()) and d != b["id"]:
                        got |= flds
                here = got == {"qsbasis::nstruct", "qsbasis::nrows"}
                if not with_problem and j in bparams.get(g.key, ()) and not here:
                    # a pure converter / checker: follow the record into it only if it hands it on together with a problem
                    work.append((g, j))
                    continue
                if not with_problem:
                    continue
                nsite += 1
                res.obligations += 1
                res.nontrivial += 1
                if here:
                    res.sample({"site": "%s %s: %s" % (short_loc(c[4]), f.name, show(c)[:60]), "verdict": "both counts compared on a dominating branch"}, limit=8)
                elif j in VALID.get(g.key, ()):
                    res.sample({"site": "%s %s: %s" % (short_loc(c[4]), f.name, show(c)[:60]), "verdict": "%s compares both counts itself" % g.name}, limit=8)
                elif j in bparams.get(g.key, ()):
                    work.append((g, j))           # the callee takes over the obligation for its own hand-overs
                    res.sample({"site": "%s %s: %s" % (short_loc(c[4]), f.name, show(c)[:60]), "verdict": "obligation passed on to %s" % g.name}, limit=8)
                else:
                    res.violations.append(Violation(rule, "%s|%s handed to %s without a comparison of its counts" % (f.name.replace(prefix, ""), pname, g.name.replace(prefix, "")),
                                                    f.name, short_loc(c[4]), "%s: the caller's basis record %s reaches %s together with the problem, but neither a dominating "
                                                    "test here nor %s compares %s->nstruct and %s->nrows with the problem's counts" % (show(c)[:70], pname, g.name, g.name, pname, pname)))
        # the function converts the record into an ILLlp_basis and uses THAT with the problem: local records filled from the parameter
        filled = set()
        for b, i, c in f.calls():
            g = prog.resolve(f, c[1]) if c[1] else None
            if g is None:
                continue
            if any(is_var(strip(a), name=pname) for a in c[3]):
                for a in c[3]:
                    a0 = strip(a)
                    if isinstance(a0, list) and a0 and a0[0] == "u" and a0[1] == "&" and is_var(a0[2], kind="l") and "ILLlp_basis" in (f.ltypes.get(strip(a0[2])[2]) or ""):
                        filled.add((strip(a0[2])[2], b["id"], i))
        for (loc_name, fb, fi) in filled:
            for b, i, c in f.calls():
                g = prog.resolve(f, c[1]) if c[1] else None
                if g is None or not g.blocks:
                    continue
                uses = False
                for a in c[3]:
                    a0 = strip(a)
                    if isinstance(a0, list) and a0 and a0[0] == "u" and a0[1] == "&" and is_var(a0[2], name=loc_name, kind="l"):
                        uses = True
                    if is_var(a0, kind="l") and any(isinstance(r, list) and strip(r) and strip(r)[0] == "u" and strip(r)[1] == "&" and is_var(strip(r)[2], name=loc_name)
                                                    for r in _sources(f, a0[2])):
                        uses = True
                with_problem = any(j2 < len(g.params) and ("lpinfo" in g.params[j2][1] or "QSdata" in g.params[j2][1]) for j2 in range(len(c[3])))
                if not uses or not with_problem or (b["id"], i) == (fb, fi):
                    continue
                nsite += 1
                res.obligations += 1
                res.nontrivial += 1
                got = set()
                for d, flds in tests.items():
                    # the comparison must dominate the conversion (the only way the caller's record gets into the local one) or the use
                    if (d in dom.get(fb, ()) and d != fb) or (d in dom.get(b["id"], ()) and d != b["id"]):
                        got |= flds
                if got == {"qsbasis::nstruct", "qsbasis::nrows"}:
                    res.sample({"site": "%s %s: %s" % (short_loc(c[4]), f.name, show(c)[:60]), "verdict": "both counts compared before the converted record is used"}, limit=8)
                else:
                    res.violations.append(Violation(rule, "%s|converted %s used by %s without a comparison of its counts" % (f.name.replace(prefix, ""), pname, g.name.replace(prefix, "")),
                                                    f.name, short_loc(c[4]), "%s: the record converted from the caller's %s is walked by %s with the problem's counts, but no "
                                                    "dominating test compares %s->nstruct and %s->nrows with them: a smaller basis is read past its arrays" % (
                                                        show(c)[:70], pname, g.name, pname, pname)))
    res.counts["hand_overs_with_a_problem"] = nsite
    res.floor("hand-overs of a caller's basis together with a problem", nsite, 3)
    return res


def _sources(f, name):
    out = []
    for b, i, e in f.elements(live_only=False):
        if e[0] == "A" and e[1][1] == "=" and is_var(e[1][2], name=name, kind="l"):
            out.append(e[1][3])
        elif e[0] == "D":
            out += [init for n, init in e[1] if n == name and init is not None]
    return out
