"""R-CONDALLOC (C17): an array that exists only in one mode of a record is touched only in that mode.

Some arrays of the pricing record are allocated only together with a selector value: every statement that allocates
price_info::d_scaleinf sits next to the store `pinf->p_strategy = COMPLETE_PRICING`, while the other value of the selector
(MULTI_PART_PRICING) is stored without any allocation.  The rule infers such (array field, selector field, value) triples
from the allocation sites - nothing is listed by hand - and requires every access that needs the block (a subscript of the
field, or handing it to a function that dereferences the parameter: summary computed bottom-up) to be dominated by a test
that establishes `selector == value`, by a non-NULL test of the field itself, or to sit in a function all of whose call sites
are so dominated.  Otherwise the access happens in the mode in which the array was never allocated (NULL) or still has the
length of an earlier solve: the multiple-partial pricing rule crashed in ILLheap_build on the pinned tree because
ILLprice_primal / ILLprice_dual handed the complete-pricing key array to the heap test unconditionally."""
import collections

from ..core import walk, strip, is_var, callee, const_of, show, short_loc, dominators, AnalysisBroken
from ..cond import atoms, SWAP
from ..result import RuleResult, Violation
from .staleptr import _alloc_value, _assignments


def _field_of(t):
    t = strip(t)
    if isinstance(t, list) and t and t[0] == "m":
        return t[2], show(t[1])
    return None, None


def _deref_summary(prog, funcs):
    """DEREF[fkey] = set of parameter indices the function may dereference / subscript (directly or through a callee)"""
    D = collections.defaultdict(set)
    alias = {}
    for f in funcs:
        al = {}
        for n, rs in _assignments(f).items():
            srcs = {strip(r)[2] if is_var(strip(r)) else None for r in rs if const_of(r) != 0}
            if len(srcs) == 1 and None not in srcs and f.param_index(list(srcs)[0]) is not None:
                al[n] = list(srcs)[0]
        alias[f.key] = al
        for b, i, e in f.elements():
            trees = [x[1] for x in e[1] if x[1] is not None] if e[0] == "D" else ([e[1]] if e[1] is not None else [])
            for t in trees:
                for nd in walk(t):
                    if not isinstance(nd, list) or not nd:
                        continue
                    base = None
                    if nd[0] == "i":
                        base = strip(nd[1])
                    elif nd[0] == "u" and nd[1] == "*":
                        base = strip(nd[2])
                    elif nd[0] == "m" and len(nd) > 3 and nd[3] == 1:
                        base = strip(nd[1])
                    if base is not None and is_var(base):
                        k = f.param_index(al.get(base[2], base[2]))
                        if k is not None:
                            D[f.key].add(k)
    changed, rounds = True, 0
    while changed and rounds < 10:
        changed = False
        rounds += 1
        for f in funcs:
            al = alias[f.key]
            for b, i, c in f.calls():
                g = prog.resolve(f, c[1]) if c[1] else None
                for pk, a in enumerate(c[3]):
                    a0 = strip(a)
                    if not is_var(a0):
                        continue
                    k = f.param_index(al.get(a0[2], a0[2]))
                    if k is None or k in D[f.key]:
                        continue
                    if g is None or not g.blocks:
                        if "*" in f.params[k][1]:
                            D[f.key].add(k)          # external function: assume it dereferences pointer arguments
                            changed = True
                    elif pk in D[g.key]:
                        D[f.key].add(k)
                        changed = True
    return D


class Guards:
    """facts established on the way to a block: (field, base text, op, const) for selector tests, ('nonnull', field, base)"""

    def __init__(self, prog, f):
        self.f = f
        self.dom, self.succ = dominators(prog, f)
        self.preds = collections.defaultdict(set)
        for a, ss in self.succ.items():
            for s in ss:
                self.preds[s].add(a)
        self.edge_facts = {}
        for bid in f.live:
            b = f.blocks[bid]
            c = b.get("c")
            if c is None:
                continue
            ss = prog.live_succs(f, b)
            if b.get("t") == "SwitchStmt":
                fld, base = _field_of(c)
                if fld is None and is_var(strip(c)):
                    fld, base = "$" + strip(c)[2], ""
                for s in ss:
                    if s is None:
                        continue
                    lab = f.blocks[s].get("l")
                    if lab and lab[0] == "case" and fld:
                        self.edge_facts.setdefault((bid, s), set()).add((fld, base, "==", lab[1]))
                continue
            if len(ss) != 2:
                continue
            for idx, s in enumerate(ss):
                if s is None:
                    continue
                facts = set()
                for l, op, r in atoms(c, idx == 0):
                    for a, b_, o in ((l, r, op), (r, l, SWAP[op])):
                        fld, base = _field_of(a)
                        if fld is None and is_var(a):
                            fld, base = "$" + strip(a)[2], ""
                        if fld is None:
                            continue
                        cv = const_of(b_)
                        if cv is not None and o in ("==", "!="):
                            facts.add((fld, base, o, cv))
                if facts:
                    self.edge_facts.setdefault((bid, s), set()).update(facts)

    def facts_at(self, bid):
        """facts of edges (d -> s) where s dominates bid (or is bid) and d is the only predecessor of s"""
        out = set()
        for (d, s), fs in self.edge_facts.items():
            if (s == bid or s in self.dom.get(bid, ())) and self.preds[s] == {d}:
                out |= fs
        return out


def run(prog, rule="R-CONDALLOC", floor=2):
    res = RuleResult(rule, "an array field whose every allocation is paired with one value of a selector field of the same record is subscripted / "
                           "handed to a dereferencing callee only where that selector value (or a non-NULL test of the field) has been established")
    funcs = [f for f in prog.funcs.values() if f.live is not None and "_dbl." not in f.unit and "_mpf." not in f.unit and f.unit.startswith("qsopt_ex/")]
    asg = {f.key: _assignments(f) for f in funcs}
    # 1. allocation sites per field, with the selector stores made under the same branch conditions just before
    #    (the allocator macros split the block, so "same block" is "dominating block with the same controlling facts")
    alloc = collections.defaultdict(list)       # field -> [(f, bid, {(S, V)})]
    blk_stores = {}
    for f in funcs:
        per = {}
        for bid in f.live:
            b = f.blocks[bid]
            stores, allocs = set(), set()
            for e in b["e"]:
                if e[0] != "A" or e[1][1] != "=":
                    continue
                fld, base = _field_of(e[1][2])
                if fld is None:
                    continue
                cv = const_of(e[1][3])
                if cv is not None and (cv != 0 or not _is_ptr_field(prog, fld)):
                    stores.add((fld, base, cv))
                elif cv is None and _alloc_value(f, asg[f.key], e[1][3]):
                    allocs.add((fld, base))
            if stores or allocs:
                per[bid] = (stores, allocs)
                blk_stores[(f.key, bid)] = (stores, allocs)
        if not any(a for (_, a) in per.values()):
            continue
        gd = Guards(prog, f)

        def cf(bid):
            return frozenset(x for x in gd.facts_at(bid) if not x[0].startswith("$_"))
        for bid, (stores, allocs) in per.items():
            for (fld, base) in allocs:
                sv = set()
                for b2, (st2, _a2) in per.items():
                    if (b2 == bid or b2 in gd.dom.get(bid, ())) and cf(b2) == cf(bid):
                        sv |= {(s_, v_) for (s_, sb, v_) in st2 if sb == base and s_.split("::")[0] == fld.split("::")[0]}
                alloc[fld].append((f, bid, sv))
    triples = {}
    doms = {}
    for fld, sites in alloc.items():
        common = set.intersection(*[s[2] for s in sites]) if sites else set()
        for (s, v) in common:
            # the selector takes another value in an alternative branch of the same function, stored there without allocating the field
            # (if (complete) { strategy = COMPLETE; alloc } else if (partial) strategy = PARTIAL;): a mode switch, not an initialisation
            other = False
            for (f, bid, _sv) in sites:
                if f.key not in doms:
                    doms[f.key] = dominators(prog, f)[0]
                dom = doms[f.key]
                for b2 in f.live:
                    st2 = blk_stores.get((f.key, b2))
                    if not st2 or b2 == bid:
                        continue
                    stores, allocs = st2
                    if any(s2 == s and v2 != v for (s2, bb, v2) in stores) and not any(a == fld for (a, _) in allocs) \
                            and bid not in dom.get(b2, ()) and b2 not in dom.get(bid, ()):
                        other = True
            if other:
                triples[fld] = (s, v, len(sites))
    res.counts["array_fields_allocated_with_a_selector_value"] = {k.split("::")[1]: "%s == %s" % (v[0].split("::")[1], v[1]) for k, v in triples.items()}
    if not triples:
        res.floor("array fields tied to a selector value", 0, floor)
        return res
    DEREF = _deref_summary(prog, funcs)
    callers = collections.defaultdict(list)
    G = {}
    for f in funcs:
        for b, i, c in f.calls():
            g = prog.resolve(f, c[1]) if c[1] else None
            if g is not None:
                callers[g.key].append((f, b["id"], c))

    def guards(f):
        if f.key not in G:
            G[f.key] = Guards(prog, f)
        return G[f.key]

    def established(f, bid, fld, base, depth=0):
        s, v, _ = triples[fld]
        for (f2, b2, o, cv) in guards(f).facts_at(bid):
            if f2 == s and o == "==" and cv == v and (not base or not b2 or b2 == base or depth > 0):
                return "selector test"
            if f2 == fld and o == "!=" and cv == 0:
                return "non-NULL test of the field"
        # every call site of this function is guarded (helpers of the guarded branch)
        cs = callers.get(f.key, [])
        if cs and depth < 2 and f.name not in getattr(prog, "addr_taken", ()):
            if all(established(cf, cb, fld, "", depth + 1) for (cf, cb, cc) in cs):
                return "all %d call sites guarded" % len(cs)
        return None
    nuse = 0
    for f in sorted(funcs, key=lambda x: x.key):
        for b, i, e in f.elements():
            uses = []
            if e[0] == "S":
                fld, base = _field_of(e[1][1])
                if fld in triples:
                    uses.append((fld, base, "subscript %s" % show(e[1])[:60], e[2]))
            elif e[0] == "C":
                c = e[1]
                g = prog.resolve(f, c[1]) if c[1] else None
                for pk, a in enumerate(c[3]):
                    fld, base = _field_of(a)
                    if fld in triples and ((g is None or not g.blocks) or pk in DEREF[g.key]):
                        if (callee(c) or "") in ("free", "EGfree"):
                            continue
                        uses.append((fld, base, "handed to %s, which dereferences the parameter" % (c[1] or "a callee"), c[4]))
            for (fld, base, what, loc) in uses:
                nuse += 1
                res.obligations += 1
                res.nontrivial += 1
                how = established(f, b["id"], fld, base)
                if how:
                    res.sample({"site": "%s %s: %s" % (short_loc(loc), f.name, what), "verdict": how}, limit=12)
                    continue
                s, v, n = triples[fld]
                res.violations.append(Violation(rule, "%s|%s used without %s == %s" % (f.name.replace("mpq_", ""), fld.split("::")[1], s.split("::")[1], v), f.name, short_loc(loc),
                                                "%s: every allocation of %s (%d site(s)) is paired with the store %s = %s and the selector also takes other values "
                                                "without the array being allocated, but this access is not dominated by a test of %s == %s nor by a non-NULL test of "
                                                "the field: in the other mode the array is NULL or has the length of an earlier solve" % (
                                                    what, fld.split("::")[1], n, s.split("::")[1], v, s.split("::")[1], v)))
    res.counts["accesses_needing_the_block"] = nuse
    res.floor("array fields tied to a selector value", len(triples), floor)
    res.floor("accesses of such fields", nuse, 8)
    return res


def _is_ptr_field(prog, fld):
    rn, fn_ = fld.split("::")
    for key in (rn, "struct " + rn):
        r = prog.records.get(key)
        if r:
            for f2, ft, ct in r["fields"]:
                if f2 == fn_:
                    return "*" in ft or "*" in ct
    return False
