"""R-ARGCAP (C01, C02, C12, C17): a vector handed to a function is as long as the function's subscripts require.

The library has three index spaces (rows, structural columns, internal columns = structurals + one logical per row).  For
every function the rule derives, per pointer parameter, the index spaces the function subscripts it with (loop variable
bounded by a dimension, `nstruct + i` with a row index, an element of structmap[] / rowmap[] / baz[]); requirements travel
up through parameters that are passed on unchanged.  For every local vector the rule derives the dimension classes it can
have been allocated with: the size of the allocator's statement expression (through the macro temporaries), the length header
of another vector (`__EGlpNumArraySize (v)`: the converting copies QScopy_array_*), a plain pointer copy.  At every call site
whose argument is such a local, every possible allocation class must cover every required space (internal columns cover
structurals and rows; structurals and rows do not cover each other).  A solution vector of the exact driver allocated with
the structural count and handed to the optimality test - which writes the logicals' values behind the structurals - is a
heap overflow that no test of the suite reaches (the mpf stage of QSexact_solver is entered only when the double stage
fails to certify)."""
import collections

from ..core import walk, strip, is_var, callee, const_of, show, short_loc, AnalysisBroken
from ..result import RuleResult, Violation
from .idx import ROW, STRUCT, COL, dim_class, _suffix_lookup, return_dims
from .idxclass import VALUE_CLASS, arr_info
from .certdep import natural_loops

COVERS = {COL: {COL, STRUCT, ROW}, STRUCT: {STRUCT}, ROW: {ROW}}


def _assignments(f):
    out = collections.defaultdict(list)
    for b, i, e in f.elements(live_only=False):
        if e[0] == "A" and e[1][1] == "=" and is_var(e[1][2]):
            out[strip(e[1][2])[2]].append((e[1][3], b["id"], e[2]))
        elif e[0] == "D":
            for n, init in e[1]:
                if init is not None:
                    out[n].append((init, b["id"], e[2]))
    return out


def _twin(prog, f, name):
    """the callee, or - for a function of the double / mpf instantiation whose unit is not loaded - its rational twin (the three
    instantiations are generated from one template, so they return the same dimension)"""
    g = prog.resolve(f, name)
    if g is None and name[:4] in ("dbl_", "mpf_"):
        g = prog.resolve(f, "mpq_" + name[4:])
    return g


class FnInfo:
    def __init__(self, prog, f, RD):
        self.prog, self.f, self.RD = prog, f, RD
        self.asg = _assignments(f)
        # dimension-valued int locals: all assignments are the same dimension
        self.dimvar = {}
        for n, rs in self.asg.items():
            cs = {self.dim_of_expr(r, direct=True) for (r, _, _) in rs}
            if len(cs) == 1 and None not in cs:
                self.dimvar[n] = list(cs)[0]
        self.loops, self.dom, self.succ = natural_loops(prog, f)
        self.loopcls = {}
        for h in self.loops:
            c = f.blocks[h].get("c")
            if c is None:
                continue
            c0 = strip(c)
            if isinstance(c0, list) and c0 and c0[0] == "b" and c0[1] == "<" and is_var(c0[2]):
                dc = self.dim_of_expr(c0[3])
                if dc:
                    self.loopcls.setdefault(h, {})[strip(c0[2])[2]] = dc
            # for (v = D; v--;): the bound is the value assigned just before the loop is entered
            for nd in walk(c):
                if isinstance(nd, list) and nd and nd[0] == "u" and nd[1].startswith("--") and is_var(nd[2]):
                    v = strip(nd[2])[2]
                    preds = [a for a, ss in self.succ.items() if h in ss and a not in self.loops[h]]
                    cs = set()
                    for p_ in preds:
                        got = None
                        for e in reversed(f.blocks[p_]["e"]):
                            if e[0] == "A" and e[1][1] == "=" and is_var(e[1][2], name=v):
                                got = self.dim_of_expr(e[1][3])
                                break
                        cs.add(got)
                    if len(cs) == 1 and None not in cs:
                        self.loopcls.setdefault(h, {})[v] = list(cs)[0]
        # pointer aliases of parameters: local = param
        self.palias = {}
        for n, rs in self.asg.items():
            srcs = {strip(r)[2] if is_var(strip(r)) else None for (r, _, _) in rs if const_of(r) != 0}
            if len(srcs) == 1 and None not in srcs:
                s0 = list(srcs)[0]
                if f.param_index(s0) is not None and "*" in (f.ltypes.get(n) or ""):
                    self.palias[n] = s0

    def dim_of_expr(self, t, direct=False):
        t = strip(t)
        c = dim_class(t)
        if c:
            return c
        if isinstance(t, list) and t and t[0] == "c" and t[1]:
            g = _twin(self.prog, self.f, t[1])
            if g is not None and g.key in self.RD:
                return self.RD[g.key]
        if not direct and is_var(t) and t[2] in self.dimvar:
            return self.dimvar[t[2]]
        return None

    def index_class(self, t, bid):
        t = strip(t)
        if is_var(t):
            inner = sorted((h for h in self.loops if bid in self.loops[h] and t[2] in self.loopcls.get(h, {})), key=lambda h: len(self.loops[h]))
            if inner:
                return self.loopcls[inner[0]][t[2]]
            # a local loaded from a map only
            rs = self.asg.get(t[2], [])
            vs = set()
            for (r, _, _) in rs:
                r = strip(r)
                if isinstance(r, list) and r and r[0] == "i":
                    vs.add(arr_info(r[1], {})[1])
                else:
                    vs.add(None)
            if len(vs) == 1 and None not in vs:
                return list(vs)[0]
            return None
        if isinstance(t, list) and t and t[0] == "i":
            return arr_info(t[1], {})[1]
        if isinstance(t, list) and t and t[0] == "b" and t[1] == "+":
            for x, y in ((t[2], t[3]), (t[3], t[2])):
                if self.dim_of_expr(x) == STRUCT and self.index_class(y, bid) == ROW:
                    return COL
        return None

    def param_subscripts(self):
        """param index -> {class: (loc, text)}"""
        f = self.f
        out = collections.defaultdict(dict)
        for b, i, e in f.elements():
            if e[0] != "S":
                continue
            base = strip(e[1][1])
            if not is_var(base):
                continue
            nm = self.palias.get(base[2], base[2])
            k = f.param_index(nm)
            if k is None or "*" not in f.params[k][1]:
                continue
            if any(strip(a[0]) == base for a in ()):
                continue
            c = self.index_class(e[1][2], b["id"])
            if c:
                out[k].setdefault(c, (e[2], show(e[1])))
        return out

    # ---- allocation classes of local vectors
    def reaching(self, name, bid, idx):
        """right-hand sides of the assignments of `name` that reach element idx of block bid (backward search over the CFG)"""
        f = self.f
        if not hasattr(self, "_preds"):
            self._preds = collections.defaultdict(set)
            for a, ss in self.succ.items():
                for x in ss:
                    self._preds[x].add(a)

        def last_in(b, upto):
            es = f.blocks[b]["e"]
            for j in range((len(es) if upto is None else upto) - 1, -1, -1):
                e = es[j]
                if e[0] == "A" and e[1][1] == "=" and is_var(e[1][2], name=name):
                    return e[1][3]
                if e[0] == "D":
                    for n, init in e[1]:
                        if n == name and init is not None:
                            return init
            return None
        out, seen = [], set()
        r = last_in(bid, idx)
        if r is not None:
            return [(r, bid, "")]
        wl = list(self._preds[bid])
        while wl:
            b = wl.pop()
            if b in seen:
                continue
            seen.add(b)
            r = last_in(b, None)
            if r is not None:
                out.append((r, b, ""))
            else:
                wl.extend(self._preds[b])
        return out

    def alloc_classes(self, name, depth=0, seen=None, site=None):
        """set of dimension classes the local vector can have been allocated with; contains '?' when an assignment is not understood"""
        seen = seen or set()
        if name in seen or depth > 14:
            return {"?"}
        seen = seen | {name}
        out = set()
        for (r, bid, loc) in (self.reaching(name, *site) if site is not None else self.asg.get(name, [])):
            if const_of(r) == 0:
                continue
            out |= self.expr_len(r, depth, seen)
        return out or {"?"}

    def expr_len(self, r, depth, seen):
        r0 = strip(r)
        if is_var(r0) and "*" in (self.f.var_type(r0) or ""):
            if self.f.param_index(r0[2]) is not None and r0[1] != "l":
                return {"?"}
            return self.alloc_classes(r0[2], depth + 1, seen)
        dims = set()
        unknown = False
        found_alloc = False
        hdr_ok = False
        stack = [r]
        visited = set()
        while stack:
            t = stack.pop()
            for nd in walk(t):
                if not isinstance(nd, list) or not nd:
                    continue
                c = dim_class(nd) if nd[0] == "m" else None
                if c:
                    dims.add(c)
                    continue
                if nd[0] == "c":
                    n = callee(nd) or ""
                    if n in ("malloc", "calloc", "realloc", "ILLutil_allocrus", "EGmalloc"):
                        found_alloc = True
                    elif nd[1]:
                        g = _twin(self.prog, self.f, nd[1])
                        if g is not None and g.key in self.RD:
                            dims.add(self.RD[g.key])
                # length header of another vector:  ((size_t *) v)[-1]
                if nd[0] == "i" and const_of(nd[2]) in (-1, 0):
                    b0 = strip(nd[1])
                    if is_var(b0) and const_of(nd[2]) == 0:
                        # __utmp[0] where  size_t *__utmp = (size_t *) v  (stepped back by the macro): the header of v
                        root = self._root_ptr(b0[2])
                        if "size_t" in (self.f.ltypes.get(b0[2]) or "") and root != b0[2] and "size_t" not in (self.f.ltypes.get(root) or "size_t"):
                            dims |= self.alloc_classes(root, depth + 1, seen)
                            continue
                    elif is_var(b0):
                        got = self.alloc_classes(self._root_ptr(b0[2]), depth + 1, seen)
                        dims |= got
                        continue
                # header pointer of another vector:  __utmp = ((size_t *) v) - 1  (the macro then reads __utmp[0])
                if nd[0] == "b" and nd[1] == "-" and const_of(nd[3]) == 1:
                    b0 = strip(nd[2])
                    if is_var(b0) and "*" in (self.f.var_type(b0) or ""):
                        dims |= self.alloc_classes(self._root_ptr(b0[2]), depth + 1, seen)
                        found_alloc = found_alloc or hdr_ok
                        continue
                if nd[0] == "v" and nd[1] == "l":
                    nm = nd[2]
                    if nm in self.dimvar:
                        dims.add(self.dimvar[nm])
                    elif nm.startswith("_") and nm not in visited:
                        visited.add(nm)
                        for (r2, _, _) in self.asg.get(nm, []):
                            stack.append(r2)
        if not found_alloc:
            return {"?"}
        return dims or {"?"}

    def _root_ptr(self, nm):
        """follow macro temporaries  __larray = x_dbl ; __utmp = (size_t *) __larray"""
        for _ in range(6):
            rs = [r for (r, _, _) in self.asg.get(nm, []) if const_of(r) != 0]
            if nm.startswith("__") and len(rs) == 1 and is_var(strip(rs[0])):
                nm = strip(rs[0])[2]
            else:
                break
        return nm


def run(prog, rule="R-ARGCAP", floor=12):
    res = RuleResult(rule, "every local vector handed to a function was allocated with a dimension that covers every index space the function "
                           "(or the functions it hands the parameter on to) subscripts that parameter with")
    RD = return_dims(prog)
    infos = {}
    for f in prog.funcs.values():
        if f.live is None or "_dbl." in f.unit or "_mpf." in f.unit or not f.unit.startswith("qsopt_ex/"):
            continue
        infos[f.key] = FnInfo(prog, f, RD)
    req = {k: fi.param_subscripts() for k, fi in infos.items()}
    # requirements travel up through parameters handed on unchanged
    changed, rounds = True, 0
    while changed and rounds < 6:
        changed = False
        rounds += 1
        for k, fi in infos.items():
            f = fi.f
            for b, i, c in f.calls():
                g = prog.resolve(f, c[1]) if c[1] else None
                if g is None or g.key not in req:
                    continue
                for pk, classes in list(req[g.key].items()):
                    if pk >= len(c[3]):
                        continue
                    a = strip(c[3][pk])
                    if not is_var(a):
                        continue
                    nm = fi.palias.get(a[2], a[2])
                    mk = f.param_index(nm)
                    if mk is None or "*" not in f.params[mk][1]:
                        continue
                    for cl, (loc, txt) in classes.items():
                        if cl not in req[k].setdefault(mk, {}):
                            req[k][mk][cl] = (loc, "%s (through %s)" % (txt, g.name))
                            changed = True
    nreq = sum(1 for k in req for pk in req[k])
    res.counts["parameters_with_a_subscript_requirement"] = nreq
    nsites = 0
    for k, fi in sorted(infos.items()):
        f = fi.f
        for b, i, c in f.calls():
            g = prog.resolve(f, c[1]) if c[1] else None
            if g is None or g.key not in req:
                continue
            for pk, classes in sorted(req[g.key].items()):
                if pk >= len(c[3]):
                    continue
                a = strip(c[3][pk])
                if not (is_var(a) and a[1] == "l" and "*" in (f.ltypes.get(a[2]) or "")):
                    continue
                have = fi.alloc_classes(a[2], site=(b["id"], i))
                if "?" in have:
                    continue
                nsites += 1
                res.obligations += 1
                res.nontrivial += 1
                bad = [(h, cl) for h in sorted(have) for cl in sorted(classes) if cl not in COVERS[h]]
                if bad:
                    h, cl = bad[0]
                    loc, txt = classes[cl]
                    res.violations.append(Violation(rule, "%s|%s handed to %s: allocated with the %s count, subscripted over %s" % (
                        f.name.replace("mpq_", ""), a[2], g.name.replace("mpq_", ""), h, cl), f.name, short_loc(c[4]),
                        "%s: the vector %s can have been allocated with the %s count (allocation classes found: %s) but %s subscripts this "
                        "parameter over the %s space (%s at %s): the callee reads / writes past the end of the block as soon as the counts differ" % (
                            show(c)[:90], a[2], h, "/".join(sorted(have)), g.name, cl, txt[:60], short_loc(loc))))
                else:
                    res.sample({"site": "%s %s: %s" % (short_loc(c[4]), f.name, show(c)[:70]),
                                "verdict": "%s allocated with {%s}, required {%s}" % (a[2], ",".join(sorted(have)), ",".join(sorted(classes)))}, limit=10)
    res.counts["call_sites_with_typed_local_vectors"] = nsites
    res.floor("call sites handing a typed local vector to a parameter with a requirement", nsites, floor)
    return res
