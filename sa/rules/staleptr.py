"""R-STALEPTR (C13, C17): no array is accessed through a pointer that was fetched before the array was re-allocated.

The factorisation and the problem arrays grow by re-allocation (make_ur_space / make_uc_space / make_lc_space, the
EGlpNumReallocArray / EGrealloc growth steps of ILLlib_addrow / addcol ...).  A local copy of such a pointer field
(`urcoef = f->urcoef`) is valid only until a call that may assign the field again; the code base re-fetches its copies after
every such call.  The rule computes, bottom-up over the call graph, which pointer fields (as field paths rooted at
parameters) a function may re-point - a store whose target is the pointer field itself, not an element behind it - and runs
a path-sensitive forward analysis per function: a local that holds a field's value becomes stale at a call (or a direct
store) that may re-point that field or a pointer above it, a new assignment of the local makes it fresh again, and any
subscript / dereference / hand-over of a stale local is reported.  Such a use writes into a freed block only when the growth
step actually moves the array, i.e. on inputs large enough to outgrow the initial allocation - which the suite's problems
are not."""
import collections

from ..core import walk, strip, is_var, callee, const_of, apath, fields_of, show, short_loc, Flow
from ..effects import Effects, K
from ..result import RuleResult, Violation


def _norm(steps):
    """cancel &,* pairs; drop pointer arithmetic"""
    out = []
    for s in steps:
        if s == "*" and out and out[-1] == "&":
            out.pop()
            continue
        if s == "+":
            continue
        out.append(s)
    return tuple(out)


def _is_field_itself(steps):
    st = _norm(steps)
    return bool(st) and "::" in st[-1]


ALLOC_WORDS = ("alloc", "Alloc")


def _alloc_value(f, asg, rhs, depth=0):
    """the stored value is a fresh / moved block or NULL: the result of an allocator-family call (malloc, calloc, realloc, EGrealloc,
    ILLutil_allocrus / reallocrus ...), a local that only ever holds such results, or the constant 0 (the block was released)"""
    if rhs is None:
        return False
    if const_of(rhs) == 0:
        return True
    for nd in walk(rhs):
        if isinstance(nd, list) and nd and nd[0] == "c" and any(w in (callee(nd) or "") for w in ALLOC_WORDS):
            return True
    r0 = strip(rhs)
    if isinstance(r0, list) and r0 and r0[0] == "se":
        r0 = strip(r0[1]) if r0[1] is not None else r0
    vs = [nd for nd in walk(rhs) if isinstance(nd, list) and nd and nd[0] == "v" and nd[1] == "l" and nd[2].startswith("_")]
    if is_var(r0, kind="l"):
        vs.append(r0)
    if depth < 3:
        for v in vs:
            rs = asg.get(v[2], [])
            if rs and any(_alloc_value(f, asg, r, depth + 1) and const_of(r) != 0 for r in rs):
                return True
    return False


def _assignments(f):
    out = collections.defaultdict(list)
    for b, i, e in f.elements(live_only=False):
        if e[0] == "A" and e[1][1] == "=" and is_var(e[1][2], kind="l"):
            out[strip(e[1][2])[2]].append(e[1][3])
        elif e[0] == "D":
            for n, init in e[1]:
                if init is not None:
                    out[n].append(init)
    return out


def _realloc_store(f, asg, how, bid, idx):
    if how.startswith("ext:"):
        return any(w in how for w in ALLOC_WORDS) or "free" in how
    if how != "assign":
        return False
    e = f.blocks[bid]["e"][idx]
    if e[0] != "A" or e[1][1] != "=":
        return False
    return _alloc_value(f, asg, e[1][3])


class Repoint:
    """REP[f] = {(param k, field path)}: pointer fields f may assign (directly or through callees)"""

    def __init__(self, prog, E):
        self.prog, self.E = prog, E
        self.REP = collections.defaultdict(set)
        self.asg = {}
        for f in prog.funcs.values():
            self.asg[f.key] = _assignments(f)
            for (p, loc, how, _b, _i) in E.direct.get(f.key, ()):
                if not p[2] or how == "incdec" or not _realloc_store(f, self.asg[f.key], how, _b, _i):
                    continue
                for (k, st) in E.roots(f, p):
                    if st and _is_field_itself(st):
                        self.REP[f.key].add((k, fields_of(st)[:K]))
        changed, rounds = True, 0
        while changed and rounds < 40:
            changed = False
            rounds += 1
            for f in prog.funcs.values():
                rf = self.REP[f.key]
                for ci in E.callinfo.get(f.key, ()):
                    for ent in self.call_repoints(f, ci):
                        if ent not in rf:
                            rf.add(ent)
                            changed = True

    def call_repoints(self, f, ci):
        (g, name, loc, args, bid, idx, c) = ci
        out = []
        targets = [g] if g is not None else (self.prog.call_targets(f, c) if name is None else [])
        for g2 in targets:
            for (k, fp) in list(self.REP.get(g2.key, ())):
                if k < len(args):
                    a = args[k]
                    if a[2] and a[2][-1] == "&":
                        a = (a[0], a[1], a[2][:-1])
                    for (j, steps) in self.E.roots(f, a):
                        out.append((j, (fields_of(steps) + fp)[:K]))
        return out


def _held_paths(E, f, rhs):
    """field paths (param k, fields) whose value (possibly plus an offset) the expression yields"""
    r = strip(rhs)
    # only plain loads of a pointer field, optionally with pointer arithmetic
    p = apath(r)
    if p[0] in ("other", "n", "str", "call"):
        return set()
    st = p[2]
    if not st or "[]" in st or "*" in st and not _is_field_itself(st):
        return set()
    core_steps = tuple(s for s in st if s != "+")
    if not core_steps or "::" not in core_steps[-1]:
        return set()
    out = set()
    for (k, steps) in E.roots(f, (p[0], p[1], core_steps)):
        if steps and "::" in _norm(steps)[-1:][0] if _norm(steps) else False:
            out.add((k, fields_of(steps)[:K]))
    return out


def run(prog, E=None, units=("qsopt_ex/",), rule="R-STALEPTR", floor=150):
    E = E or Effects(prog)
    res = RuleResult(rule, "no local copy of a re-allocatable pointer field is used after a call (or store) that may re-point the field, "
                           "unless the local was assigned again")
    RP = Repoint(prog, E)
    res.counts["functions_that_may_repoint_a_field"] = sum(1 for k, v in RP.REP.items() if v)
    nheld = 0
    nkill = 0
    for f in sorted(prog.funcs.values(), key=lambda x: x.key):
        if f.live is None or "_dbl." in f.unit or "_mpf." in f.unit or not any(f.unit.startswith(u) for u in units):
            continue
        # locals that hold a pointer field
        holders = {}
        for b, i, e in f.elements():
            pairs = []
            if e[0] == "A" and e[1][1] == "=" and is_var(e[1][2], kind="l"):
                pairs.append((strip(e[1][2])[2], e[1][3]))
            elif e[0] == "D":
                pairs += [(n, init) for n, init in e[1] if init is not None]
            for n, rhs in pairs:
                if "*" not in (f.ltypes.get(n) or ""):
                    continue
                hp = _held_paths(E, f, rhs)
                if hp:
                    holders[(b["id"], i, n)] = frozenset(hp)
        if not holders:
            continue
        nheld += len(holders)
        names = {n for (_, _, n) in holders}
        # re-pointing events
        events = {}
        for ci in E.callinfo.get(f.key, ()):
            (g, name, loc, args, bid, idx, c) = ci
            rp = set(RP.call_repoints(f, ci))
            if rp:
                events[(bid, idx)] = (rp, "call %s" % (name or "(*fp)"), loc)
        for (p, loc, how, bid, idx) in E.direct.get(f.key, ()):
            if not p[2] or how == "incdec" or not _realloc_store(f, RP.asg[f.key], how, bid, idx):
                continue
            rp = set()
            for (k, st) in E.roots(f, p):
                if st and _is_field_itself(st):
                    rp.add((k, fields_of(st)[:K]))
            if rp:
                old = events.get((bid, idx))
                events[(bid, idx)] = ((old[0] | rp) if old else rp, old[1] if old else "store to %s" % show_path(p), loc)
        if not events:
            continue
        bad = {}

        def uses(t, lhs_var=None):
            """locals of `names` that the tree dereferences, subscripts, or hands to a callee / another variable"""
            out = set()
            for nd in walk(t):
                if not isinstance(nd, list) or not nd:
                    continue
                if nd[0] == "i":
                    b0 = strip(nd[1])
                    if is_var(b0, kind="l") and b0[2] in names:
                        out.add(b0[2])
                    elif isinstance(b0, list) and b0 and b0[0] == "b" and b0[1] in ("+", "-"):
                        for x in (b0[2], b0[3]):
                            x = strip(x)
                            if is_var(x, kind="l") and x[2] in names:
                                out.add(x[2])
                elif nd[0] == "u" and nd[1] == "*":
                    for x in walk(nd[2]):
                        if is_var(x, kind="l") and x[2] in names:
                            out.add(x[2])
                elif nd[0] == "c":
                    for a in nd[3]:
                        a0 = strip(a)
                        if is_var(a0, kind="l") and a0[2] in names:
                            out.add(a0[2])
                        elif isinstance(a0, list) and a0 and a0[0] == "b" and a0[1] in ("+", "-"):
                            for x in (a0[2], a0[3]):
                                x = strip(x)
                                if is_var(x, kind="l") and x[2] in names:
                                    out.add(x[2])
            return out

        def check(t, st, loc, bid):
            stale = {q for (q, hp, s) in st if s}
            if not stale:
                return
            for q in uses(t) & stale:
                why = next(w for (q2, hp, w) in st if q2 == q and w)
                bad.setdefault((loc, q), (why, bid, st))

        def xfer(b, i, e, st):
            key = (b["id"], i)
            k = e[0]
            out = set(st)
            if k in ("A", "C", "U", "R", "S", "X") and e[1] is not None and k != "D":
                t = e[1]
                if k == "A" and is_var(e[1][2], kind="l"):
                    check(e[1][3], st, e[2], b["id"])
                else:
                    check(t, st, e[2] if len(e) > 2 else "", b["id"])
            if k == "D":
                for n, init in e[1]:
                    if init is not None:
                        check(init, st, e[2], b["id"])
            # events: a call / store that may re-point a held field
            if key in events:
                rp, what, loc = events[key]
                nxt = set()
                for (q, hp, s) in out:
                    hit = None
                    if not s:
                        for (k2, fp) in hp:
                            for (j, wp) in rp:
                                if j == k2 and fp[:len(wp)] == wp:
                                    hit = "%s at %s may re-point %s" % (what, short_loc(loc), "->".join(x.split("::")[1] for x in wp))
                                    break
                            if hit:
                                break
                    nxt.add((q, hp, hit if hit else s))
                out = nxt
            # (re)assignments of holder locals
            names_set = []
            if k == "A" and e[1][1] == "=" and is_var(e[1][2], kind="l"):
                names_set.append((strip(e[1][2])[2], e[1][3]))
            elif k == "D":
                names_set += [(n, init) for n, init in e[1]]
            for n, rhs in names_set:
                if n not in names:
                    continue
                out = {x for x in out if x[0] != n}
                hp = holders.get((b["id"], i, n))
                if hp:
                    out.add((n, hp, ""))
                elif rhs is not None:
                    r0 = strip(rhs)
                    # q2 = q (+ offset): inherits q's status
                    src = None
                    if is_var(r0, kind="l") and r0[2] in names:
                        src = r0[2]
                    elif isinstance(r0, list) and r0 and r0[0] == "b" and r0[1] in ("+", "-") and is_var(r0[2], kind="l") and strip(r0[2])[2] in names:
                        src = strip(r0[2])[2]
                    if src:
                        for (q, hp2, s) in st:
                            if q == src:
                                out.add((n, hp2, s))
            return [frozenset(out)]

        def refine(cond, truth, st):
            check(cond, st, "", None)
            return None
        Flow(prog, f, [frozenset()], xfer, refine, max_visits=400000).run()
        nkill += len(events)
        for (b0, i0, n), hp in sorted(holders.items()):
            res.obligations += 1
        for (loc, q), (why, bid, st) in sorted(bad.items()):
            res.nontrivial += 1
            res.violations.append(Violation(rule, "%s|%s used after %s" % (f.name.replace("mpq_", ""), q, why.split(" at ")[0]), f.name, short_loc(loc),
                                            "the local %s holds the value of a pointer field fetched earlier; %s, and %s is used here without "
                                            "having been fetched again: if the array moved, this access goes to the freed block" % (q, why, q)))
    res.counts["local_copies_of_pointer_fields"] = nheld
    res.counts["repointing_events_in_their_functions"] = nkill
    res.floor("local copies of pointer fields in functions with a re-pointing event", nheld, floor)
    return res


def show_path(p):
    return "%s%s" % (p[1], "".join("->" + s.split("::")[1] if "::" in s else s for s in p[2]))
