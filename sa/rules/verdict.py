"""R-VERDICT (C12, C05): data dependencies of the exact basis verdicts.
In QSexact_basis_status / _optimalstatus / _dualstatus every call is preceded, on all paths, by the calls that produce
what it consumes (load -> factor -> piz -> dz -> dual check; xbz -> primal check; checks -> status values), the
feasibility checks are made at the exact zero tolerance, the internal lp is rebuilt before the basis is loaded into it,
and the verdict out-parameter is set to 1 only under the status flag that means it."""
from ..core import walk, strip, is_var, callee, const_of, apath, fields_of, show, short_loc, Flow, AnalysisBroken
from ..guards import states_at, field_pred
from ..result import RuleResult, Violation

DEPS = {
    "mpq_ILLbasis_load": ["mpq_QSload_basis", "mpq_build_internal_lpinfo"],
    "mpq_ILLbasis_factor": ["mpq_ILLbasis_load"],
    "mpq_ILLfct_compute_piz": ["mpq_ILLbasis_factor"],
    "mpq_ILLfct_compute_dz": ["mpq_ILLfct_compute_piz"],
    "mpq_ILLfct_compute_xbz": ["mpq_ILLbasis_factor"],
    "mpq_ILLfct_check_pfeasible": ["mpq_ILLfct_compute_xbz"],
    "mpq_ILLfct_check_dfeasible": ["mpq_ILLfct_compute_dz"],
    "mpq_build_internal_lpinfo": ["mpq_free_internal_lpinfo", "mpq_init_internal_lpinfo"],
    "mpq_ILLfct_compute_phaseI_piz": ["mpq_ILLfct_set_status_values"],
    "mpq_QSgrab_cache": ["mpq_ILLfct_set_status_values"],
}
STATUS_NEEDS_ANY = ["mpq_ILLfct_check_pfeasible", "mpq_ILLfct_check_dfeasible"]
FUNCS = {
    "QSexact_basis_status": {"flag": None},
    "QSexact_basis_optimalstatus": {"flag": "lp_status_info::optimal"},
    "QSexact_basis_dualstatus": {"flag": "lp_status_info::dual_feasible", "alt": "lp_status_info::dual_unbounded"},
}
ZERO_GLOBALS = {"__zeroLpNum_mpq__"}


def run(prog, rule="R-VERDICT"):
    res = RuleResult(rule, "in the exact basis verdict functions every computation is preceded on all paths by its producers, feasibility is "
                           "checked at the exact zero, and the verdict is set only under the matching status flag")
    for fn, cfg in FUNCS.items():
        f = prog.require_fn(fn)
        tracked = set(DEPS) | {x for v in DEPS.values() for x in v} | {"mpq_ILLfct_set_status_values"}
        viol = {}
        seen_calls = set()

        def xfer(b, i, e, st):
            if e[0] != "C":
                return None
            n = callee(e[1])
            if n not in tracked:
                return None
            seen_calls.add(n)
            done = st[0]
            for need in DEPS.get(n, ()):
                if need not in done:
                    viol.setdefault((n, need), (e[2], b["id"], st))
            if n == "mpq_ILLfct_set_status_values" and not any(x in done for x in STATUS_NEEDS_ANY):
                viol.setdefault((n, "a feasibility check"), (e[2], b["id"], st))
            return [(done | {n},)]
        fl = Flow(prog, f, [(frozenset(),)], xfer, None).run()
        pairs = [(n, need) for n in DEPS if n in seen_calls for need in DEPS[n]]
        res.obligations += len(pairs) + 1
        res.nontrivial += len(pairs) + 1
        for (n, need), (loc, bid, st) in sorted(viol.items()):
            res.violations.append(Violation(rule, "%s|%s not preceded by %s" % (fn, n.replace("mpq_", ""), need.replace("mpq_", "")), fn, short_loc(loc),
                                            "%s can be reached on a path that has not executed %s, whose result it consumes" % (n, need),
                                            path=fl.witness(bid, st)))
        if not viol:
            res.sample({"function": fn, "dependencies_checked": len(pairs), "verdict": "every consumer is preceded by its producers on all paths"})
        # zero tolerance at the feasibility checks
        for b, i, c in f.calls():
            if callee(c) in ("mpq_ILLfct_check_pfeasible", "mpq_ILLfct_check_dfeasible"):
                res.obligations += 1
                tol = strip(c[3][2]) if len(c[3]) > 2 else None
                ok = is_var(tol) and tol[2] in ZERO_GLOBALS
                if ok:
                    res.sample({"call": show(c), "verdict": "tolerance argument is the exact zero constant"}, limit=8)
                else:
                    res.violations.append(Violation(rule, "%s|%s with a tolerance other than the exact zero" % (fn, callee(c).replace("mpq_", "")), fn, short_loc(c[4]),
                                                    "%s: the feasibility verdict of the exact functions must be taken at tolerance zero (mpq_zeroLpNum)" % show(c)))
        # verdict store under the right flag
        if cfg["flag"]:
            outp = [k for k, p in enumerate(f.params) if p[0] == "result"]
            targets = {}
            for b, i, e in f.elements():
                if e[0] == "A" and outp:
                    lhs = strip(e[1][2])
                    if isinstance(lhs, list) and lhs and lhs[0] == "u" and lhs[1] == "*" and is_var(lhs[2], kind="p%d" % outp[0]) and const_of(e[1][3]) not in (None, 0):
                        targets[(b["id"], i)] = e[2]
            if not targets:
                raise AnalysisBroken("%s: no store of a non-zero verdict through the out-parameter 'result' found" % fn)
            sts = states_at(prog, f, set(targets), field_pred(cfg["flag"]))
            alt = states_at(prog, f, set(targets), field_pred(cfg["alt"])) if cfg.get("alt") else {}
            for k, loc in targets.items():
                res.obligations += 1
                res.nontrivial += 1
                if sts[k] == {"nonzero"} or (alt and alt[k] == {"nonzero"}):
                    res.sample({"store": "*result = 1 at %s" % short_loc(loc), "verdict": "dominated by basisstat.%s != 0" % cfg["flag"].split("::")[1]})
                else:
                    res.violations.append(Violation(rule, "%s|verdict 1 not under %s" % (fn, cfg["flag"].split("::")[1]), fn, short_loc(loc),
                                                    "*result = 1 is reachable without having passed the test of basisstat.%s" % cfg["flag"].split("::")[1]))
        res.floor("%s: dependency pairs" % fn, len(pairs), 6)
    return res


def run_subject(prog, rule="R-SUBJECT", floor=3):
    """the verdict is about the caller's basis: in every exact verdict function (the functions of exact.c with a QSbasis * parameter - found by
    signature, not by name) the basis parameter variable is never assigned, so every use of it,
    including the call that produces the verdict, refers to the record the caller supplied."""
    res = RuleResult(rule, "an exact verdict function never re-points its basis parameter: every use of it refers to the caller's record")
    n = 0
    for f in sorted(prog.funcs.values(), key=lambda x: x.key):
        if f.live is None or not f.unit.endswith("qsopt_ex/exact.c"):
            continue
        bk = [k for k, p_ in enumerate(f.params) if "QSbasis *" in p_[1] or "qsbasis *" in p_[2]]
        if not bk:
            continue
        for k in bk:
            n += 1
            res.obligations += 1
            res.nontrivial += 1
            bad = None
            for b, i, e in f.elements():
                if e[0] in ("A", "U") and is_var(e[1][2]) and strip(e[1][2])[1] == "p%d" % k:
                    bad = e
            if bad is not None:
                res.violations.append(Violation(rule, "%s|basis parameter %s re-pointed" % (f.name, f.params[k][0]), f.name, short_loc(bad[2]),
                                                "%s assigns its basis parameter: what follows (the optimality test, the rational check) judges another record than "
                                                "the one the caller asked about" % show(bad[1])[:70]))
            else:
                res.sample({"function": f.name, "parameter": f.params[k][0], "verdict": "never assigned"}, limit=8)
    res.counts["verdict_functions_with_a_basis_parameter"] = n
    res.floor("verdict functions with a basis parameter", n, floor)
    return res
