"""R-VERDICT (C12, C05): data dependencies of the exact basis verdicts.
In QSexact_basis_status / _optimalstatus / _dualstatus every call is preceded, on all paths, by the calls that produce
what it consumes (load -> factor -> piz -> dz -> dual check; xbz -> primal check; checks -> status values), the
feasibility checks are made at the exact zero tolerance, the internal lp is rebuilt before the basis is loaded into it,
and the verdict out-parameter is set to 1 only under the status flag that means it."""
import collections

from ..core import walk, strip, is_var, callee, const_of, apath, fields_of, show, short_loc, Flow, AnalysisBroken
from ..guards import states_at, field_pred
from ..result import RuleResult, Violation

DEPS = {
    "mpq_ILLbasis_load": ["mpq_QSload_basis", "mpq_build_internal_lpinfo"],
    "mpq_ILLbasis_factor": ["mpq_ILLbasis_load"],
    "mpq_ILLfct_compute_piz": ["mpq_ILLbasis_factor"],
    "mpq_ILLfct_compute_dz": ["mpq_ILLfct_compute_piz"],
    "mpq_ILLfct_compute_xbz": ["mpq_ILLbasis_factor"],
    "mpq_ILLfct_check_pfeasible": ["mpq_ILLfct_compute_xbz"],
    "mpq_ILLfct_check_dfeasible": ["mpq_ILLfct_compute_dz"],
    "mpq_build_internal_lpinfo": ["mpq_free_internal_lpinfo", "mpq_init_internal_lpinfo"],
    "mpq_ILLfct_compute_phaseI_piz": ["mpq_ILLfct_set_status_values"],
    "mpq_QSgrab_cache": ["mpq_ILLfct_set_status_values"],
}
STATUS_NEEDS_ANY = ["mpq_ILLfct_check_pfeasible", "mpq_ILLfct_check_dfeasible"]
FUNCS = {
    "QSexact_basis_status": {"flag": None},
    "QSexact_basis_optimalstatus": {"flag": "lp_status_info::optimal"},
    "QSexact_basis_dualstatus": {"flag": "lp_status_info::dual_feasible", "alt": "lp_status_info::dual_unbounded"},
}
ZERO_GLOBALS = {"__zeroLpNum_mpq__"}


def run(prog, rule="R-VERDICT"):
    res = RuleResult(rule, "in the exact basis verdict functions every computation is preceded on all paths by its producers, feasibility is "
                           "checked at the exact zero, and the verdict is set only under the matching status flag")
    for fn, cfg in FUNCS.items():
        f = prog.require_fn(fn)
        tracked = set(DEPS) | {x for v in DEPS.values() for x in v} | {"mpq_ILLfct_set_status_values"}
        viol = {}
        seen_calls = set()

        def xfer(b, i, e, st):
            if e[0] != "C":
                return None
            n = callee(e[1])
            if n not in tracked:
                return None
            seen_calls.add(n)
            done = st[0]
            for need in DEPS.get(n, ()):
                if need not in done:
                    viol.setdefault((n, need), (e[2], b["id"], st))
            if n == "mpq_ILLfct_set_status_values" and not any(x in done for x in STATUS_NEEDS_ANY):
                viol.setdefault((n, "a feasibility check"), (e[2], b["id"], st))
            return [(done | {n},)]
        fl = Flow(prog, f, [(frozenset(),)], xfer, None).run()
        pairs = [(n, need) for n in DEPS if n in seen_calls for need in DEPS[n]]
        res.obligations += len(pairs) + 1
        res.nontrivial += len(pairs) + 1
        for (n, need), (loc, bid, st) in sorted(viol.items()):
            res.violations.append(Violation(rule, "%s|%s not preceded by %s" % (fn, n.replace("mpq_", ""), need.replace("mpq_", "")), fn, short_loc(loc),
                                            "%s can be reached on a path that has not executed %s, whose result it consumes" % (n, need),
                                            path=fl.witness(bid, st)))
        if not viol:
            res.sample({"function": fn, "dependencies_checked": len(pairs), "verdict": "every consumer is preceded by its producers on all paths"})
        # zero tolerance at the feasibility checks
        for b, i, c in f.calls():
            if callee(c) in ("mpq_ILLfct_check_pfeasible", "mpq_ILLfct_check_dfeasible"):
                res.obligations += 1
                tol = strip(c[3][2]) if len(c[3]) > 2 else None
                ok = is_var(tol) and tol[2] in ZERO_GLOBALS
                if ok:
                    res.sample({"call": show(c), "verdict": "tolerance argument is the exact zero constant"}, limit=8)
                else:
                    res.violations.append(Violation(rule, "%s|%s with a tolerance other than the exact zero" % (fn, callee(c).replace("mpq_", "")), fn, short_loc(c[4]),
                                                    "%s: the feasibility verdict of the exact functions must be taken at tolerance zero (mpq_zeroLpNum)" % show(c)))
        # verdict store under the right flag
        if cfg["flag"]:
            outp = [k for k, p in enumerate(f.params) if p[0] == "result"]
            targets = {}
            for b, i, e in f.elements():
                if e[0] == "A" and outp:
                    lhs = strip(e[1][2])
                    if isinstance(lhs, list) and lhs and lhs[0] == "u" and lhs[1] == "*" and is_var(lhs[2], kind="p%d" % outp[0]) and const_of(e[1][3]) not in (None, 0):
                        targets[(b["id"], i)] = e[2]
            if not targets:
                raise AnalysisBroken("%s: no store of a non-zero verdict through the out-parameter 'result' found" % fn)
            sts = states_at(prog, f, set(targets), field_pred(cfg["flag"]))
            alt = states_at(prog, f, set(targets), field_pred(cfg["alt"])) if cfg.get("alt") else {}
            for k, loc in targets.items():
                res.obligations += 1
                res.nontrivial += 1
                if sts[k] == {"nonzero"} or (alt and alt[k] == {"nonzero"}):
                    res.sample({"store": "*result = 1 at %s" % short_loc(loc), "verdict": "dominated by basisstat.%s != 0" % cfg["flag"].split("::")[1]})
                else:
                    res.violations.append(Violation(rule, "%s|verdict 1 not under %s" % (fn, cfg["flag"].split("::")[1]), fn, short_loc(loc),
                                                    "*result = 1 is reachable without having passed the test of basisstat.%s" % cfg["flag"].split("::")[1]))
        res.floor("%s: dependency pairs" % fn, len(pairs), 6)
    return res


def run_subject(prog, rule="R-SUBJECT", floor=3):
    """the verdict is about the caller's basis: in every exact verdict function (the functions of exact.c with a QSbasis * parameter - found by
    signature, not by name) the basis parameter variable is never assigned, so every use of it,
    including the call that produces the verdict, refers to the record the caller supplied."""
    res = RuleResult(rule, "an exact verdict function never re-points its basis parameter: every use of it refers to the caller's record")
    n = 0
    for f in sorted(prog.funcs.values(), key=lambda x: x.key):
        if f.live is None or not f.unit.endswith("qsopt_ex/exact.c"):
            continue
        bk = [k for k, p_ in enumerate(f.params) if "QSbasis *" in p_[1] or "qsbasis *" in p_[2]]
        if not bk:
            continue
        for k in bk:
            n += 1
            res.obligations += 1
            res.nontrivial += 1
            bad = None
            for b, i, e in f.elements():
                if e[0] in ("A", "U") and is_var(e[1][2]) and strip(e[1][2])[1] == "p%d" % k:
                    bad = e
            if bad is not None:
                res.violations.append(Violation(rule, "%s|basis parameter %s re-pointed" % (f.name, f.params[k][0]), f.name, short_loc(bad[2]),
                                                "%s assigns its basis parameter: what follows (the optimality test, the rational check) judges another record than "
                                                "the one the caller asked about" % show(bad[1])[:70]))
            else:
                res.sample({"function": f.name, "parameter": f.params[k][0], "verdict": "never assigned"}, limit=8)
    res.counts["verdict_functions_with_a_basis_parameter"] = n
    res.floor("verdict functions with a basis parameter", n, floor)
    return res


def _reads_fields(f, needles):
    got = set()
    for bid in f.live:
        c = f.blocks[bid].get("c")
        trees = [c] if c is not None else []
        for e in f.blocks[bid]["e"]:
            if e[0] == "D":
                trees += [x[1] for x in e[1] if x[1] is not None]
            elif len(e) > 1 and isinstance(e[1], list):
                trees.append(e[1])
        for t in trees:
            for nd in walk(t):
                if isinstance(nd, list) and nd and nd[0] == "m" and isinstance(nd[2], str):
                    for n in needles:
                        if nd[2].endswith(n):
                            got.add(n)
    return got


def run_basicdual(prog, rule="R-BASICDUAL", floor=3):
    """a verdict about a basis rests on the basic dual solution of that basis.  In every exact verdict function (the functions of exact.c
    with a QSbasis * parameter and an int * / char * out-parameter through which nothing but literal 0 and 1 is stored) a store of a non-zero constant through the out-parameter is reached only over
    paths that (i) pass a call whose callees include the routine that computes the basic dual solution in exact arithmetic
    (mpq_ILLfct_compute_piz, behind load and factor: R-VERDICT) or (ii) leave, on its non-zero edge, a condition that calls a function which
    compares the basis statuses (qsbasis::cstat and ::rstat) with the reduced costs and duals of the cached solution
    (ILLlp_cache::rc, ::pi) - the reduced cost of every basic variable vanishes iff the vector is the basic dual solution.  A test of
    a primal / dual pair for optimality alone (QSexact_optimal_test) is a statement about the problem, not about the basis: at a
    degenerate vertex every optimal dual vector passes it, for every primal feasible basis of the vertex."""
    res = RuleResult(rule, "a non-zero verdict about a caller's basis is stored only behind the exact basic dual solution of that basis, or behind a test "
                           "that ties the tested dual vector to the basis")
    target = [f for f in prog.funcs.values() if f.name == "mpq_ILLfct_compute_piz" and f.live is not None]
    if not target:
        raise AnalysisBroken("R-BASICDUAL: mpq_ILLfct_compute_piz not found")
    tkey = target[0].key
    reach_cache = {}

    def reaches(g):
        if g.key not in reach_cache:
            reach_cache[g.key] = tkey in prog.reachable([g.key])
        return reach_cache[g.key]

    ties = set()
    for g in prog.funcs.values():
        if g.live is None or not g.unit.endswith("qsopt_ex/exact.c"):
            continue
        if len(_reads_fields(g, ("qsbasis::cstat", "qsbasis::rstat", "ILLlp_cache::rc", "ILLlp_cache::pi"))) == 4 and "int" in g.ret and len(g.blocks) < 40:
            ties.add(g.key)
    res.counts["functions_that_tie_a_dual_vector_to_a_basis"] = sorted(prog.funcs[k].name for k in ties)
    n = 0
    for f in sorted(prog.funcs.values(), key=lambda x: x.key):
        if f.live is None or not f.unit.endswith("qsopt_ex/exact.c"):
            continue
        if not any("QSbasis *" in p_[1] or "qsbasis *" in p_[2] for p_ in f.params):
            continue
        outs = {p_[0] for p_ in f.params if p_[1].replace(" ", "") in ("int*", "int*const", "char*", "char*const")}
        if not outs:
            continue
        stores = []
        for b, i, e in f.elements():
            if e[0] == "A" and e[1][1] == "=":
                l = strip(e[1][2])
                if isinstance(l, list) and l and l[0] == "u" and l[1] == "*" and is_var(strip(l[2])) and strip(l[2])[2] in outs \
                        and str(strip(l[2])[1]).startswith("p") and const_of(e[1][3]) not in (None, 0):
                    stores.append((b["id"], i, e))
        # a verdict out-parameter: everything the function stores through it is a literal 0 or 1 (status codes and algorithm selectors are
        # macro constants with other values)
        allst = collections.defaultdict(list)
        for b, i, e in f.elements():
            if e[0] == "A":
                l = strip(e[1][2])
                if isinstance(l, list) and l and l[0] == "u" and l[1] == "*" and is_var(strip(l[2])) and strip(l[2])[2] in outs:
                    r = strip(e[1][3])
                    allst[strip(l[2])[2]].append(r[1] if (e[1][1] == "=" and isinstance(r, list) and r and r[0] == "n" and not r[2]) else None)
        verdicts = {v for v, vals in allst.items() if vals and all(x in (0, 1) for x in vals) and 0 in vals and 1 in vals}
        stores = [(bid, i, e) for bid, i, e in stores if strip(strip(e[1][2])[2])[2] in verdicts]
        if not stores:
            continue
        skeys = {(bid, i) for bid, i, e in stores}
        bad = {}

        def has_call(t, pred):
            for nd in walk(t):
                if isinstance(nd, list) and nd and nd[0] == "c" and nd[1]:
                    g = prog.resolve(f, nd[1])
                    if g is not None and pred(g):
                        return True
            return False

        def xfer(b, i, e, st):
            trees = [x[1] for x in e[1] if x[1] is not None] if e[0] == "D" else ([e[1]] if len(e) > 1 and isinstance(e[1], list) else [])
            if st == (0,) and any(has_call(t, lambda g: g.live is not None and reaches(g)) for t in trees):
                st = (1,)
            if (b["id"], i) in skeys and st == (0,):
                bad.setdefault((b["id"], i), (e, st))
            return [st]

        def refine(cond, truth, st):
            if st == (1,):
                return [st]
            from ..cond import atoms
            for l, op, r in atoms(cond, truth):
                for a, b_, o in ((l, r, op), (r, l, op)):
                    a0 = strip(a)
                    if isinstance(a0, list) and a0 and a0[0] == "c" and a0[1] and const_of(b_) == 0 and o == "!=":
                        g = prog.resolve(f, a0[1])
                        if g is not None and g.key in ties:
                            return [(1,)]
            return [st]

        fl = Flow(prog, f, [(0,)], xfer, refine).run()
        for (bid, i, e) in stores:
            n += 1
            res.obligations += 1
            res.nontrivial += 1
            if (bid, i) in bad:
                res.violations.append(Violation(rule, "%s|verdict stored without the basic dual solution of the basis" % f.name, f.name, short_loc(e[2]),
                                                "%s is reached over a path that neither computes the exact basic dual solution of the basis (no callee reaches "
                                                "mpq_ILLfct_compute_piz) nor ties the tested dual vector to the basis (reduced costs of the basic variables): what was "
                                                "tested is an optimal pair for the problem, which at a degenerate vertex exists for every primal feasible basis of it" % show(e[1])[:40],
                                                path=fl.witness(bid, bad[(bid, i)][1])))
            else:
                res.sample({"function": f.name, "store": "%s %s" % (short_loc(e[2]), show(e[1])[:40]), "verdict": "behind the basic dual solution / a tie test"}, limit=10)
    res.counts["verdict_stores"] = n
    res.floor("stores of a non-zero verdict through an out-parameter of a basis verdict function", n, floor)
    return res
