"""R-VTYPEZERO (C01, C05, C12): only a free variable is ever made 'non-basic at zero'.

The simplex keeps a non-basic variable at its lower bound (STAT_LOWER), at its upper bound (STAT_UPPER) or - when it has no bound at
all - at zero (STAT_ZERO); ILLsimplex_solution and compute_xbz take the value of a non-basic variable from that status.  Wherever the
status is chosen from the variable's type (vtype in {VARTIFICIAL, VFIXED, VFREE, VUPPER, VLOWER, VBOUNDED}), STAT_ZERO may be chosen
for VFREE only: any other type that lands on STAT_ZERO (a fixed variable thrown out of a singular basis by the repair in
ILLbasis_factor) is reported as 0 although its bounds exclude 0, and the 'optimal' solution violates the bounds.  The type value is
enumerated through the if / switch forms of every function that compares an expression with the V* constants and assigns STAT_*."""
import collections

from ..core import strip, is_var, const_of, show, short_loc, walk, Flow
from ..result import RuleResult, Violation

VT = {"VARTIFICIAL": 1, "VFIXED": 2, "VFREE": 4, "VUPPER": 8, "VLOWER": 16, "VBOUNDED": 32}
STAT_ZERO = "STAT_ZERO"


def _selectors(f):
    """source texts of the expressions compared with a V* constant in this function"""
    out = collections.Counter()
    for bid in f.live:
        b = f.blocks[bid]
        c = b.get("c")
        if c is not None:
            for nd in walk(c):
                if nd[0] == "b" and nd[1] in ("==", "!="):
                    for a, k in ((nd[2], nd[3]), (nd[3], nd[2])):
                        k = strip(k)
                        if isinstance(k, list) and k and k[0] == "n" and k[2] in VT:
                            out[show(strip(a))] += 1
        l = b.get("l")
    for b in f.blocks.values():
        if b.get("t") == "SwitchStmt" and b.get("c") is not None and b["id"] in f.live:
            labs = [f.blocks[x].get("l") for x in b["s"] if x is not None]
            if any(l and l[0] == "case" and l[2] in VT for l in labs):
                out[show(strip(b["c"]))] += 1
    return out


def _ev(t, sel, val):
    t = strip(t)
    if not isinstance(t, list) or not t:
        return None
    k = const_of(t)
    if k is not None:
        return k
    if show(t) == sel:
        return val
    if t[0] == "u" and t[1] == "!":
        v = _ev(t[2], sel, val)
        return None if v is None else int(not v)
    if t[0] == "b":
        a, b = _ev(t[2], sel, val), _ev(t[3], sel, val)
        if t[1] == "&&":
            if a == 0 or b == 0:
                return 0
            return None if a is None or b is None else 1
        if t[1] == "||":
            if (a not in (None, 0)) or (b not in (None, 0)):
                return 1
            return None if a is None or b is None else 0
        if a is None or b is None:
            return None
        ops = {"==": a == b, "!=": a != b}
        return int(ops[t[1]]) if t[1] in ops else None
    return None


def run(prog, rule="R-VTYPEZERO"):
    res = RuleResult(rule, "where a non-basic status is chosen from the variable type, STAT_ZERO is reachable for VFREE only")
    nfun = 0
    for f in sorted(prog.funcs.values(), key=lambda x: x.key):
        if "_dbl." in f.unit or "_mpf." in f.unit or f.live is None or not f.unit.startswith("qsopt_ex/"):
            continue
        zero_sites = [(b["id"], i, e) for b, i, e in f.elements() if e[0] == "A" and e[1][1] == "="
                      and isinstance(strip(e[1][3]), list) and strip(e[1][3])[0] == "n" and strip(e[1][3])[2] == STAT_ZERO]
        if not zero_sites:
            continue
        sels = list(_selectors(f))
        if not sels:
            continue
        nfun += 1
        for sel in sels:
            for name, val in VT.items():
                hit = {}

                def xfer(b, i, e, st, hit=hit):
                    for (bid, idx, e0) in zero_sites:
                        if bid == b["id"] and idx == i:
                            hit.setdefault((bid, idx), e0)
                    return None

                def refine(cond, truth, st, sel=sel, val=val):
                    v = _ev(cond, sel, val)
                    if v is None:
                        return None
                    return [st] if bool(v) == truth else []
                def rsw(cond, value, allv, st, sel=sel, val=val):
                    if show(strip(cond)) == sel:
                        if value is None:
                            return [st] if val not in allv else []
                        return [st] if value == val else []
                    return [st]
                Flow(prog, f, [(0,)], xfer, refine, rsw).run()
                res.obligations += 1
                res.nontrivial += 1
                if hit and name != "VFREE":
                    e0 = list(hit.values())[0]
                    key = "%s|STAT_ZERO chosen for %s" % (f.name.replace("mpq_", ""), name)
                    if not any(v.key == key for v in res.violations):
                        res.violations.append(Violation(rule, key, f.name, short_loc(e0[2]),
                                                        "%s is reachable when %s == %s: a variable of that type is made non-basic 'free at zero' and is then "
                                                        "reported with the value 0, although its bounds need not contain 0" % (show(e0[1])[:60], sel, name)))
                elif name == "VFREE":
                    res.sample({"function": f.name, "selector": sel, "verdict": "STAT_ZERO %s for VFREE" % ("reachable" if hit else "not assigned")}, limit=6)
    res.counts["functions_choosing_a_status_by_type"] = nfun
    res.floor("functions choosing STAT_ZERO by variable type", nfun, 2)
    return res
