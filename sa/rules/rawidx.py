"""R-RAWIDX (C10, C11, C17): the raw-LP to LP conversion does not mix its two numberings.

convert_rawlpdata_to_lpdata drops unused rows and columns: the raw LP numbers them 0..raw->ncols-1 / 0..raw->nrows-1, the LP 0..lp->ncols-1 /
0..lp->nrows-1, and the int maps colindex[] / rowindex[] (entries -1 for dropped items) translate.  In the conversion functions an index
variable is *raw* inside a loop whose header bounds it by a dimension of the raw LP, *lp* inside a loop that bounds it by a dimension of the
LP (the class is decided per enclosing natural loop: the same int is re-used for both), and *lp* when all its values are loaded from one of the maps.  An
array of the LP subscripted with a raw index (lp->colnames[i] in the 'Multiple coefficients' warning of buildMatrix on the pinned tree:
a heap read past the array once an earlier column was dropped) or an array of the raw LP subscripted with an lp index (a bound copied
from the wrong column) is reported."""
import collections

from ..core import walk, strip, is_var, const_of, apath, fields_of, show, short_loc
from ..result import RuleResult, Violation

RAW_REC, LP_REC = "rawlpdata", "ILLlpdata"


def _excludes_dropped(prog, f, dom, succ, bid, v):
    from ..cond import atoms, SWAP
    preds = {}
    for a, ss in succ.items():
        for x in ss:
            preds.setdefault(x, set()).add(a)
    for d in dom.get(bid, ()):
        blk = f.blocks[d]
        c = blk.get("c")
        if c is None:
            continue
        ss = prog.live_succs(f, blk)
        if blk.get("t") == "SwitchStmt":
            if "rowsense" in show(c):
                for s_ in ss:
                    if s_ is None:
                        continue
                    lab = f.blocks[s_].get("l")
                    if lab and lab[0] == "case" and lab[1] != ord("N") and (s_ == bid or s_ in dom.get(bid, ())):
                        return True
            continue
        if len(ss) != 2:
            continue
        for idx, s_ in enumerate(ss):
            if s_ is None or not (s_ == bid or s_ in dom.get(bid, ())) or preds.get(s_, set()) != {d}:
                continue
            for l, op, r in atoms(c, idx == 0):
                for a, b_, o in ((l, r, op), (r, l, SWAP[op])):
                    # the if / else-if form of the switch on the raw row's sense
                    if "rowsense" in show(a) and const_of(b_) is not None and ((o == "==" and const_of(b_) != ord("N")) or (o == "!=" and const_of(b_) == ord("N"))):
                        return True
                    if is_var(a, name=v, kind="l"):
                        cb = const_of(b_)
                        if cb is not None and ((o == "!=" and cb == -1) or (o == ">=" and cb >= 0) or (o == ">" and cb >= -1)):
                            return True
    return False


def run(prog, unit="rawlp_mpq.c", rule="R-RAWIDX"):
    res = RuleResult(rule, "in the raw-LP conversion no array of the LP is subscripted with a raw index and no array of the raw LP with an index "
                           "loaded from colindex[] / rowindex[]")
    nsub = 0
    nfun = 0
    nmapped = [0]
    for f in sorted(prog.funcs.values(), key=lambda x: x.key):
        if unit not in f.unit or f.live is None:
            continue
        maps = {p[0] for p in f.params if p[2].replace("const ", "").strip() == "int *"}
        if not maps:
            continue
        # classes of int locals
        assigns = collections.defaultdict(list)
        for b, i, e in f.elements():
            if e[0] == "A" and e[1][1] == "=" and is_var(e[1][2], kind="l"):
                assigns[strip(e[1][2])[2]].append(e[1][3])
            elif e[0] == "D":
                for n2, init in e[1]:
                    if init is not None:
                        assigns[n2].append(init)
        cls = {}
        for v, rs in assigns.items():
            if rs and all(isinstance(strip(r), list) and strip(r)[0] == "i" and is_var(strip(r)[1]) and strip(strip(r)[1])[2] in maps for r in rs):
                cls[v] = "lp"
        # loop-local typing: inside a loop whose header tests  v < raw->ncols / nrows  v is raw; v < lp->ncols / nrows / nstruct: lp
        from .certdep import natural_loops
        loops, dom, succ = natural_loops(prog, f)
        loopcls = {}                 # header -> (var, class)
        for h in loops:
            c = f.blocks[h].get("c")
            if c is None:
                continue
            c0 = strip(c)
            if isinstance(c0, list) and c0 and c0[0] == "b" and c0[1] in ("<", "<=") and is_var(c0[2], kind="l"):
                r = strip(c0[3])
                if isinstance(r, list) and r and r[0] == "m" and r[2].split("::")[1] in ("ncols", "nrows", "nstruct"):
                    rec = r[2].split("::")[0]
                    k2 = "raw" if rec.endswith(RAW_REC) else "lp" if rec.endswith(LP_REC) else None
                    if k2:
                        loopcls[h] = (strip(c0[2])[2], k2)

        def class_at(bid, v):
            inner = sorted((h for h in loops if bid in loops[h] and h in loopcls and loopcls[h][0] == v), key=lambda h: len(loops[h]))
            if inner:
                return loopcls[inner[0]][1]
            return cls.get(v)
        if not any(v == "lp" for v in cls.values()) and not loopcls:
            continue
        nfun += 1

        def loop_typed(bid, v):
            return any(bid in loops[h] and h in loopcls and loopcls[h][0] == v for h in loops)
        for b, i, e in f.elements():
            if e[0] != "S":
                continue
            t = strip(e[1])
            if not (isinstance(t, list) and t and t[0] == "i" and is_var(t[2], kind="l")):
                continue
            ic = class_at(b["id"], strip(t[2])[2])
            if ic is None:
                continue
            fl = fields_of(apath(t[1])[2])
            if not fl:
                continue
            rec = fl[-1].split("::")[0]
            side = "raw" if rec.endswith(RAW_REC) else "lp" if rec.endswith(LP_REC) else None
            if side is None or fl[-1].split("::")[1] in ("rowindex", "colindex"):
                continue
            nsub += 1
            res.obligations += 1
            if ic == side:
                # a mapped index is -1 for a dropped item (unused column, N row): the subscript needs a test that excludes it - a comparison
                # of the index itself, or a case of a switch on the raw item's kind (raw->rowsense[i]) other than 'N'
                v = strip(t[2])[2]
                if side == "lp" and cls.get(v) == "lp" and not loop_typed(b["id"], v):
                    nmapped[0] += 1
                    if not _excludes_dropped(prog, f, dom, succ, b["id"], v):
                        res.nontrivial += 1
                        res.violations.append(Violation(rule, "%s|%s[%s]: mapped index used without excluding -1" % (f.name.replace("mpq_", ""), fl[-1].split("::")[1], v),
                                                        f.name, short_loc(e[2]),
                                                        "%s[%s]: %s is loaded from the raw-to-LP map, which holds -1 for dropped items (unused columns, N rows); no test of %s "
                                                        "(!= -1, >= 0) and no case of a switch on the raw row's sense other than 'N' dominates this subscript: for a "
                                                        "dropped item the access lands before the array" % (show(t[1])[:40], v, v, v)))
                continue
            res.nontrivial += 1
            res.violations.append(Violation(rule, "%s|%s[%s]: %s index into an array of the %s" % (f.name.replace("mpq_", ""), fl[-1].split("::")[1], strip(t[2])[2], ic,
                                                                                                 "raw LP" if side == "raw" else "LP"), f.name, short_loc(e[2]),
                                            "%s is an array of the %s but is subscripted with %s, which is %s: the two numberings differ as soon as an "
                                            "unused row or column has been dropped" % (show(t[1])[:40], "raw LP" if side == "raw" else "converted LP", strip(t[2])[2],
                                                                                        "a raw index (bounded by a dimension of the raw LP)" if ic == "raw" else "loaded from the raw-to-LP map")))
    res.counts["subscripts_by_a_mapped_index"] = nmapped[0]
    res.counts["typed_subscripts"] = nsub
    res.counts["conversion_functions"] = nfun
    res.floor("typed subscripts in the conversion functions", nsub, 15)
    return res
