"""R-BUF (C11, C17, C19): every copy / format into a buffer is bounded by the buffer.

Census of strcpy, strcat, sprintf, vsprintf, gets, sscanf/fscanf("%s"), strncpy/memcpy/snprintf/... in live code.
A site is discharged automatically when the bound is visible in the call: explicit size not larger than the
destination array; literal / %d-class sources that fit; a source array no larger than the destination array; a
destination allocated from strlen(source)+1 in the same function.  Everything else needs an exception with a reason
naming that one site, or is a violation."""
import re

from ..core import walk, strip, is_var, callee, const_of, apath, fields_of, show, short_loc, AnalysisBroken
from ..result import RuleResult, Violation

def _remaining_room(prog, f, dst, size):
    """the size argument is  K - (P - B)  with P the destination cursor, B an array of at least K bytes - written in place or returned by a
    one-expression helper to which the record holding cursor and array is passed"""
    def unk(t):
        while isinstance(t, list) and t and t[0] == "k":
            t = t[2]
        return t

    def matches(expr, subst):
        e = unk(expr)
        if not (isinstance(e, list) and e and e[0] == "b" and e[1] == "-"):
            return False
        K = const_of(e[2])
        d = unk(e[3])
        if K is None or not (isinstance(d, list) and d and d[0] == "b" and d[1] == "-"):
            return False
        P, B = show(unk(d[2])), show(unk(d[3]))
        for a_, b_ in subst:
            P, B = P.replace(a_, b_), B.replace(a_, b_)
        if P != show(unk(dst)):
            return False
        # the array: a record field / local array of at least K bytes
        bt = unk(d[3])
        size = None
        if isinstance(bt, list) and bt and bt[0] == "m":
            rec, fld = bt[2].split("::")
            for x in (prog.records.get(rec) or {}).get("fields", ()):
                if x[0] == fld:
                    m_ = __import__("re").search(r"\[(\d+)\]", x[1])
                    size = int(m_.group(1)) if m_ else None
        return size is not None and K <= size
    if matches(size, []):
        return True
    s0 = unk(size)
    if isinstance(s0, list) and s0 and s0[0] == "c" and s0[1]:
        g = prog.resolve(f, s0[1])
        if g is not None and g.live is not None:
            rets = [e for b_, i_, e in g.elements() if e[0] == "R" and e[1] is not None]
            others = [e for b_, i_, e in g.elements() if e[0] not in ("R",)]
            if len(rets) == 1 and not others:
                subst = [(g.params[k_][0], show(unk(a))) for k_, a in enumerate(s0[3]) if k_ < len(g.params)]
                return matches(rets[0][1], subst)
    return False


UNBOUNDED = {"strcpy": (0, 1), "strcat": (0, 1), "sprintf": (0, None), "vsprintf": (0, None), "gets": (0, None)}
BOUNDED = {"snprintf": (0, 1), "vsnprintf": (0, 1), "strncpy": (0, 2), "strncat": (0, 2), "memcpy": (0, 2), "memmove": (0, 2)}
SCANF = {"sscanf": 1, "fscanf": 1}

EXCEPTIONS = {
    ("mpq_ILLmps_next_field", "sscanf", "state->field"): "source is state->p, a position inside state->line[ILL_namebufsize]; the token it copies is shorter than the line, and field has the same size",
    ("mpq_ILLmps_next_line", "sscanf", "state->key"): "source is a position inside state->line[ILL_namebufsize]; key has the same size",
    ("mpq_ILLmps_next_line", "sscanf", "state->field"): "source is a position inside state->line[ILL_namebufsize]; field has the same size",
    ("next_field", "sscanf", "state->field"): "source is state->p inside state->line[ILL_namebufsize]; field is one byte larger",
    ("mpq_ILLread_lp_state_next_var", "strncpy", "state->field"): "var_len counts characters of state->p inside state->line[ILL_namebufsize]; field is one byte larger than the line",
    ("make_var", "strncpy", "p"): "p points into new_var, allocated in the same function as strlen(prefix) + nlen + 1 bytes",
    ("make_var", "strcpy", "new_var"): "new_var is allocated in the same function as strlen(prefix) + nlen + 1 bytes",
    ("add_string", "strcpy", "(h->namelist + h->strsize)"): "the namelist is grown (strspace) to hold strsize + strlen(s) + 1 before the copy, in the same function",
    ("__EGgmp_realloc", "memcpy", "rptr"): "msz is the smaller of the old and new block sizes of the GMP allocator hook",
    ("ILLgenerate_names", "strcpy", "*names[i]"): "names[i] is allocated with strlen(buf) + 1 just above",
    ("mpq_ILLlib_colnames", "strcpy", "colnames[i]"): "colnames[i] is allocated with strlen of the source + 1 just above (ILL_SAFE_MALLOC)",
    ("mpq_ILLlib_rownames", "strcpy", "rownames[i]"): "rownames[i] is allocated with strlen of the source + 1 just above",
    ("mpq_ILLlib_getcols", "strcpy", "*names[i]"): "allocated with strlen of the source + 1 just above",
    ("mpq_ILLlib_getrows", "strcpy", "*names[i]"): "allocated with strlen of the source + 1 just above",
    ("grab_lp_info", "strcpy", "info->colnames[ncols]"): "allocated with strlen of the source + 1 just above",
    ("mpq_ILLformat_error_create", "strcpy", "error->desc"): "allocated with strlen(desc) + 1 just above",
    ("mpq_ILLformat_error_create", "strcpy", "error->theLine"): "allocated with strlen(theLine) + 1 just above",
    ("mpq_QScreate_prob", "strcpy", "p->name"): "allocated with strlen(name) + 1 just above",
    ("mpq_QScreate_prob", "strcpy", "p->qslp->probname"): "allocated with strlen(p->name) + 1 just above",
    ("ILLutil_str", "strcpy", "cpy"): "cpy is allocated with strlen(str) + 1 in the same function",
    ("ILLsymboltab_uname", "sprintf", "prefix"): "try_prefix[0] is a short literal prefix at every call site (\"c\", \"x\", \"\", \"obj\"...); destination is char[ILL_namebufsize]",
    ("ILLsymboltab_uname", "sprintf", "new"): "new_pre is cut to ILL_namebufsize - numlen - 1 bytes on the line above, numlen >= 2 being an integer digit count of nvars (R-FLOATIDX makes sure it is not computed in floating point); \"_%d\" with i <= nvars adds at most numlen characters",
    ("ILLsymboltab_uname", "strcpy", "name"): "name is declared char name[ILL_namebufsize] (array parameter); new is a local of the same size",
    ("ILLsymboltab_unique_name", "sprintf", "uname2"): "uname2 is declared char uname2[ILL_namebufsize]; \"%d\" needs at most 12 bytes",
    ("fix_names", "strcpy", "buf"): "names are shorter than ILL_namebufsize at every entry: reader tokens live in ILL_namebufsize line buffers and ILLlib_findName truncates API names with snprintf(buf, ILL_namebufsize, ...)",
    ("read_objective", "strcpy", "objname"): "name is state->field, a token of a line of at most ILL_namebufsize-2 bytes; objname is char[ILL_namebufsize]",
    ("add_bounds", "strcpy", "bndtype"): "dominated by ILLutil_index(mps_bound_name, state->field) >= 0: the field equals one of the two-letter bound type mnemonics",
    ("mpq_ILLread_lp_state_next_line", "strcpy", "state->line"): "source realline and destination line are both char[ILL_namebufsize]; realline is filled with at most ILL_namebufsize-2 bytes",
}
# genuine but not repaired (see known_findings.json): single items longer than the 128 KiB line buffer of the LP writer
LPWRITER = {"mpq_ILLwrite_lp_state_append", "append_number", "mpq_ILLwrite_lp_state_append_coef"}


def _resolve_local(f, t, depth=0):
    """a local that has exactly one definition in the function stands for the expression it was given"""
    t0 = strip(t)
    if not is_var(t0, kind="l") or depth > 2:
        return t
    defs = []
    for b, i, e in f.elements(live_only=False):
        if e[0] == "D":
            defs += [init for nme, init in e[1] if nme == t0[2]]
        elif e[0] == "A" and is_var(strip(e[1][2]), kind="l", name=t0[2]):
            defs.append(e[1][3] if e[1][1] == "=" else None)
        elif e[0] == "U" and is_var(strip(e[1][2]), kind="l", name=t0[2]):
            defs.append(None)
    defs = [d for d in defs if d is not None or True]
    real = [d for d in defs if d is not None]
    if len(real) == 1 and len([d for d in defs if d is None]) <= 1 and all(d is None or d is real[0] for d in defs):
        # one initialising definition (a declaration without initialiser may precede it)
        if any(d is None for d in defs) and not any(True for b, i, e in f.elements(live_only=False) if e[0] == "D" and any(nme == t0[2] and init is None for nme, init in e[1])):
            return t
        return _resolve_local(f, real[0], depth + 1)
    return t


def array_size(prog, f, t):
    """size in bytes of the fixed char array denoted by t, or None"""
    t = strip(t)
    ty = None
    if is_var(t, kind="l"):
        ty = f.ltypes.get(t[2])
    elif is_var(t, kind="p"):
        ty = None
    elif isinstance(t, list) and t and t[0] == "m":
        rec, fld = t[2].split("::")
        r = prog.records.get(rec)
        if r:
            for fn, ft, ct in r["fields"]:
                if fn == fld:
                    ty = ct
    if ty:
        m = re.match(r"^(?:unsigned )?char\s*\[(\d+)\]$", ty.replace("const ", ""))
        if m:
            return int(m.group(1))
    return None


def alloc_size(f, t):
    """byte size when the destination (local pointer or field) is assigned, in the same function, from an allocation with a
    constant size"""
    want = show(strip(t))
    for b, i, e in f.elements():
        if e[0] == "A" and e[1][1] == "=" and show(strip(e[1][2])) == want:
            for nd in walk(e[1][3]):
                if nd[0] == "c" and callee(nd) in ("ILLutil_allocrus", "malloc", "calloc") and nd[3]:
                    sz = const_of(nd[3][0])
                    if sz is not None:
                        return sz
    return None


def fmt_max(prog, f, fmt, args):
    """upper bound of the formatted length, or None if unbounded / unknown"""
    n = 0
    i = 0
    ai = 0
    while i < len(fmt):
        ch = fmt[i]
        if ch != "%":
            n += 1
            i += 1
            continue
        j = i + 1
        if j < len(fmt) and fmt[j] == "%":
            n += 1
            i = j + 1
            continue
        while j < len(fmt) and fmt[j] in "0123456789.-+ #lhz":
            j += 1
        if j >= len(fmt):
            return None
        conv = fmt[j]
        spec = fmt[i:j + 1]
        width = re.search(r"(\d+)", spec)
        if conv in "di":
            n += max(21 if "l" in spec else 11, int(width.group(1)) if width else 0)
        elif conv in "ux":
            n += max(20 if "l" in spec else 10, int(width.group(1)) if width else 0)
        elif conv == "c":
            n += 1
        elif conv == "n":
            pass
        elif conv == "s":
            if ai < len(args):
                a = strip(args[ai])
                if isinstance(a, list) and a and a[0] == "s":
                    n += len(a[1])
                else:
                    sz = array_size(prog, f, a)
                    if sz is None:
                        return None
                    n += sz - 1
            else:
                return None
        else:
            return None
        ai += 1
        i = j + 1
    return n


def strlen_sized(f, dst, src):
    """is there, in the same function, an allocation whose size mentions strlen(<src>)?"""
    want = show(src)
    for b, i, c in f.calls():
        if callee(c) == "strlen" and c[3] and show(c[3][0]) == want:
            return True
    return False


def run(prog, scope_units=None, scope_funcs=None, rule="R-BUF", exceptions=EXCEPTIONS, floor=None):
    res = RuleResult(rule, "every copy or format into a buffer is bounded by the buffer (explicit size, fitting literal / integer "
                           "sources, no larger source array, or destination sized from strlen of the source)")
    cls = {}
    undecided = []
    for f in sorted(prog.funcs.values(), key=lambda x: x.key):
        if "_dbl." in f.unit or "_mpf." in f.unit:
            continue
        if scope_units and not any(u in f.unit for u in scope_units):
            continue
        if scope_funcs is not None and f.key not in scope_funcs:
            continue
        for b, i, c in f.calls():
            n = callee(c)
            if n not in UNBOUNDED and n not in BOUNDED and n not in SCANF:
                continue
            args = c[3]
            verdict = None
            dst = None
            if n in SCANF:
                fmt = strip(args[SCANF[n]]) if len(args) > SCANF[n] else None
                if not (fmt and fmt[0] == "s" and "%s" in fmt[1]):
                    continue      # numeric conversions only
                dst = args[SCANF[n] + 1] if len(args) > SCANF[n] + 1 else None
            else:
                dst = args[0] if args else None
            if dst is None:
                continue
            res.obligations += 1
            dtxt = show(dst)
            dsz = array_size(prog, f, dst)
            if dsz is None:
                dsz = alloc_size(f, dst)
            if n in BOUNDED:
                k = BOUNDED[n][1]
                if len(args) > k:
                    args = list(args)
                    args[k] = _resolve_local(f, args[k])      # const size_t bufsize = sizeof (buffer); need = (size_t) n + 1;
                sz = const_of(args[k]) if len(args) > k else None
                if sz is not None:
                    if dsz is None or sz <= dsz:
                        verdict = "explicit size %d%s" % (sz, (" <= destination %d" % dsz) if dsz else "")
                    else:
                        verdict = None
                        res.violations.append(Violation(rule, "%s|%s into %s: size %d exceeds the %d-byte destination" % (f.name.replace("mpq_", ""), n, dtxt, sz, dsz),
                                                        f.name, short_loc(c[4]), "%s: the given size %d is larger than the destination array (%d bytes)" % (show(c)[:120], sz, dsz)))
                        continue
                elif len(args) > k and _remaining_room(prog, f, dst, args[k]):
                    verdict = "size is the room that remains in the array behind the cursor (sizeof (array) - (cursor - array))"
                elif len(args) > k and any(nd[0] == "b" and nd[1] == "+" for nd in walk(args[k])) and n in ("snprintf", "vsnprintf"):
                    verdict = "size expression computed from the required length (two-pass formatting)"
                elif dsz is None and n in ("memcpy", "memmove") and exceptions.get((f.name, n, dtxt)) is None:
                    # block copy of a computed number of bytes into a heap block: whether the block is large enough is a relation
                    # between two run-time sizes that this rule cannot see (R-LENCLASS decides it for the problem arrays, whose
                    # dimensions it knows); reporting it would be a guess, so it is counted and left undecided
                    undecided.append("%s %s: %s" % (short_loc(c[4]), f.name, show(c)[:90]))
                    res.obligations -= 1
                    continue
            elif n == "strcpy" or n == "strcat":
                src = strip(args[1]) if len(args) > 1 else None
                if src and src[0] == "s" and dsz is not None and len(src[1]) < dsz:
                    verdict = "literal of %d bytes fits %d" % (len(src[1]) + 1, dsz)
                elif src is not None and dsz is not None and array_size(prog, f, src) is not None and array_size(prog, f, src) <= dsz:
                    verdict = "source array (%d) no larger than destination (%d)" % (array_size(prog, f, src), dsz)
                elif src is not None and dsz is None and strlen_sized(f, dst, args[1]):
                    verdict = "destination sized from strlen of the source in the same function"
            elif n == "sprintf":
                fmt = strip(args[1]) if len(args) > 1 else None
                if fmt and fmt[0] == "s" and dsz is not None:
                    mx = fmt_max(prog, f, fmt[1], args[2:])
                    if mx is not None and mx < dsz:
                        verdict = "formatted length <= %d fits %d" % (mx + 1, dsz)
            if verdict:
                res.sample({"site": "%s %s: %s" % (short_loc(c[4]), f.name, show(c)[:100]), "verdict": verdict}, limit=10)
                cls[verdict.split(" ")[0]] = cls.get(verdict.split(" ")[0], 0) + 1
                continue
            res.nontrivial += 1
            ex = exceptions.get((f.name, n, dtxt))
            if not ex and n in ("strncpy", "memcpy", "memmove"):
                # the block-copy routines take the same (destination, source, length): an exception reasoned for one of them holds for the others
                for alt in ("strncpy", "memcpy", "memmove"):
                    ex = ex or exceptions.get((f.name, alt, dtxt))
            if ex:
                res.excepted.append(("%s: %s into %s" % (f.name, n, dtxt), ex))
                continue
            kind = "unbounded" if n in UNBOUNDED or n in SCANF else "length not a visible bound"
            res.violations.append(Violation(rule, "%s|%s into %s" % (f.name.replace("mpq_", ""), n, dtxt), f.name, short_loc(c[4]),
                                            "%s: %s write into %s%s; the source is not bounded by anything visible in this function" % (
                                                show(c)[:140], kind, dtxt, (" (%d bytes)" % dsz) if dsz else "")))
    res.counts["auto_discharged_by"] = cls
    res.counts["heap_block_copies_not_decided"] = len(undecided)
    res.counts["heap_block_copies_sample"] = undecided[:4]
    res.floor("buffer-writing call sites", res.obligations, floor if floor is not None else (50 if not (scope_units or scope_funcs) else 5))
    return res
