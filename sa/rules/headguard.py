"""R-HEADGUARD (C07, C14): a bucket head of the symbol table is overwritten only where the entry is known to be the first of its chain.

ILLsymboltab is a chained hash table: hashtable[h] is the first entry of bucket h, nametable[e].next the following one.  An entry
that is unlinked or relocated has a predecessor in its chain or it has not; the code decides that with a test of the predecessor index
against the "no index" constant and patches `nametable[prev].next` in one branch and `hashtable[h]` in the other.  Every store into an
element of ILLsymboltab::hashtable is one of: a constant (initialisation), a copy from another table's hashtable, a head insertion
(the same block first stores the old head into the new entry's `next`), or the branch of such a predecessor test whose sibling branch
stores into a `next` field.  A bucket head written without the test drops every entry in front of the relocated one out of its chain:
a name that is in the table is no longer found (and can be added a second time)."""
import collections

from ..core import walk, strip, is_var, callee, const_of, apath, fields_of, show, short_loc, dominators
from ..result import RuleResult, Violation


def _is_head(t):
    p = apath(t)
    fl = fields_of(p[2])
    return bool(fl) and fl[-1].endswith("ILLsymboltab::hashtable") and "[]" in p[2]


def _is_next(t):
    p = apath(t)
    fl = fields_of(p[2])
    return bool(fl) and fl[-1].endswith("::next")


def run(prog, rule="R-HEADGUARD", floor=5):
    res = RuleResult(rule, "every store into a bucket head of the symbol table is an initialisation, a copy, a head insertion, or one branch of a "
                           "predecessor test whose other branch patches a next field")
    n = 0
    for f in sorted(prog.funcs.values(), key=lambda x: x.key):
        if f.live is None or not f.unit.endswith("symtab.c"):
            continue
        sites = [(b, i, e) for b, i, e in f.elements() if e[0] == "A" and e[1][1] == "=" and _is_head(e[1][2])]
        if not sites:
            continue
        dom, succ = dominators(prog, f)
        preds = collections.defaultdict(set)
        for a_, ss in succ.items():
            for s_ in ss:
                preds[s_].add(a_)
        for b, i, e in sites:
            n += 1
            res.obligations += 1
            res.nontrivial += 1
            rhs = e[1][3]
            why = None
            if const_of(rhs) is not None:
                why = "constant (initialisation)"
            elif _is_head(rhs):
                why = "copy of another table's bucket head"
            else:
                # head insertion: an earlier element of the block stores the old head into a next field
                for e2 in b["e"][:i]:
                    if e2[0] == "A" and e2[1][1] == "=" and _is_next(e2[1][2]) and _is_head(e2[1][3]):
                        why = "head insertion (the old head becomes the new entry's next)"
                if why is None:
                    # one branch of a predecessor test
                    for d in preds.get(b["id"], ()):
                        c = f.blocks[d].get("c")
                        if c is None or preds[b["id"]] != {d}:
                            continue
                        ss = [x for x in prog.live_succs(f, f.blocks[d]) if x is not None]
                        if len(ss) != 2:
                            continue
                        has_noindex = any(isinstance(nd, list) and nd and nd[0] == "n" and (nd[1] == -1 or (len(nd) > 2 and "NOINDEX" in str(nd[2]))) for nd in walk(c))
                        other = [x for x in ss if x != b["id"]]
                        region = [x for x in f.live if other and (x == other[0] or other[0] in dom.get(x, ()))]
                        sib_next = any(e3[0] == "A" and _is_next(e3[1][2]) for x in region for e3 in f.blocks[x]["e"])
                        if has_noindex and sib_next:
                            why = "branch of the predecessor test %s whose sibling patches a next field" % show(c)[:50]
            if why:
                res.sample({"site": "%s %s: %s" % (short_loc(e[2]), f.name, show(e[1])[:60]), "verdict": why}, limit=8)
            else:
                res.violations.append(Violation(rule, "%s|bucket head stored without a predecessor test" % f.name, f.name, short_loc(e[2]),
                                                "%s overwrites the first entry of a bucket although nothing shows that the entry being linked has no predecessor in its "
                                                "chain: the entries in front of it drop out of the bucket (a name in the table is no longer found and can be added twice)" % show(e[1])[:70]))
    res.counts["bucket_head_stores"] = n
    res.floor("stores into bucket heads of the symbol table", n, floor)
    return res


def run_hashof(prog, rule="R-HASHOF", floor=2):
    """the bucket an entry is inserted into is the bucket of its own name.  `ILLsymboltab::the_hash` is a scratch field: the last lookup
    leaves the hash of the string it looked for in it.  A head insertion `hashtable[h->the_hash] = e` must use the hash of the string whose
    symbol the entry gets (the string given to add_string on the path): on every path to the insertion the last definition of the_hash -
    a direct `the_hash = stringhash (S, hashspace)` or a call of a function that computes it from its string parameter (found from the
    callee's body) - names the same string S, and no call that may change `hashspace` lies between that definition and the insertion."""
    from ..core import Flow
    res = RuleResult(rule, "a head insertion through the scratch field the_hash uses the hash of the inserted entry's own name, computed for the current "
                           "size of the table")
    funcs = [f for f in prog.funcs.values() if f.live is not None and f.unit.endswith("qsopt_ex/symtab.c")]
    # callees that set the_hash from a string parameter / that change hashspace (transitively)
    sets_from = {}
    grows = set()
    for f in funcs:
        for b, i, e in f.elements():
            if e[0] == "A" and e[1][1] == "=":
                fl = fields_of(apath(e[1][2])[2])
                if fl and fl[-1].endswith("ILLsymboltab::the_hash"):
                    r = strip(e[1][3])
                    if isinstance(r, list) and r and r[0] == "c" and (r[1] or "").endswith("stringhash") and r[3]:
                        a = strip(r[3][0])
                        if is_var(a) and str(a[1]).startswith("p"):
                            sets_from.setdefault(f.key, int(a[1][1:]))
                if fl and fl[-1].endswith("ILLsymboltab::hashspace") and const_of(e[1][3]) != 0:
                    grows.add(f.key)
    changed = True
    while changed:
        changed = False
        for f in funcs:
            if f.key in grows:
                continue
            for b, i, c in f.calls():
                g = prog.resolve(f, c[1]) if c[1] else None
                if g is not None and g.key in grows:
                    grows.add(f.key)
                    changed = True
                    break
    res.counts["functions_that_leave_the_hash_of_their_string_parameter"] = sorted(prog.funcs[k].name for k in sets_from)
    res.counts["functions_that_may_resize_the_table"] = sorted(prog.funcs[k].name for k in grows)
    n = 0
    for f in sorted(funcs, key=lambda x: x.key):
        inserts = []
        for b, i, e in f.elements():
            if e[0] == "A" and e[1][1] == "=" and _is_head(e[1][2]):
                idx = strip(strip(e[1][2])[2]) if strip(e[1][2])[0] == "i" else None
                fl = fields_of(apath(idx)[2]) if idx is not None else None
                if fl and fl[-1].endswith("ILLsymboltab::the_hash") and const_of(e[1][3]) is None:
                    inserts.append((b["id"], i, e))
        if not inserts or not any((c[1] or "").endswith("add_string") for b, i, c in f.calls()):
            continue        # a relocation of an existing entry (ILLsymboltab_delete): R-HEADGUARD's business
        ikeys = {(bid, i): e for bid, i, e in inserts}
        bad = {}

        def xfer(b, i, e, st):
            hsrc, asrc = st
            trees = [x[1] for x in e[1] if x[1] is not None] if e[0] == "D" else ([e[1]] if len(e) > 1 and isinstance(e[1], list) else [])
            for t in trees:
                for nd in walk(t):
                    if not (isinstance(nd, list) and nd and nd[0] == "c" and nd[1]):
                        continue
                    g = prog.resolve(f, nd[1])
                    if (nd[1] or "").endswith("add_string") and len(nd[3]) >= 2:
                        asrc = show(strip(nd[3][1]))
                    if g is not None and g.key in grows:
                        hsrc = "?"
                    if g is not None and g.key in sets_from and sets_from[g.key] < len(nd[3]):
                        hsrc = show(strip(nd[3][sets_from[g.key]]))
            if e[0] == "A" and e[1][1] == "=":
                fl = fields_of(apath(e[1][2])[2])
                if fl and fl[-1].endswith("ILLsymboltab::the_hash"):
                    r = strip(e[1][3])
                    hsrc = show(strip(r[3][0])) if (isinstance(r, list) and r and r[0] == "c" and (r[1] or "").endswith("stringhash") and r[3]) else "?"
            if (b["id"], i) in ikeys and asrc is not None and not (hsrc == asrc and hsrc not in ("?", None)):
                bad.setdefault((b["id"], i), (hsrc, asrc))
            return [(hsrc, asrc)]

        def refine(cond, truth, st):
            hsrc, asrc = st
            for nd in walk(cond):
                if isinstance(nd, list) and nd and nd[0] == "c" and nd[1]:
                    g = prog.resolve(f, nd[1])
                    if g is not None and g.key in grows:
                        hsrc = "?"
                    if g is not None and g.key in sets_from and sets_from[g.key] < len(nd[3]):
                        hsrc = show(strip(nd[3][sets_from[g.key]]))
            return [(hsrc, asrc)]

        fl_ = Flow(prog, f, [(None, None)], xfer, refine).run()
        for (bid, i, e) in inserts:
            n += 1
            res.obligations += 1
            res.nontrivial += 1
            if (bid, i) in bad:
                hsrc, asrc = bad[(bid, i)]
                res.violations.append(Violation(rule, "%s|head insertion with the hash of another string" % f.name, f.name, short_loc(e[2]),
                                                "%s: on a path to this insertion the_hash was last computed for %s (\"?\": for another table size / not by stringhash), "
                                                "the entry gets the name %s" % (show(e[1])[:60], hsrc, asrc)))
            else:
                res.sample({"site": "%s %s: %s" % (short_loc(e[2]), f.name, show(e[1])[:50]), "verdict": "hash of the inserted name, current table size"}, limit=6)
    res.counts["head_insertions_through_the_hash"] = n
    res.floor("head insertions through ILLsymboltab::the_hash", n, floor)
    return res
