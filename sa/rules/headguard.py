"""R-HEADGUARD (C07, C14): a bucket head of the symbol table is overwritten only where the entry is known to be the first of its chain.

ILLsymboltab is a chained hash table: hashtable[h] is the first entry of bucket h, nametable[e].next the following one.  An entry
that is unlinked or relocated has a predecessor in its chain or it has not; the code decides that with a test of the predecessor index
against the "no index" constant and patches `nametable[prev].next` in one branch and `hashtable[h]` in the other.  Every store into an
element of ILLsymboltab::hashtable is one of: a constant (initialisation), a copy from another table's hashtable, a head insertion
(the same block first stores the old head into the new entry's `next`), or the branch of such a predecessor test whose sibling branch
stores into a `next` field.  A bucket head written without the test drops every entry in front of the relocated one out of its chain:
a name that is in the table is no longer found (and can be added a second time)."""
import collections

from ..core import walk, strip, is_var, callee, const_of, apath, fields_of, show, short_loc, dominators
from ..result import RuleResult, Violation


def _is_head(t):
    p = apath(t)
    fl = fields_of(p[2])
    return bool(fl) and fl[-1].endswith("ILLsymboltab::hashtable") and "[]" in p[2]


def _is_next(t):
    p = apath(t)
    fl = fields_of(p[2])
    return bool(fl) and fl[-1].endswith("::next")


def run(prog, rule="R-HEADGUARD", floor=5):
    res = RuleResult(rule, "every store into a bucket head of the symbol table is an initialisation, a copy, a head insertion, or one branch of a "
                           "predecessor test whose other branch patches a next field")
    n = 0
    for f in sorted(prog.funcs.values(), key=lambda x: x.key):
        if f.live is None or not f.unit.endswith("symtab.c"):
            continue
        sites = [(b, i, e) for b, i, e in f.elements() if e[0] == "A" and e[1][1] == "=" and _is_head(e[1][2])]
        if not sites:
            continue
        dom, succ = dominators(prog, f)
        preds = collections.defaultdict(set)
        for a_, ss in succ.items():
            for s_ in ss:
                preds[s_].add(a_)
        for b, i, e in sites:
            n += 1
            res.obligations += 1
            res.nontrivial += 1
            rhs = e[1][3]
            why = None
            if const_of(rhs) is not None:
                why = "constant (initialisation)"
            elif _is_head(rhs):
                why = "copy of another table's bucket head"
            else:
                # head insertion: an earlier element of the block stores the old head into a next field
                for e2 in b["e"][:i]:
                    if e2[0] == "A" and e2[1][1] == "=" and _is_next(e2[1][2]) and _is_head(e2[1][3]):
                        why = "head insertion (the old head becomes the new entry's next)"
                if why is None:
                    # one branch of a predecessor test
                    for d in preds.get(b["id"], ()):
                        c = f.blocks[d].get("c")
                        if c is None or preds[b["id"]] != {d}:
                            continue
                        ss = [x for x in prog.live_succs(f, f.blocks[d]) if x is not None]
                        if len(ss) != 2:
                            continue
                        has_noindex = any(isinstance(nd, list) and nd and nd[0] == "n" and (nd[1] == -1 or (len(nd) > 2 and "NOINDEX" in str(nd[2]))) for nd in walk(c))
                        other = [x for x in ss if x != b["id"]]
                        region = [x for x in f.live if other and (x == other[0] or other[0] in dom.get(x, ()))]
                        sib_next = any(e3[0] == "A" and _is_next(e3[1][2]) for x in region for e3 in f.blocks[x]["e"])
                        if has_noindex and sib_next:
                            why = "branch of the predecessor test %s whose sibling patches a next field" % show(c)[:50]
            if why:
                res.sample({"site": "%s %s: %s" % (short_loc(e[2]), f.name, show(e[1])[:60]), "verdict": why}, limit=8)
            else:
                res.violations.append(Violation(rule, "%s|bucket head stored without a predecessor test" % f.name, f.name, short_loc(e[2]),
                                                "%s overwrites the first entry of a bucket although nothing shows that the entry being linked has no predecessor in its "
                                                "chain: the entries in front of it drop out of the bucket (a name in the table is no longer found and can be added twice)" % show(e[1])[:70]))
    res.counts["bucket_head_stores"] = n
    res.floor("stores into bucket heads of the symbol table", n, floor)
    return res
