"""R-LOGNOFAIL (C07): a call that reports a failure does not return success.

Belief contradiction: a branch that logs a complaint and abandons the function's work at once (jumps to the clean-up label or
returns) states that the call cannot be carried out; if the error code the function returns on that path is certainly zero, the
caller is told the opposite.  The report-and-leave branches are found structurally: the taken successor of a two-way condition that
contains a logging call, assigns no error code, and whose only way on is a jump to a label or a return, while the other branch goes
on with the function's work.  The value class (zero / non-zero) of the error-code variables is propagated path-sensitively
(set-of-tuples dataflow) from the entry to the return statements; the path remembers which report-and-leave branch it came through."""
import collections

from ..core import walk, strip, is_var, callee, const_of, show, short_loc, Flow
from ..intstate import IntCells, Z, NZ, norm_local
from ..result import RuleResult, Violation

LOGGERS = ("QSlog", "ILL_REPRT", "fprintf")
RV = ("rval", "__EGrval__", "__RVAL__")
EXCEPT = {}


def _logs(blk):
    for e in blk["e"]:
        if e[0] == "C" and (callee(e[1]) or "").startswith(LOGGERS):
            return e[1]
    return None


def run(prog, rule="R-LOGNOFAIL", floor=40):
    res = RuleResult(rule, "no path through a branch that logs a complaint and leaves the function at once returns an error code that is certainly zero")
    funcs = [f for f in prog.funcs.values() if f.live is not None and "_dbl." not in f.unit and "_mpf." not in f.unit
             and f.unit.startswith("qsopt_ex/") and "int" in (f.ret or "") and "*" not in (f.ret or "")]
    nbr = 0
    for f in sorted(funcs, key=lambda x: x.key):
        cands = {}
        for bid in f.live:
            b = f.blocks[bid]
            if b.get("c") is None:
                continue
            ss = prog.live_succs(f, b)
            if len(ss) != 2 or ss[0] is None or ss[1] is None or ss[0] == ss[1]:
                continue
            for idx, s in enumerate(ss):
                blk = f.blocks[s]
                lg = _logs(blk)
                if lg is None:
                    continue
                # assigns an error code (or anything int from a constant): not a pure report
                if any(e[0] == "A" and is_var(e[1][2]) and norm_local(strip(e[1][2])[2]) in RV for e in blk["e"]):
                    continue
                nxt = prog.live_succs(f, blk)
                leaves = False
                if any(e[0] == "R" for e in blk["e"]):
                    leaves = True
                elif blk.get("goto") and len(nxt) == 1 and nxt[0] is not None:
                    leaves = True
                if not leaves:
                    continue
                other = ss[1 - idx]
                if blk.get("goto") and f.blocks[other].get("goto") == blk.get("goto") and not f.blocks[other]["e"]:
                    continue
                cands[s] = (bid, lg)
        if not cands:
            continue
        # the function's result is an error code by the library's convention: it returns through an error-code variable (a function that
        # returns a count or a character - EGioWrite, EGioGets - says nothing with a 0)
        if not any(e[0] == "R" and e[1] is not None and is_var(e[1], kind="l") and norm_local(strip(e[1])[2]) in RV for b, i, e in f.elements()):
            continue
        names = ["rval", "__EGrval__"]
        cells = IntCells(names, lambda st, c: st[1][names.index(c)], lambda st, c, v: (st[0], st[1][:names.index(c)] + (v,) + st[1][names.index(c) + 1:]))
        rets = collections.defaultdict(set)
        wit = {}

        def xfer(b, i, e, st, cands=cands, cells=cells, rets=rets, wit=wit):
            if e[0] == "D":
                out = [st]
                for name, init in e[1]:
                    nxt = []
                    for s_ in out:
                        r = cells.declare(s_, name, init)
                        nxt.extend(r if r is not None else [s_])
                    out = nxt
                return out
            if b["id"] in cands and i == 0 and b["id"] not in st[0]:
                st = (st[0] | {b["id"]}, st[1])
                if e[0] == "A":
                    r = cells.assign(st, e[1][2], e[1][3], e[1][1])
                    if r is not None:
                        return r
                if e[0] == "R":
                    for pb in st[0]:
                        rets[pb] |= set(cells.values(st, e[1]) if e[1] is not None else [NZ])
                        wit.setdefault(pb, (b["id"], st))
                return [st]
            if e[0] == "A":
                r = cells.assign(st, e[1][2], e[1][3], e[1][1])
                if r is not None:
                    return r
            if e[0] == "R" and st[0]:
                vals = set(cells.values(st, e[1])) if e[1] is not None else {NZ}
                for pb in st[0]:
                    rets[pb] |= vals
                    if vals == {Z}:
                        wit.setdefault(pb, (b["id"], st))
            return None
        flw = Flow(prog, f, [(frozenset(), tuple(Z for _ in names))], xfer, lambda c, t, st: cells.refine(c, t, st), max_visits=300000).run()
        for s, (cb, lg) in sorted(cands.items()):
            nbr += 1
            res.obligations += 1
            res.nontrivial += 1
            vals = rets.get(s)
            key = "%s|reports %s and returns 0" % (f.name.replace("mpq_", ""), show(lg[3][0])[:50] if lg[3] else "?")
            if vals == {Z}:
                if key in EXCEPT:
                    res.excepted.append((key, EXCEPT[key]))
                    continue
                lb, st = wit.get(s, (s, None))
                res.violations.append(Violation(rule, key, f.name, short_loc(lg[4]),
                                                "the branch logs %s and leaves the function at once, and every path through it returns an error code that is certainly "
                                                "zero: the caller is told the call succeeded" % show(lg)[:90],
                                                path=flw.witness(lb, st) if st is not None else None))
            else:
                res.sample({"site": "%s %s" % (short_loc(lg[4]), f.name), "verdict": "returns non-zero (or an undetermined code) behind the report" if vals else "no return reached"}, limit=8)
    res.counts["report_and_leave_branches"] = nbr
    res.floor("report-and-leave branches", nbr, floor)
    return res
