"""R-CNT (C11, C07): subscripts indexed by a data-dependent counter are guarded.
A subscript ARR[v] where v is a local counter incremented inside the same loop under conditions that depend on the
data being loaded (lp->baz[basic], lp->nbaz[nonbasic] in ILLbasis_load) must be dominated by a branch that compares the
counter and has an edge avoiding the store: the header arrays are sized by the problem, not by the basis being loaded."""
from ..core import walk, strip, is_var, callee, const_of, apath, fields_of, show, short_loc, AnalysisBroken
from ..result import RuleResult, Violation
from .div import guarded

TARGETS = {"ILLbasis_load": {"lpinfo::baz", "lpinfo::nbaz"}}


def run(prog, prefix="mpq_", rule="R-CNT"):
    res = RuleResult(rule, "every store into the basis header arrays indexed by a counter of BASIC / non-BASIC entries is dominated by "
                           "a comparison of that counter with an edge that avoids the store")
    arrays_seen = set()
    for fn, flds in TARGETS.items():
        f = prog.require_fn(prefix + fn)
        incremented = set()
        for b, i, e in f.elements():
            if e[0] == "U" and e[1][1].startswith("++") and is_var(e[1][2], kind="l"):
                incremented.add(strip(e[1][2])[2])
        for b, i, e in f.elements():
            if e[0] != "S":
                continue
            fl = fields_of(apath(e[1][1])[2])
            if not fl:
                continue
            key = fl[-1].replace(prefix, "")
            if key not in flds:
                continue
            ix = strip(e[1][2])
            if not (is_var(ix, kind="l") and ix[2] in incremented):
                continue
            arrays_seen.add(key)
            res.obligations += 1
            res.nontrivial += 1
            ok, where = guarded(prog, f, b["id"], ix[2])
            if ok:
                res.sample({"site": "%s %s: %s" % (short_loc(e[2]), f.name, show(e[1])), "verdict": "dominated by a test of %s at %s" % (ix[2], where)}, limit=6)
            elif any(v.key == "%s|%s[%s] unguarded counter" % (fn, key.split("::")[1], ix[2]) for v in res.violations):
                pass
            else:
                res.violations.append(Violation(rule, "%s|%s[%s] unguarded counter" % (fn, key.split("::")[1], ix[2]), f.name, short_loc(e[2]),
                                                "%s is indexed by the counter %s, which is advanced once per BASIC / non-BASIC entry of the basis being loaded, "
                                                "with no dominating comparison of the counter: a malformed basis overruns the array" % (show(e[1]), ix[2])))
    res.floor("counter-indexed header arrays", len(arrays_seen), 2)
    return res
