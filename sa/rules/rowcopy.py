"""R-ROWCOPY (C01, C05): the cached row copy of the constraint matrix is dropped by everything that changes the matrix.

Problems read from a file carry ILLlpdata::rA, a row-wise copy of the column matrix A that the simplex uses for sparse row operations
(ILLlp_rows).  It is derived data: every library function that stores into A's arrays (values, indices, counts, starts) - directly
or through the static matrix_* helpers - must have tested-and-released rA (`if (qslp->rA) { ILLlp_rows_clear (qslp->rA); free }`) on a
position that dominates the store.  The set of mutators is computed from effect summaries (composed field paths through ILLlpdata::A),
the release events are found structurally.  A mutator that skips it leaves the row copy describing the old matrix: the next warm
re-solve prices with old coefficients and reports OPTIMAL for another LP (only on problems that came from a file - API-built problems
have no row copy, which is why no test sees it)."""
import collections

from ..core import walk, strip, is_var, callee, const_of, apath, fields_of, show, short_loc, dominators
from ..effects import Effects
from ..result import RuleResult, Violation

MATRIX_FIELDS = ("ILLmatrix::matval", "ILLmatrix::matind", "ILLmatrix::matcnt", "ILLmatrix::matbeg")


def _is_A_write(fp):
    """composed field path of a write into the arrays of the problem's column matrix (through ILLlpdata::A, not rA / sos)"""
    if not fp or not fp[-1].endswith(MATRIX_FIELDS):
        return False
    if not any(x.endswith("ILLlpdata::A") for x in fp):
        return False
    return not any(x.endswith(("ILLlpdata::rA", "ILLlpdata::sos", "ILLlpdata::sinfo")) for x in fp)


def run(prog, E=None, rule="R-ROWCOPY", floor=5):
    E = E or Effects(prog)
    res = RuleResult(rule, "every store into the arrays of the problem's column matrix is dominated by the test-and-release of the cached row copy rA")
    nmut = 0
    funcs = [f for f in prog.funcs.values() if f.live is not None and "_dbl." not in f.unit and "_mpf." not in f.unit
             and f.unit.endswith(("lib_mpq.c", "lpdata_mpq.c", "qsopt_mpq.c")) and not f.name.endswith(("_free", "_init", "QSfree_prob"))]
    info = {}

    def release_blocks(g):
        """condition blocks of g that test ->rA and whose taken branch releases the row copy"""
        out = []
        for bid in g.live:
            c = g.blocks[bid].get("c")
            if c is not None:
                c0 = strip(c)
                if isinstance(c0, list) and c0 and c0[0] == "m" and c0[2].endswith("ILLlpdata::rA"):
                    ss = prog.live_succs(g, g.blocks[bid])
                    if ss and ss[0] is not None and any(e[0] == "C" and (callee(e[1]) or "").endswith("ILLlp_rows_clear") for e in g.blocks[ss[0]]["e"]):
                        out.append(bid)
        return out
    # helpers that do nothing but the test-and-release (`static void discard_row_copy (qslp)`): a call of one is a release event
    releasers = set()
    for g in prog.funcs.values():
        if g.live is None or "_dbl." in g.unit or "_mpf." in g.unit or not g.unit.endswith(("lib_mpq.c", "lpdata_mpq.c", "qsopt_mpq.c")):
            continue
        if len(g.blocks) <= 8 and release_blocks(g) and not any(_is_A_write(fp) for (j, fp) in E.W.get(g.key, ())):
            releasers.add(g.key)
    for f in funcs:
        events = {}
        for (j, fp, loc, how, bid, idx) in E.direct_writes(f):
            e = f.blocks[bid]["e"][idx]
            if _is_A_write(fp) and e[0] in ("A", "C"):
                tgt = e[1][2] if e[0] == "A" else (e[1][3][0] if e[1][3] else None)
                if tgt is not None and "[]" in apath(tgt)[2]:
                    events[(bid, idx)] = (loc, "store into %s" % fp[-1].split("::")[1], None)
        for ci in E.callinfo.get(f.key, ()):
            (g, name, loc, args, bid, idx, c) = ci
            if g is None or (name or "").endswith(("ILLlp_rows_clear", "ILLlp_rows_init")):
                continue
            if any(_is_A_write(fp) for (j, fp) in E.call_writes(f, ci)):
                events[(bid, idx)] = (loc, "%s writes the matrix" % name, g.key)
        if not events:
            continue
        dom, succ = dominators(prog, f)
        inval = []
        for bid in f.live:
            c = f.blocks[bid].get("c")
            if c is not None:
                c0 = strip(c)
                if isinstance(c0, list) and c0 and c0[0] == "m" and c0[2].endswith("ILLlpdata::rA"):
                    ss = prog.live_succs(f, f.blocks[bid])
                    if ss and ss[0] is not None and any(e[0] == "C" and (callee(e[1]) or "").endswith("ILLlp_rows_clear") for e in f.blocks[ss[0]]["e"]):
                        inval.append((bid, -1))
        for b_, i_, c_ in f.calls():
            g_ = prog.resolve(f, c_[1]) if c_[1] else None
            if g_ is not None and g_.key in releasers:
                inval.append((b_["id"], i_))
        info[f.key] = (f, events, inval, dom)
    OK = {}

    def discharged(fk, depth=0):
        if fk in OK:
            return OK[fk]
        if fk not in info:
            return True                      # writes nothing of the matrix
        OK[fk] = True                        # recursion guard
        f, events, inval, dom = info[fk]
        bad = []
        for (bid, idx), (loc, what, gk) in sorted(events.items()):
            ok = any((ib in dom.get(bid, ()) and ib != bid) or (ib == bid and ii < idx) for (ib, ii) in inval)
            if not ok and gk is not None and gk in info and depth < 6 and discharged(gk, depth + 1) is True:
                ok = True                    # the callee releases the row copy itself before it writes
            if not ok:
                # blame the innermost library function: a wrapper whose callee is itself reported is not reported again
                inner_reported = gk is not None and gk in info and not info[gk][0].static
                bad.append((loc, what, inner_reported))
        OK[fk] = bad if bad else True
        return OK[fk]
    for fk in sorted(info):
        f = info[fk][0]
        r = discharged(fk)
        if f.static:
            continue                         # static helpers (matrix_addcoef ...) are judged through the library functions that call them
        nmut += 1
        res.obligations += len(info[fk][1])
        res.nontrivial += len(info[fk][1])
        if r is True:
            res.sample({"function": f.name, "matrix_writing_sites": len(info[fk][1]), "verdict": "rA released on a dominating position (here or in the callee)"}, limit=12)
        elif all(x[2] for x in r):
            res.sample({"function": f.name, "verdict": "passes the matrix on to a library function that is reported itself"}, limit=12)
        else:
            loc, what, _ = [x for x in r if not x[2]][0]
            res.violations.append(Violation(rule, "%s|matrix written without dropping the row copy" % f.name.replace("mpq_", ""), f.name, short_loc(loc),
                                            "%s (%d matrix-writing site(s) in all) is not dominated by a test-and-release of qslp->rA, neither here nor in the callee: on a "
                                            "problem read from a file the row copy keeps the old matrix and the next warm re-solve works with it" % (what, len(r))))
    res.counts["matrix_mutators"] = nmut
    res.floor("library functions that write the column matrix", nmut, floor)
    return res
