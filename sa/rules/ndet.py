"""R-NDET (C17, second sentence): no hidden source of run-to-run variation.
(1) every seeding of the library's random generator uses a compile-time constant; (2) no libc randomness, process id or
wall-clock call is made in library code outside the frozen timing wrappers; (3) a time value reaches a branch condition
only at the documented time-limit test; (4) no decision depends on an address: no relational comparison of two pointers
and no pointer-to-integer conversion that feeds arithmetic, outside the frozen table (the slab allocator's alignment
arithmetic)."""
import collections

from ..core import walk, strip, is_var, callee, const_of, apath, fields_of, show, short_loc, AnalysisBroken
from ..result import RuleResult, Violation

RAW_SOURCES = {"rand", "random", "srand", "srandom", "drand48", "lrand48", "mrand48", "srand48", "rand_r", "getpid", "getppid", "time", "clock",
               "gettimeofday", "clock_gettime", "getrusage", "times", "getenv", "arc4random", "getrandom"}
TIME_FUNCS = {"ILLutil_zeit", "ILLutil_real_zeit"}
WRAPPERS = {
    "ILLutil_zeit": "timing wrapper (getrusage / clock)",
    "ILLutil_real_zeit": "timing wrapper (time)",
    "EGlib_info": "prints the process id into the log",
    "EGsetLimits": "resource limits helper; logs only",
    "EGsighandler": "signal handler; logs and exits",
}
TIME_FIELDS = ("::starttime", "ILLutil_timer::szeit", "ILLutil_timer::cum_zeit", "::totaltime", "EGtimer_t::time", "EGtimer_t::stime",
               "rusage::ru_utime", "rusage::ru_stime", "tms::tms_utime")
TIME_MACROS = {"__EGzeit": "EGlib timing macro (EGtimerStart / EGtimerStop); the value goes into an EGtimer_t and from there into log lines"}
# relational comparisons of two pointers into the same buffer (cursor against the start / end of its own line): not address dependent
SAME_BUFFER = {
    frozenset(("p", "line")): "reader cursor (state->p) against the start of the line buffer it points into (state->line)",
}
# functions in which a time value may reach a branch: the documented time limit (QS_PARAM_SIMPLEX_MAX_TIME)
TIME_LIMIT_SITES = {
    "monitor_iter": "documented time limit: tottime > lp->maxtime ends the solve with QS_LP_TIME_LIMIT; the default limit is 10^10 s",
}
ADDRESS_OK = {
    "eg_memslab.c": "slab allocator: masks an address down to its page to find the slab header; the result selects memory, never a value "
                    "or an order visible in a result",
    "eg_lpnum.c": "GMP allocator hooks: the same slab-header arithmetic",
}


def _trees(f):
    for b, i, e in f.elements():
        if e[0] in "ACURSX":
            yield e[1], e[2], None
        elif e[0] == "D":
            for n, init in e[1]:
                if init is not None:
                    yield init, e[2], n
    for bid, bl in f.blocks.items():
        if f.live is not None and bid not in f.live:
            continue
        if bl.get("c") is not None:
            yield bl["c"], bl.get("tloc") or (bl["e"][-1][2] if bl["e"] else f.loc), "#cond"


def _parents(t):
    """yield (node, parent) pairs"""
    st = [(t, None)]
    while st:
        nd, par = st.pop()
        if not isinstance(nd, list) or not nd:
            continue
        yield nd, par
        k = nd[0]
        ch = []
        if k == "m":
            ch = [nd[1]]
        elif k == "i":
            ch = [nd[1], nd[2]]
        elif k == "u":
            ch = [nd[2]]
        elif k in ("b", "a"):
            ch = [nd[2], nd[3]]
        elif k == "c":
            ch = ([nd[2]] if nd[2] is not None else []) + list(nd[3])
        elif k == "k":
            ch = [nd[2]]
        elif k == "q":
            ch = [nd[1], nd[2], nd[3]]
        elif k == "se":
            ch = [nd[1]] if nd[1] is not None else []
        elif k == "il":
            ch = list(nd[1])
        for c in ch:
            st.append((c, nd))


def run(prog, rule="R-NDET"):
    res = RuleResult(rule, "constant random seeds; no libc randomness / pid / clock outside the timing wrappers; time reaches a branch only at "
                           "the documented time limit; no decision depends on an address")
    lib = [f for f in prog.funcs.values() if f.unit.startswith("qsopt_ex/") and "_dbl." not in f.unit and "_mpf." not in f.unit]
    seeds = raw = 0
    timeuses = 0
    addr = 0
    guards = 0
    for f in sorted(lib, key=lambda x: x.key):
        # (1) seeds and (2) raw sources
        for b, i, c in f.calls():
            n = callee(c)
            if n == "ILLutil_sprand":
                seeds += 1
                res.obligations += 1
                if not c[3] or const_of(c[3][0]) is None:
                    res.violations.append(Violation(rule, "%s|random generator seeded with a non-constant" % f.name, f.name, short_loc(c[4]),
                                                    "%s: the seed is not a compile-time constant, so pivoting choices differ from run to run" % show(c)))
                else:
                    res.sample({"call": "%s in %s" % (show(c), f.name), "verdict": "constant seed"}, limit=4)
            elif n in RAW_SOURCES:
                raw += 1
                res.obligations += 1
                if f.name in WRAPPERS:
                    res.excepted.append(("%s calls %s" % (f.name, n), WRAPPERS[f.name]))
                elif len(c) > 5 and c[5] and c[5][0] in TIME_MACROS:
                    if not any(k == "%s via %s" % (n, c[5][0]) for k, _ in res.excepted):
                        res.excepted.append(("%s via %s" % (n, c[5][0]), TIME_MACROS[c[5][0]]))
                else:
                    res.violations.append(Violation(rule, "%s|calls %s" % (f.name, n), f.name, short_loc(c[4]),
                                                    "%s: %s is a source of run-to-run variation; library code may use it only inside the timing "
                                                    "wrappers" % (show(c)[:80], n)))
        # (3) time taint: locals assigned from a time value, then conditions mentioning tainted locals / time fields / time calls
        tainted = set()

        def timey(t):
            for nd in walk(t):
                if nd[0] == "c" and callee(nd) in TIME_FUNCS:
                    return True
                if nd[0] == "m" and any(nd[2].endswith(x) for x in TIME_FIELDS):
                    return True
                if nd[0] == "v" and nd[1] == "l" and nd[2] in tainted:
                    return True
            return False
        for _ in range(3):
            n0 = len(tainted)
            for b, i, e in f.elements():
                if e[0] == "A" and is_var(e[1][2], kind="l") and timey(e[1][3]):
                    tainted.add(strip(e[1][2])[2])
                elif e[0] == "D":
                    for n, init in e[1]:
                        if init is not None and timey(init):
                            tainted.add(n)
            if len(tainted) == n0:
                break
        for bid, bl in f.blocks.items():
            if f.live is not None and bid not in f.live:
                continue
            c = bl.get("c")
            if c is None or not timey(c):
                continue
            timeuses += 1
            res.obligations += 1
            res.nontrivial += 1
            loc = bl.get("tloc") or (bl["e"][-1][2] if bl["e"] else f.loc)
            if f.name in TIME_LIMIT_SITES:
                res.excepted.append(("%s branches on %s" % (f.name, show(c)[:60]), TIME_LIMIT_SITES[f.name]))
            elif f.name in WRAPPERS or f.unit.endswith("zeit.c"):
                res.excepted.append(("%s branches on a time value" % f.name, "timer bookkeeping inside the timing utilities; feeds statistics only"))
            else:
                res.violations.append(Violation(rule, "%s|branch on a time value" % f.name, f.name, short_loc(loc),
                                                "the condition %s depends on elapsed time; only the documented time limit may do that" % show(c)[:100]))
        # (4) addresses
        for t, loc, ctx in _trees(f):
            for nd, par in _parents(t):
                bad = None
                if nd[0] == "b" and len(nd) > 4 and nd[4] == "ptr":
                    a, b_ = apath(nd[2]), apath(nd[3])
                    fa, fb = fields_of(a[2]), fields_of(b_[2])
                    pair = frozenset((fa[-1].split("::")[1], fb[-1].split("::")[1])) if fa and fb else None
                    if pair in SAME_BUFFER and a[:2] == b_[:2] and fa[-1].split("::")[0] == fb[-1].split("::")[0]:
                        if not any(k == "pointer comparison %s" % "/".join(sorted(pair)) for k, _ in res.excepted):
                            res.excepted.append(("pointer comparison %s" % "/".join(sorted(pair)), SAME_BUFFER[pair]))
                        continue
                    bad = "relational comparison of two pointers"
                elif nd[0] == "k" and len(nd) > 4 and nd[4] == "p2i":
                    # harmless when the integer is only tested for zero: the cast is the whole condition, or under ! / && / || / ?: test / == 0
                    if par is None and ctx == "#cond":
                        continue
                    if par is not None and par[0] == "u" and par[1] == "!":
                        continue
                    if par is not None and par[0] == "b" and par[1] in ("&&", "||"):
                        continue
                    if par is not None and par[0] == "b" and par[1] in ("==", "!=") and (const_of(par[2]) == 0 or const_of(par[3]) == 0):
                        continue
                    if par is not None and par[0] == "q" and par[1] is nd:
                        continue
                    if par is not None and par[0] == "c":
                        continue        # argument of a call (log line "%zd"); the callee's use is judged in the callee
                    if par is not None and par[0] == "b" and par[1] == ">>" and (const_of(par[3]) or 0) >= 12:
                        guards += 1     # EGfree's sanity guard: exits when the pointer value is below 2^19 (never a valid heap address)
                        continue
                    bad = "pointer converted to an integer and used as a value"
                if bad:
                    addr += 1
                    res.obligations += 1
                    unit = f.unit.rsplit("/", 1)[-1]
                    if unit in ADDRESS_OK:
                        if not any(k == "%s: address arithmetic" % unit for k, _ in res.excepted):
                            res.excepted.append(("%s: address arithmetic" % unit, ADDRESS_OK[unit]))
                    else:
                        res.violations.append(Violation(rule, "%s|%s" % (f.name, bad), f.name, short_loc(loc),
                                                        "%s: %s; results must not depend on where memory happens to be" % (show(nd)[:80], bad)))
    res.counts.update({"seed_calls": seeds, "raw_source_calls": raw, "branches_on_time": timeuses, "address_valued_expressions": addr, "egfree_sanity_guards": guards,
                       "library_functions": len(lib)})
    res.floor("ILLutil_sprand call sites", seeds, 4)
    res.floor("library functions scanned", len(lib), 900)
    return res
