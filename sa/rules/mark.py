"""R-MARK (C01, C02): inside the exact tests, 'true' is returned only through the success marker
(the store of the definitive status into QSdata::qstatus), the marker is reached by no path on
which a check failed, and (optimal test) the solution cache is filled on no failing path."""
from ..core import strip, is_var, callee, const_of, apath, fields_of, show, short_loc, Flow, AnalysisBroken
from ..intstate import norm_local
from ..cond import atoms, SWAP
from ..result import RuleResult, Violation

# callees that can fail only by allocation failure (DESIGN 2.3): their error edge is outside the path universe
FAULT_ONLY = {"mpq_ILLlp_cache_alloc": "returns non-zero only when ILL_SAFE_MALLOC fails"}

TESTS = {
    "QSexact_optimal_test": {"marker_value": "QS_LP_OPTIMAL", "cache_fill": True, "min_fail_sites": 12},
    "QSexact_infeasible_test": {"marker_value": "QS_LP_INFEASIBLE", "cache_fill": False, "min_fail_sites": 3},
}


def _is_rv(t):
    t = strip(t)
    return is_var(t, kind="l") and norm_local(t[2]) == "rval"


def _is_tmp(t):
    t = strip(t)
    return is_var(t, kind="l") and norm_local(t[2]).startswith("__EGrval__")


class MarkAnalysis:
    # state: (rv, tmp, failed, marker, lastcall)   rv/tmp in {"Z","ONE","ERR:<callee>"}
    def __init__(self, prog, f, cfg, res, rule):
        self.prog, self.f, self.cfg, self.res, self.rule = prog, f, cfg, res, rule
        self.marker_sites = set()
        self.fail_sites = set()
        self.cache_writes = set()
        self.oblig = set()
        self.viol = {}
        self.exits = {}

    def val(self, st, t):
        t = strip(t)
        k = const_of(t)
        if k is not None:
            return ["Z" if k == 0 else "ONE"]
        if _is_rv(t):
            return [st[0]]
        if _is_tmp(t):
            return [st[1]]
        if isinstance(t, list) and t and t[0] == "c":
            return ["Z", "ERR:" + (callee(t) or "?")]
        return ["Z", "ERR:?"]

    def is_marker(self, lhs):
        fl = fields_of(apath(lhs)[2])
        return bool(fl) and fl[-1].endswith("qsdata::qstatus") and len(fl) == 1

    def through_cache(self, t):
        fl = fields_of(apath(t)[2])
        return len(fl) >= 2 and fl[0].endswith("qsdata::cache")

    def v(self, key, loc, msg, bid, st):
        if key not in self.viol:
            self.viol[key] = (loc, msg, bid, st)

    def xfer(self, b, i, e, st):
        rv, tmp, failed, marker = st
        k = e[0]
        if k == "D":
            out = [st]
            for name, init in e[1]:
                n = norm_local(name)
                if n == "rval" and init is not None:
                    out = [(v, s[1], s[2], s[3]) for s in out for v in self.val(s, init)]
                elif n.startswith("__EGrval__") and init is not None:
                    out = [(s[0], v, s[2], s[3]) for s in out for v in self.val(s, init)]
            return out
        if k == "A":
            n = e[1]
            lhs, rhs = n[2], n[3]
            if _is_rv(lhs):
                c = const_of(rhs)
                if c == 0 and n[1] == "=":
                    self.fail_sites.add(e[2])
                    return [("Z", tmp, 1, marker)]
                if c is not None and c != 0 and n[1] == "=":
                    self.oblig.add(('lit', e[2]))
                    if not marker:
                        self.v("literal non-zero rval before marker", e[2],
                               "rval is set to %s (= 'test passed') on a path that has not passed the success marker" % show(rhs), b["id"], st)
                    if failed:
                        self.v("literal non-zero rval after failed check", e[2],
                               "rval is set back to %s on a path on which a check has failed" % show(rhs), b["id"], st)
                    return [("ONE", tmp, failed, marker)]
                return [(v, tmp, failed, marker) for v in self.val(st, rhs)]
            if self.is_marker(lhs):
                self.marker_sites.add(e[2])
                self.oblig.add(('marker', e[2]))
                sp = strip(rhs)
                if not (sp and sp[0] == "n" and sp[2] == self.cfg["marker_value"]):
                    self.v("marker stores wrong status", e[2], "the success marker stores %s, expected %s" % (show(rhs), self.cfg["marker_value"]), b["id"], st)
                if failed:
                    self.v("marker reached after failed check", e[2],
                           "the definitive status is stored on a path on which a check has already failed (rval = 0 without leaving)", b["id"], st)
                return [(rv, tmp, failed, 1)]
            if self.cfg["cache_fill"] and self.through_cache(lhs):
                self.cache_writes.add(e[2])
                self.oblig.add(('cache', e[2]))
                if failed:
                    self.v("cache written after failed check", e[2], "solution cache field written on a failing path: %s" % show(n), b["id"], st)
            return None
        if k == "C":
            c = e[1]
            if self.cfg["cache_fill"] and callee(c) in ("mpq_set", "mpq_set_ui", "mpq_neg", "mpq_sub", "mpq_add") and c[3] and self.through_cache(c[3][0]):
                self.cache_writes.add(c[4])
                self.oblig.add(('cache', c[4]))
                if failed:
                    self.v("cache written after failed check", c[4], "solution cache written on a failing path: %s" % show(c), b["id"], st)
                if not marker:
                    self.v("cache filled before marker", c[4], "solution cache filled before all checks have passed: %s" % show(c), b["id"], st)
            return None
        if k == "R":
            for v in (self.val(st, e[1]) if e[1] is not None else ["Z"]):
                key = (v, marker, failed)
                if key not in self.exits:
                    self.exits[key] = (b["id"], st, e[2])
            return None
        return None

    def refine(self, cond, truth, st):
        for l, op, r in atoms(cond, truth):
            for a, b_, o in ((l, r, op), (r, l, SWAP[op])):
                if const_of(b_) == 0 and o in ("==", "!="):
                    cur = None
                    if _is_rv(a):
                        cur = st[0]
                    elif _is_tmp(a):
                        cur = st[1]
                    if cur is not None:
                        if (o == "==" and cur != "Z") or (o == "!=" and cur == "Z"):
                            return []
        return [st]

    def run(self):
        self.flow = Flow(self.prog, self.f, [("Z", "Z", 0, 0)], self.xfer, self.refine).run()
        return self


def run(prog, tests=TESTS, which=None, rule="R-MARK"):
    res = RuleResult(rule, "the exact tests return 'true' only through their success marker, which no failing path reaches; "
                           "the solution cache is filled on no failing path")
    for name, cfg in tests.items():
        if which and name not in which:
            continue
        f = prog.require_fn(name)
        an = MarkAnalysis(prog, f, cfg, res, rule).run()
        res.counts[name] = {"blocks": len(f.blocks), "visits": an.flow.visits, "marker_sites": len(an.marker_sites),
                            "literal_fail_sites": len(an.fail_sites), "cache_writes": len(an.cache_writes), "exit_tuples": []}
        for (v, marker, failed), (bid, st, loc) in sorted(an.exits.items(), key=str):
            res.obligations += 1
            res.nontrivial += 1
            desc = "returns %s marker=%d failed=%d" % (v, marker, failed)
            ok = True
            why = ""
            if v == "ONE" and not marker:
                ok, why = False, "returns 'true' without having passed the success marker"
            elif v == "ONE" and failed:
                ok, why = False, "returns 'true' on a path on which a check failed"
            elif v.startswith("ERR:"):
                cal = v[4:]
                if cal in FAULT_ONLY:
                    desc += " (fault edge: %s %s)" % (cal, FAULT_ONLY[cal])
                elif not marker or failed:
                    ok, why = False, "returns the non-zero code of %s (read as 'true' by the driver) without having passed the success marker" % cal
            res.counts[name]["exit_tuples"].append(desc + (" ok" if ok else " VIOLATION"))
            if ok:
                res.sample({"obligation": "%s exit tuple: %s" % (name, desc), "verdict": "ok"})
            else:
                res.violations.append(Violation(rule, "%s|%s" % (name, why), name, short_loc(loc), why, path=an.flow.witness(bid, st)))
        for key, (loc, msg, bid, st) in an.viol.items():
            res.violations.append(Violation(rule, "%s|%s" % (name, key), name, short_loc(loc), msg, path=an.flow.witness(bid, st)))
        res.obligations += len(an.oblig)
        res.nontrivial += len(an.oblig)
        res.floor("%s: success marker stores" % name, len(an.marker_sites), 1)
        res.floor("%s: literal failure sites (rval = 0)" % name, len(an.fail_sites), cfg["min_fail_sites"])
        if cfg["cache_fill"]:
            res.floor("%s: cache fill writes" % name, len(an.cache_writes), 5)
    return res
