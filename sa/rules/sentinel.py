"""R-SENTINEL (C08, C09): in the file writers the infinity sentinels (ILL_MAXDOUBLE / ILL_MINDOUBLE = +-1e150) are recognised
by equality only.  An ordering comparison would print every finite number beyond 1e150 as 'inf' / drop its bound, which the
reader then stores as the sentinel: huge finite data would not round-trip."""
from ..core import walk, strip, is_var, callee, show, short_loc
from ..result import RuleResult, Violation

SENTINELS = ("ILL_MAXDOUBLE", "ILL_MINDOUBLE")


def run(prog, roots=("mpq_QSwrite_prob", "mpq_QSwrite_prob_file", "mpq_QSreport_prob"), rule="R-SENTINEL"):
    res = RuleResult(rule, "writer code compares numbers with the infinity sentinels by equality (mpq_equal), never by order (mpq_cmp)")
    keys = [prog.require_fn(r).key for r in roots]
    par = prog.reachable(keys)
    n_eq = 0
    for k in sorted(par):
        f = prog.funcs.get(k)
        if f is None or "_dbl." in f.unit or "_mpf." in f.unit:
            continue
        if not any(u in f.unit for u in ("lp_mpq", "mps_mpq", "write_lp_mpq", "rawlp_mpq")):
            continue
        for b, i, c in f.calls():
            n = callee(c)
            if n not in ("mpq_equal", "mpq_cmp"):
                continue
            uses = [a for a in c[3] if any(nd[0] == "v" and any(nd[2].endswith(s_) for s_ in SENTINELS) for nd in walk(a))]
            if not uses:
                continue
            res.obligations += 1
            if n == "mpq_equal":
                n_eq += 1
                res.sample({"site": "%s %s: %s" % (short_loc(c[4]), f.name, show(c)), "verdict": "equality test"}, limit=5)
            else:
                res.violations.append(Violation(rule, "%s|ordering comparison with the infinity sentinel" % f.name.replace("mpq_", ""), f.name, short_loc(c[4]),
                                                "%s: a writer function compares with the +-1e150 sentinel by order; finite numbers beyond it would be written as infinite" % show(c)))
    res.counts["equality_tests_with_sentinels"] = n_eq
    res.floor("sentinel equality tests in the writers", n_eq, 6)
    return res
