"""R-STRSCAN (C11): scanning a line never runs past its terminator.

Two constructs let a scanner walk over the NUL that ends a line buffer into whatever follows it:
 (a) `strchr (SET, c) != NULL` used as a set-membership test of a character c that may be NUL: strchr finds the terminator of SET, so
     NUL counts as a member (ILLis_lp_name_char on the pinned tree: every name scan ran on past the end of a last line without '\\n';
     `Maximize\\n obj: 3 x + 2 y<EOF>` crashed the reader);
 (b) a loop that advances a char pointer and whose exit tests compare the character only with non-zero constants
     (`for (pp = p; *pp != '\\n'; pp++)`): a line cut at a comment, or the last line of a file, contains no '\\n'.
Obligations: (a) the expression (or a dominating condition) also tests c against 0; (b) some exit condition of the loop is false for NUL
(`*p`, `*p != 0`, a comparison that NUL fails, or a call of a character-class function)."""
from ..core import walk, strip, is_var, callee, const_of, show, short_loc, dominators
from ..result import RuleResult, Violation
from .certdep import natural_loops

CLASSFN = ("isalpha", "isdigit", "isalnum", "isspace", "isprint", "isupper", "islower", "__ctype_b_loc", "ILLis_lp_name_char", "strchr", "ILLutil_strchr")


def _mentions(t, name):
    return any(is_var(x) and strip(x)[2] == name for x in walk(t))


def _nul_test_of(t, name):
    """the tree contains a test that is false / decisive for name == 0:  name,  name != 0,  name > K,  K < name ..."""
    for nd in walk(t):
        if nd[0] == "b" and nd[1] in ("!=", ">", ">=", "<", "<=", "=="):
            for a, k, op in ((nd[2], nd[3], nd[1]), (nd[3], nd[2], {"<": ">", ">": "<", "<=": ">=", ">=": "<=", "!=": "!=", "==": "=="}[nd[1]])):
                if is_var(a) and strip(a)[2] == name and const_of(k) is not None:
                    c = const_of(k)
                    if (op == "!=" and c == 0) or (op == ">" and c >= 0) or (op == ">=" and c > 0):
                        return True
        if nd[0] == "b" and nd[1] == "&&":
            for side in (nd[2], nd[3]):
                if is_var(side) and strip(side)[2] == name:
                    return True
    return False


def _conjuncts(t, target):
    """the && siblings on the path from t down to the node target (None if target is not inside t)"""
    t0 = strip(t)
    if t0 is target or t is target:
        return []
    if not isinstance(t0, list) or not t0:
        return None
    kids = []
    if t0[0] == "b":
        kids = [t0[2], t0[3]]
    elif t0[0] == "u":
        kids = [t0[2]]
    elif t0[0] == "q":
        kids = [t0[1], t0[2], t0[3]]
    elif t0[0] == "c":
        kids = list(t0[3])
    elif t0[0] == "a":
        kids = [t0[3]]
    elif t0[0] == "k":
        kids = [t0[2]]
    for k in kids:
        r = _conjuncts(k, target)
        if r is not None:
            if t0[0] == "b" and t0[1] == "&&":
                r = r + [x for x in (t0[2], t0[3]) if x is not k]
            return r
    return None


def _ev0(t, p):
    """value of a condition when the character *p is NUL; None if unknown"""
    t = strip(t)
    if not isinstance(t, list) or not t:
        return None
    k = const_of(t)
    if k is not None:
        return k
    if t[0] == "u" and t[1] == "*" and is_var(t[2]) and strip(t[2])[2] == p:
        return 0
    if t[0] == "u" and t[1] == "!":
        v = _ev0(t[2], p)
        return None if v is None else int(not v)
    if t[0] == "b":
        a, b = _ev0(t[2], p), _ev0(t[3], p)
        if t[1] == "&&":
            if a == 0 or b == 0:
                return 0
            return None if a is None or b is None else 1
        if t[1] == "||":
            if (a not in (None, 0)) or (b not in (None, 0)):
                return 1
            return None if a is None or b is None else 0
        if a is None or b is None:
            return None
        ops = {"==": a == b, "!=": a != b, "<": a < b, "<=": a <= b, ">": a > b, ">=": a >= b}
        return int(ops[t[1]]) if t[1] in ops else None
    if t[0] == "q":
        c = _ev0(t[1], p)
        if c is None:
            return None
        return _ev0(t[2] if c else t[3], p)
    return None


def run(prog, rule="R-STRSCAN"):
    res = RuleResult(rule, "(a) a strchr set-membership test of a variable character also tests it against NUL; (b) every loop that walks a char "
                           "pointer has an exit test that NUL fails")
    na = nb = 0
    for f in sorted(prog.funcs.values(), key=lambda x: x.key):
        if "_dbl." in f.unit or "_mpf." in f.unit or f.live is None or not (f.unit.startswith("qsopt_ex/") or f.unit.startswith("esolver/")):
            continue
        # (a)
        trees = []
        for b, i, e in f.elements():
            if e[0] in ("R", "A") and e[1] is not None:
                trees.append((e[1], e[2]))
        for bid in f.live:
            c = f.blocks[bid].get("c")
            if c is not None:
                trees.append((c, f.blocks[bid].get("tloc") or f.loc))
        seen = set()
        for t, loc in trees:
            for nd in walk(t):
                if nd[0] == "c" and callee(nd) == "strchr" and len(nd[3]) == 2 and strip(nd[3][0])[0] == "s" and is_var(nd[3][1]):
                    if nd[4] in seen:
                        continue
                    seen.add(nd[4])
                    v = strip(nd[3][1])[2]
                    na += 1
                    res.obligations += 1
                    res.nontrivial += 1
                    cj = _conjuncts(t, nd) or []
                    if any(_nul_test_of(["b", "&&", x, x], v) or (is_var(x) and strip(x)[2] == v) for x in cj):
                        res.sample({"site": "%s %s" % (short_loc(nd[4]), f.name), "verdict": "the expression also tests %s against NUL" % v}, limit=4)
                    else:
                        res.violations.append(Violation(rule, "%s|strchr membership test accepts NUL" % f.name.replace("mpq_", ""), f.name, short_loc(nd[4]),
                                                        "%s is used as a set-membership test of %s, which is never compared with 0 in this expression: strchr finds the "
                                                        "terminator of the set, so NUL is a member and scans that rely on this test run past the end of the line" % (show(nd)[:60], v)))
        # (b)
        loops, dom, succ = natural_loops(prog, f)
        for h, body in loops.items():
            ptrs = set()
            for x in body:
                for e in f.blocks[x]["e"]:
                    if e[0] == "U" and e[1][1][:2] == "++" and is_var(e[1][2], kind="l") and "char" in (f.ltypes.get(strip(e[1][2])[2]) or "") \
                            and "*" in (f.ltypes.get(strip(e[1][2])[2]) or ""):
                        ptrs.add(strip(e[1][2])[2])
            if not ptrs:
                continue
            exits = [f.blocks[x] for x in body if any(s not in body for s in succ[x]) and f.blocks[x].get("c") is not None]
            for p in sorted(ptrs):
                conds = [b["c"] for b in exits if any(nd[0] == "u" and nd[1] == "*" and is_var(nd[2]) and strip(nd[2])[2] == p for nd in walk(b["c"]))]
                if not conds:
                    continue                      # the loop is not governed by the characters p points at
                nb += 1
                res.obligations += 1
                res.nontrivial += 1
                ok = False
                for b in exits:
                    c = b["c"]
                    if not any(nd[0] == "u" and nd[1] == "*" and is_var(nd[2]) and strip(nd[2])[2] == p for nd in walk(c)):
                        continue
                    v = _ev0(c, p)
                    if v is None:
                        ok = True             # cannot be evaluated (a classification call ...): not reported
                        break
                    ss = prog.live_succs(f, b)
                    taken = ss[0] if v else (ss[1] if len(ss) > 1 else None)
                    if taken is not None and taken not in body:
                        ok = True             # for NUL this test leaves the loop
                        break
                if ok:
                    res.sample({"site": "%s %s" % (short_loc(f.blocks[h].get("tloc") or f.loc), f.name), "verdict": "the walk over %s stops at NUL" % p}, limit=6)
                else:
                    res.violations.append(Violation(rule, "%s|scan over %s does not stop at NUL" % (f.name.replace("mpq_", ""), p), f.name, short_loc(f.blocks[h].get("tloc") or f.loc),
                                                    "the loop advances %s and leaves only on %s: none of these tests fails for the terminating NUL, so a line without the "
                                                    "expected character is scanned past its end" % (p, "; ".join(show(c)[:40] for c in conds))))
    res.counts["strchr_membership_tests"] = na
    res.counts["char_pointer_walks"] = nb
    res.floor("char-pointer walks governed by the characters", nb, 5)
    return res


def run_advance(prog, rule="R-STRADV", floor=4):
    """a scanning pointer is advanced over a token by the token's length only.  `p += strlen (tok)` lands on the character behind the token,
    which the next scan examines (it may be the terminator); `p += strlen (tok) + k` with k > 0 steps over k characters nobody looked at -
    over the terminator itself when the token ends the line (a last line without newline).  Five of the six advances of the readers use
    the exact length; an advance with a positive constant added is reported unless the skipped character is tested on the same path."""
    from ..core import const_of
    res = RuleResult(rule, "every advance of a char pointer by a strlen () adds no positive constant (the character behind a token is examined, not skipped)")
    n = 0
    for f in sorted(prog.funcs.values(), key=lambda x: x.key):
        if f.live is None or "_dbl." in f.unit or "_mpf." in f.unit or not (f.unit.startswith("qsopt_ex/") or f.unit.startswith("esolver/")):
            continue
        for b, i, e in f.elements():
            if e[0] != "A" or e[1][1] not in ("+=", "="):
                continue
            lhs, rhs = e[1][2], e[1][3]
            l0 = strip(lhs)
            ty = f.var_type(l0) or ""
            if not ty and isinstance(l0, list) and l0 and l0[0] == "m":
                rn, fn_ = l0[2].split("::")
                for key in (rn, "struct " + rn):
                    r = prog.records.get(key)
                    if r:
                        for f2, ft, ct in r["fields"]:
                            if f2 == fn_:
                                ty = ct or ft
            if "char" not in ty or "*" not in ty:
                continue
            has_len = any(isinstance(nd, list) and nd and nd[0] == "c" and (callee(nd) or "") == "strlen" for nd in walk(rhs))
            if not has_len:
                continue
            if e[1][1] == "=" and show(lhs) not in show(rhs):
                continue
            n += 1
            res.obligations += 1
            res.nontrivial += 1
            extra = 0
            for nd in walk(rhs):
                if isinstance(nd, list) and nd and nd[0] == "b" and nd[1] == "+":
                    for x in (nd[2], nd[3]):
                        c = const_of(x)
                        if c is not None and c > 0:
                            extra += c
            if extra == 0:
                res.sample({"site": "%s %s: %s" % (short_loc(e[2]), f.name, show(e[1])[:60]), "verdict": "advanced by the token length only"}, limit=8)
                continue
            res.violations.append(Violation(rule, "%s|%s advanced by a length plus %d" % (f.name.replace("mpq_", ""), show(lhs), extra), f.name, short_loc(e[2]),
                                            "%s: the pointer is moved %d character(s) beyond the token without looking at them; when the token ends the buffer the "
                                            "terminator is skipped and the following scans read what earlier, longer lines left behind it" % (show(e[1])[:70], extra)))
    res.counts["pointer_advances_by_a_length"] = n
    res.floor("advances of a char pointer by a strlen ()", n, floor)
    return res
