"""R-NULTERM (C19, C11): a line buffer filled by raw reads is terminated before it is handed back.

The line readers get their text through EGioGets; for plain and gzip streams the C library terminates the line, for bzip2 streams
the function assembles it byte by byte with BZ2_bzread.  Typestate on the caller's buffer (a `char *` parameter and its aliases):
DIRTY after a raw read into it (BZ2_bzread / gzread / fread / read: routines that store bytes and no terminator), CLEAN after a store
of 0 through it.  No return of a value that may be the buffer is reachable while it is DIRTY: the readers re-use one line buffer, so
an unterminated last line continues with the text of an earlier, longer line (`End` becomes `Endfree`)."""
from ..core import walk, strip, is_var, callee, const_of, show, short_loc, Flow
from ..result import RuleResult, Violation

RAW_READS = {"BZ2_bzread": 1, "gzread": 1, "fread": 0, "read": 1}


def run(prog, rule="R-NULTERM", floor=1):
    res = RuleResult(rule, "no return of a buffer that raw reads have stored into is reachable without a terminating store of 0 after the last read")
    n = 0
    for f in sorted(prog.funcs.values(), key=lambda x: x.key):
        if f.live is None or not (f.unit.startswith("qsopt_ex/") or f.unit.startswith("esolver/")) or "_dbl." in f.unit or "_mpf." in f.unit:
            continue
        cparams = {p_[0] for p_ in f.params if p_[1].replace("const ", "").strip() in ("char *", "char *const")}
        if not cparams or "char" not in (f.ret or ""):
            continue
        sites = [(b["id"], i, c) for b, i, c in f.calls() if (callee(c) or "") in RAW_READS]
        if not sites:
            continue
        # aliases of the buffer parameters: char * locals initialised / assigned from them
        alias = set(cparams)
        for b, i, e in f.elements(live_only=False):
            if e[0] == "D":
                for nm, init in e[1]:
                    if init is not None and is_var(init) and strip(init)[2] in alias:
                        alias.add(nm)
            elif e[0] == "A" and e[1][1] == "=" and is_var(e[1][2], kind="l") and is_var(e[1][3]) and strip(e[1][3])[2] in alias:
                alias.add(strip(e[1][2])[2])
        reads = set()
        for (bid, i, c) in sites:
            k = RAW_READS[callee(c)]
            if k < len(c[3]) and is_var(c[3][k]) and strip(c[3][k])[2] in alias:
                reads.add((bid, i))
        if not reads:
            continue
        n += len(reads)
        res.obligations += len(reads)
        res.nontrivial += len(reads)
        bad = {}

        def mentions_buf(t):
            return any(isinstance(nd, list) and nd and nd[0] == "v" and nd[2] in alias for nd in walk(t))

        def xfer(b, i, e, st):
            if (b["id"], i) in reads:
                return [True] if not st else None
            if e[0] == "A" and e[1][1] == "=" and const_of(e[1][3]) == 0:
                l = strip(e[1][2])
                if isinstance(l, list) and l and ((l[0] == "u" and l[1] == "*") or l[0] == "i") and mentions_buf(l):
                    return [False] if st else None
            if e[0] == "R" and e[1] is not None and st and const_of(e[1]) is None and mentions_buf(e[1]):
                bad.setdefault(e[2], (b["id"], st))
            return None

        def refine(c, t, st):
            # a raw read inside a loop condition: BZ2_bzread (.., buf, 1) == 1
            for nd in walk(c):
                if isinstance(nd, list) and nd and nd[0] == "c" and (callee(nd) or "") in RAW_READS:
                    k = RAW_READS[callee(nd)]
                    if k < len(nd[3]) and is_var(nd[3][k]) and strip(nd[3][k])[2] in alias:
                        return [True]
            return None
        flw = Flow(prog, f, [False], xfer, refine).run()
        if bad:
            loc, (bid, st) = sorted(bad.items())[0]
            res.violations.append(Violation(rule, "%s|buffer returned unterminated" % f.name, f.name, short_loc(loc),
                                            "%s can return its buffer on a path on which a raw read has stored bytes into it and no terminating 0 was stored behind "
                                            "them: the caller reads on into whatever an earlier, longer line left there" % f.name, path=flw.witness(bid, st)))
        else:
            res.sample({"function": f.name, "raw_read_sites": len(reads), "verdict": "a terminating store follows the reads on every path to a return of the buffer"})
    res.counts["raw_reads_into_a_returned_buffer"] = n
    res.floor("raw reads into a buffer parameter of a function returning char *", n, floor)
    return res
