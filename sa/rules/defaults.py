"""R-EXPLICITBND (C08, C09, C10): a bound stated in the file is never overwritten by a default.

The readers collect bounds in the raw LP: lower[] / upper[] with the flags lbind[] / ubind[] ("this bound was given
explicitly").  Every store into rawlpdata::lower (resp. upper) must happen in the state 'lbind (resp. ubind) of this entry is
zero': on every path to the store the flag has been tested and found zero, or has just been set to zero by the same function
(the initialisation loop); a finite constant (a restricting default such as the binary upper bound 1) is stored only where
BOTH flags of the entry are zero.  The setters satisfy it through their 'Using previous bound definition' early return; the default
rules of ILLraw_fill_in_bounds through their `if (!lp->lbind[i])` / `if (!lp->ubind[i])` guards.  A default that loses its
guard replaces data of the file (a box  -10 <= x <= -3  read back as  x <= -3), which breaks the round trip and C10's
'default/implicit bounds follow the documented rules'.  Decided path-sensitively (set-of-tuples dataflow on the CFG)."""
from ..core import strip, is_var, callee, const_of, apath, fields_of, show, short_loc, Flow
from ..result import RuleResult, Violation

PAIRS = {"rawlpdata::lower": "rawlpdata::lbind", "rawlpdata::upper": "rawlpdata::ubind"}
U, ZERO, NZ = "?", "0", "1"


def _flag_of(t):
    """name of the flag array when t is  X->lbind[i] / X->ubind[i]"""
    t = strip(t)
    if isinstance(t, list) and t and t[0] == "i":
        fl = fields_of(apath(t[1])[2])
        if fl:
            for flag in PAIRS.values():
                if fl[-1].endswith(flag):
                    return flag
    return None


SENTINELS = ("ILL_MAXDOUBLE", "ILL_MINDOUBLE")


def _finite_constant(c):
    """the call stores a finite constant: mpq_set_ui / mpq_set_si with literal arguments, or mpq_set from a global that is not an
    infinity sentinel (oneLpNum, zeroLpNum)"""
    n = callee(c)
    if n in ("mpq_set_ui", "mpq_set_si"):
        return all(const_of(a) is not None for a in c[3][1:])
    if n == "mpq_set" and len(c[3]) > 1:
        s_ = strip(c[3][1])
        return is_var(s_) and s_[1] in ("g", "sg") and not any(s_[2].endswith(x) for x in SENTINELS)
    return False


def run(prog, rule="R-EXPLICITBND"):
    res = RuleResult(rule, "every store into the raw LP's lower / upper array happens where the entry's 'explicitly given' flag is known to "
                           "be zero (tested on the path, or just cleared)")
    flags = sorted(PAIRS.values())
    nsites = 0
    for f in sorted(prog.funcs.values(), key=lambda x: x.key):
        if "_dbl." in f.unit or "_mpf." in f.unit or f.live is None or not f.unit.startswith("qsopt_ex/"):
            continue
        sites = []
        for b, i, c in f.calls():
            n = callee(c) or ""
            if n.startswith("mpq_") and c[3] and n not in ("mpq_clear", "mpq_get_d", "mpq_get_str", "mpq_cmp", "mpq_equal", "mpq_sgn", "mpq_cmp_ui", "mpq_cmp_si"):
                d = strip(c[3][0])
                if isinstance(d, list) and d and d[0] == "i":
                    fl = fields_of(apath(d[1])[2])
                    for arr, flag in PAIRS.items():
                        if fl and fl[-1].endswith(arr) and n != "mpq_init":
                            sites.append((b["id"], i, arr, flag, c))
        if not sites:
            continue
        nsites += len(sites)
        bad = {}
        bad2 = {}

        def get(st, flag):
            return st[flags.index(flag)]

        def put(st, flag, v):
            k = flags.index(flag)
            return st[:k] + (v,) + st[k + 1:]

        def xfer(b, i, e, st, sites=sites, bad=bad):
            if e[0] == "A" and e[1][1] == "=":
                fl = _flag_of(e[1][2])
                if fl:
                    c = const_of(e[1][3])
                    return [put(st, fl, ZERO if c == 0 else NZ if c is not None else U)]
            if e[0] == "U" and e[1][1][:2] in ("++", "--") and is_var(e[1][2], kind="l"):
                # the loop index advances: what was known about entry i says nothing about entry i+1
                return [tuple(U for _ in flags)]
            if e[0] == "C":
                for (bid, idx, arr, flag, c) in sites:
                    if bid == b["id"] and idx == i:
                        if get(st, flag) != ZERO:
                            bad.setdefault((bid, idx), (arr, flag, c, st))
                        elif _finite_constant(c) and any(v != ZERO for v in st):
                            bad2.setdefault((bid, idx), (arr, flag, c, st))
            return None

        def refine(cond, truth, st):
            c = strip(cond)
            neg = False
            while isinstance(c, list) and c and c[0] == "u" and c[1] == "!":
                neg = not neg
                c = strip(c[2])
            cmpz = None
            if isinstance(c, list) and c and c[0] == "b" and c[1] in ("==", "!=") and const_of(c[3]) == 0:
                cmpz = c[1]
                c = strip(c[2])
            fl = _flag_of(c)
            if not fl:
                return None
            nonzero = truth != neg
            if cmpz == "==":
                nonzero = not nonzero
            return [put(st, fl, NZ if nonzero else ZERO)]
        flw = Flow(prog, f, [tuple(U for _ in flags)], xfer, refine).run()
        for (bid, idx, arr, flag, c) in sites:
            res.obligations += 1
            res.nontrivial += 1
            if (bid, idx) in bad:
                arr_, flag_, c_, st = bad[(bid, idx)]
                res.violations.append(Violation(rule, "%s|%s stored without a zero %s" % (f.name.replace("mpq_", ""), arr.split("::")[1], flag.split("::")[1]),
                                                f.name, short_loc(c[4]),
                                                "%s writes %s on a path on which %s of the entry has not been found zero: a bound given in the file can be replaced "
                                                "by a default / a later definition" % (show(c)[:90], arr.split("::")[1], flag.split("::")[1]),
                                                path=flw.witness(bid, st)))
            elif (bid, idx) in bad2:
                arr_, flag_, c_, st = bad2[(bid, idx)]
                res.violations.append(Violation(rule, "%s|finite default for %s although the other bound was given" % (f.name.replace("mpq_", ""), arr.split("::")[1]),
                                                f.name, short_loc(c[4]),
                                                "%s stores a finite constant (a restricting default such as the binary upper bound 1) into %s on a path on which the "
                                                "column's other bound is not known to be absent: finite defaults apply only to columns for which the file gives no "
                                                "bound at all (documented rule: integer variables without bounds are binary)" % (show(c)[:90], arr.split("::")[1]),
                                                path=flw.witness(bid, st)))
            else:
                res.sample({"site": "%s %s: %s" % (short_loc(c[4]), f.name, show(c)[:60]), "verdict": "%s known zero on every path" % flag.split("::")[1]}, limit=8)
    res.counts["stores"] = nsites
    res.floor("stores into the raw LP's bound arrays", nsites, 10)
    return res


def run_bndflag(prog, rule="R-BNDFLAG", floor=6):
    """a bound taken from the file is marked as given.  The flags lbind[] / ubind[] tell the default rules of ILLraw_fill_in_bounds which
    entries the file has set ("an integer column without bounds is binary").  Every other function that stores into an element of
    rawlpdata::lower (upper) stores 1 into the matching flag array as well; the routines that allocate, release or initialise the arrays and the one that applies the defaults
    (ILLraw_fill_in_bounds stores only where the flag was found zero and leaves it zero: the value is not the file's) are named and
    left to R-EXPLICITBND.  A reader branch that assigns the bound directly leaves the flag zero and the default rule overwrites
    what the file said (PL on an integer column read back as a binary column)."""
    res = RuleResult(rule, "every function that stores a file-given bound into the raw LP also stores 1 into the matching 'explicitly given' flag")
    n = 0
    for f in sorted(prog.funcs.values(), key=lambda x: x.key):
        if f.live is None or "_dbl." in f.unit or "_mpf." in f.unit or not f.unit.startswith("qsopt_ex/"):
            continue
        if f.name.endswith(("ILLinit_rawlpdata", "ILLfree_rawlpdata", "ILLraw_init_bounds", "ILLraw_fill_in_bounds")):
            continue          # allocation / release / the default rules themselves (R-EXPLICITBND is in charge of those)
        stored, flagged = {}, set()
        for b, i, e in f.elements():
            tgt = None
            if e[0] == "A" and e[1][1] == "=":
                tgt = e[1][2]
                fl_ = _flag_of(tgt)
                if fl_ and const_of(e[1][3]) not in (None, 0):
                    flagged.add(fl_)
            elif e[0] == "C" and e[1][3] and (callee(e[1]) or "").startswith(("mpq_set", "__gmpq_set", "mpq_EGlpNumCopy")):
                tgt = e[1][3][0]
            if tgt is None:
                continue
            t = strip(tgt)
            if isinstance(t, list) and t and t[0] == "i":
                fl = fields_of(apath(t[1])[2])
                for bnd, flag in PAIRS.items():
                    if fl and fl[-1].endswith(bnd):
                        stored.setdefault(bnd, e[2] if e[0] == "A" else e[1][4])
        for bnd, loc in sorted(stored.items()):
            n += 1
            res.obligations += 1
            res.nontrivial += 1
            if PAIRS[bnd] in flagged:
                res.sample({"function": f.name, "bound": bnd.split("::")[1], "verdict": "the flag of the entry is set in the same function"}, limit=10)
            else:
                res.violations.append(Violation(rule, "%s|%s stored, %s left alone" % (f.name.replace("mpq_", ""), bnd.split("::")[1], PAIRS[bnd].split("::")[1]), f.name, short_loc(loc),
                                                "%s stores into %s of the raw LP and never sets %s: the default rules will treat the entry as not given and may "
                                                "replace it" % (f.name, bnd.split("::")[1], PAIRS[bnd].split("::")[1])))
    res.counts["bound_storing_functions"] = n
    res.floor("(function, bound array) pairs that store a file-given bound", n, floor)
    return res


def run_msgmeans(prog, rule="R-MSGMEANS", floor=4):
    """a message is not a refusal.  The bound setters of the raw LP return a `const char *`: NULL, or a text for the reader's warning
    channel.  A setter whose non-NULL returns lie both on paths that have stored into the record (an informational remark: "0.0 upper
    bound fixes variable") and on paths that have stored nothing (a refusal: "Using previous bound definition") has a return value that
    does not tell the two apart; a caller must then not make a further store (the integer mark of an `UI` record) depend on the value
    being NULL.  Path-sensitive: per return, whether a store through a pointer parameter lies on the path."""
    from ..core import Flow, walk, strip, is_var, const_of, show, short_loc, apath
    from ..cond import atoms, SWAP
    res = RuleResult(rule, "no caller gates a store on the NULL-ness of a message returned by a setter whose messages accompany both applied and refused "
                           "requests")
    funcs = [f for f in prog.funcs.values() if f.live is not None and "_dbl." not in f.unit and "_mpf." not in f.unit and f.unit.startswith("qsopt_ex/")]
    setters = {}
    for f in funcs:
        if "char" not in (f.ret or "") or "*" not in (f.ret or ""):
            continue
        rets = [e for b, i, e in f.elements() if e[0] == "R" and e[1] is not None]
        if not any(isinstance(strip(e[1]), list) and strip(e[1])[0] == "s" for e in rets):
            continue
        kinds = set()

        def xfer(b, i, e, st):
            if e[0] in ("A", "C"):
                tgt = None
                if e[0] == "A":
                    tgt = e[1][2]
                elif e[1][3]:
                    tgt = e[1][3][0] if any(k in (e[1][1] or "") for k in ("_set", "EGlpNumCopy", "EGlpNumZero", "EGlpNumOne", "mpq_")) else None
                if tgt is not None:
                    p = apath(tgt)
                    if p and isinstance(p[0], str) and p[0].startswith("p") and "->" in (p[2] or "") or (p and str(p[0]).startswith("p") and "[]" in (p[2] or "")):
                        st = (1,)
            if e[0] == "R" and e[1] is not None:
                r = strip(e[1])
                if isinstance(r, list) and r and r[0] == "s":
                    kinds.add((st[0], r[1][:40]))
            return [st]
        Flow(prog, f, [(0,)], xfer, None).run()
        if kinds:
            setters[f.key] = kinds
    ambiguous = {k for k, v in setters.items() if {w for w, _ in v} == {0, 1}}
    res.counts["message_returning_setters"] = sorted(prog.funcs[k].name for k in setters)
    res.counts["of_which_with_messages_on_applied_and_on_refused_paths"] = sorted(prog.funcs[k].name for k in ambiguous)
    n = 0
    for f in sorted(funcs, key=lambda x: x.key):
        for b, i, e in f.elements():
            if e[0] != "A" or e[1][1] != "=" or not is_var(strip(e[1][2]), kind="l"):
                continue
            r = strip(e[1][3])
            if not (isinstance(r, list) and r and r[0] == "c" and r[1]):
                continue
            g = prog.resolve(f, r[1])
            if g is None or g.key not in setters:
                continue
            n += 1
            res.obligations += 1
            res.nontrivial += 1
            msg = strip(e[1][2])[2]
            # the condition that follows in the same block / its successors and tests msg against NULL
            gate = None
            seen = set()
            work = [b["id"]]
            while work and gate is None:
                x = work.pop()
                if x in seen:
                    continue
                seen.add(x)
                blk = f.blocks[x]
                if x != b["id"] and any(e2[0] == "A" and is_var(strip(e2[1][2]), name=msg) for e2 in blk["e"]):
                    continue
                c = blk.get("c")
                ss = prog.live_succs(f, blk)
                if c is not None and len(ss) == 2:
                    for idx, s_ in enumerate(ss):
                        if s_ is None:
                            continue
                        for l, op, rr in atoms(c, idx == 0):
                            for a, b_, o in ((l, rr, op), (rr, l, SWAP[op])):
                                if is_var(a, name=msg) and const_of(b_) == 0 and o == "==":
                                    if any(e3[0] == "A" for e3 in f.blocks[s_]["e"]):
                                        gate = (s_, blk.get("tloc", f.loc))
                    if gate is None and x == b["id"]:
                        continue
                if gate is None and (c is None or x == b["id"]):
                    work.extend(s for s in ss if s is not None)
            if gate is None:
                res.sample({"site": "%s %s: %s" % (short_loc(e[2]), f.name, show(e[1])[:60]), "verdict": "no store gated on the message"}, limit=6)
                continue
            if g.key in ambiguous:
                st = [e3 for e3 in f.blocks[gate[0]]["e"] if e3[0] == "A"][0]
                res.violations.append(Violation(rule, "%s|store gated on the message of %s" % (f.name.replace("mpq_", ""), g.name.replace("mpq_", "")), f.name, short_loc(gate[1]),
                                                "%s is made only when %s returned NULL, but %s also returns a message (%s) on a path on which the request has been "
                                                "applied" % (show(st[1])[:50], g.name, g.name, "; ".join(sorted(t for w, t in setters[g.key] if w == 1)))))
            else:
                res.sample({"site": "%s %s: %s" % (short_loc(e[2]), f.name, show(e[1])[:60]), "verdict": "gated; every message of the setter is a refusal"}, limit=6)
    res.counts["calls_of_message_returning_setters"] = n
    res.floor("calls of message-returning setters whose value is kept", n, floor)
    return res


def run_defaultpair(prog, rule="R-DEFAULTPAIR", floor=1):
    """the writers omit what the reader would supply.  The reader gives a column a *finite* default upper bound (1, for an integer column)
    only when no lower bound was stated (R-EXPLICITBND); the writers ask `ILLraw_default_upper` whether a column's upper bound "is the
    default" and omit the record when it says yes.  A comparison of an element of `ILLlpdata::upper` with the finite constant
    (`oneLpNum`) in a function that returns the verdict must therefore be controlled by a condition that reads the same column's
    `ILLlpdata::lower`: a bound of 1 on an integer column in [-1, 1] is not a default, and the omitted record reads back as +inf."""
    from ..core import walk, strip, is_var, callee, show, short_loc, dominators, apath, fields_of
    res = RuleResult(rule, "a comparison of a column's upper bound with the finite default constant is controlled by a condition on the column's lower bound")
    n = 0
    for f in sorted(prog.funcs.values(), key=lambda x: x.key):
        if f.live is None or "_dbl." in f.unit or "_mpf." in f.unit or not f.unit.startswith("qsopt_ex/") or "int" not in (f.ret or ""):
            continue
        sites = []
        for bid in f.live:
            blk = f.blocks[bid]
            trees = [(e[1], e[2]) for e in blk["e"] if e[0] in ("R", "C", "A") and isinstance(e[1], list)]
            if blk.get("c") is not None:
                trees.append((blk["c"], blk.get("tloc", f.loc)))
            for t, loc in trees:
                for nd in walk(t):
                    if isinstance(nd, list) and nd and nd[0] == "c" and (nd[1] or "").endswith("mpq_equal") and len(nd[3]) == 2:
                        a, b_ = strip(nd[3][0]), strip(nd[3][1])
                        fl = fields_of(apath(a)[2]) if apath(a) else None
                        if fl and fl[-1].endswith("ILLlpdata::upper") and is_var(b_) and b_[1] == "g" and "oneLpNum" in b_[2]:
                            sites.append((bid, loc, show(nd)))
        if not sites:
            continue
        dom = dominators(prog, f)[0]
        ctrl = {}
        for bid in f.live:
            c = f.blocks[bid].get("c")
            if c is None:
                continue
            reads_lower = False
            for nd in walk(c):
                if isinstance(nd, list) and nd and nd[0] == "m" and isinstance(nd[2], str) and nd[2].endswith("ILLlpdata::lower") and len(nd) > 3:
                    reads_lower = True
            if reads_lower:
                # an element of the array, not the NULL test of the array pointer
                if any(isinstance(nd, list) and nd and nd[0] == "i" and isinstance(strip(nd[1]), list) and strip(nd[1])[0] == "m"
                       and str(strip(nd[1])[2]).endswith("ILLlpdata::lower") for nd in walk(c)):
                    ctrl[bid] = [s for s in prog.live_succs(f, f.blocks[bid]) if s is not None]
        seen = set()
        for bid, loc, txt in sites:
            if (bid, txt) in seen:
                continue
            seen.add((bid, txt))
            n += 1
            res.obligations += 1
            res.nontrivial += 1
            ok = False
            for d, ss in ctrl.items():
                # the site lies in a branch of d: dominated by a successor of d that is not the join of both branches
                for s_ in ss:
                    if (s_ == bid or s_ in dom.get(bid, ())) and not all((x == bid or x in dom.get(bid, ())) for x in ss):
                        ok = True
                    # chains of conversions (`?:` blocks of the number macros) between the test and the site
                if not ok and d in dom.get(bid, ()):
                    x = d
                    for _ in range(6):
                        ss2 = [s for s in prog.live_succs(f, f.blocks[x]) if s is not None]
                        nxt = [s for s in ss2 if s == bid or s in dom.get(bid, ())]
                        if len(ss2) == 2 and len(nxt) == 1:
                            ok = True
                            break
                        if len(nxt) != 1 and not (len(ss2) == 2 and len(nxt) == 2):
                            break
                        # both successors lead on (a `?:` diamond): follow their join
                        x = nxt[0] if len(nxt) == 1 else None
                        if x is None:
                            break
            if ok:
                res.sample({"site": "%s %s: %s" % (short_loc(loc), f.name, txt[:60]), "verdict": "inside a branch of a test of the column's lower bound"}, limit=6)
            else:
                res.violations.append(Violation(rule, "%s|upper bound compared with the finite default without a look at the lower bound" % f.name.replace("mpq_", ""),
                                                f.name, short_loc(loc), "%s decides 'the upper bound is the default' for every column with that value; the reader supplies "
                                                "the finite default only for a column whose lower bound was not stated, so the omitted record of a column with "
                                                "another lower bound reads back as +inf" % txt[:70]))
    res.counts["comparisons_with_the_finite_default"] = n
    res.floor("comparisons of an upper bound with the finite default constant", n, floor)
    return res
