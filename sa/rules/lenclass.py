"""R-LENCLASS (C12, C17): block operations on a problem array use the array's own dimension.
Every allocation stored into a row / structural / internal-column array field, and every memcpy / memmove / memset
whose destination or source is such an array, has a length expression; the dimensions that expression mentions must be
of the array's index space (for allocations a larger space is accepted: ncols for a structural array, a *size field for
its dimension)."""
import collections

from ..core import walk, strip, is_var, callee, const_of, apath, fields_of, show, short_loc
from ..result import RuleResult, Violation
from .idx import ROW, STRUCT, COL, dim_class, _suffix_lookup
from .idxclass import arr_info, OUT_OF_SCOPE_UNITS

ALLOC = {"ILLutil_allocrus", "malloc", "calloc", "realloc", "ILLutil_reallocrus", "EGmalloc"}
BLOCK = {"memcpy", "memmove", "memset"}
# capacity fields: allocated length of the arrays of that space
SIZES = {"ILLlpdata::rowsize": ROW, "ILLlpdata::colsize": COL, "ILLlpdata::structsize": STRUCT, "ILLmatrix::matcolsize": COL,
         "ILLlp_rows::rowsize": ROW}
ALLOC_OK = {ROW: {ROW}, STRUCT: {STRUCT, COL}, COL: {COL}}
EXACT_OK = {ROW: {ROW}, STRUCT: {STRUCT}, COL: {COL}}
EXCEPT = {
    ("mpq_ILLlp_add_logicals", "colnames"): "colnames is grown to ncols + nrows entries here on purpose: the logicals get names; the memset "
                                            "clears the nrows new entries behind the first ncols",
}


def _dims(f):
    dimv = collections.defaultdict(set)
    for b, i, e in f.elements():
        pairs = []
        if e[0] == "A" and e[1][1] == "=" and is_var(e[1][2]):
            pairs.append((strip(e[1][2])[2], e[1][3]))
        elif e[0] == "D":
            pairs += [(n, init) for n, init in e[1] if init is not None]
        for n, rhs in pairs:
            r = strip(rhs)
            c = dim_class(r)
            if c is None and isinstance(r, list) and r and r[0] == "m":
                c = _suffix_lookup(SIZES, r[2])
            dimv[n].add(c)
    return {n: list(v)[0] for n, v in dimv.items() if len(v) == 1 and list(v)[0] is not None}


def run(prog, scope_units=None, rule="R-LENCLASS", exceptions=EXCEPT):
    res = RuleResult(rule, "every allocation of, and every block copy / fill on, a row / structural / internal-column array is sized by a "
                           "dimension of the array's own index space")
    typed = 0
    for f in sorted(prog.funcs.values(), key=lambda x: x.key):
        if not f.unit.startswith("qsopt_ex/") or "_dbl." in f.unit or "_mpf." in f.unit:
            continue
        if scope_units and not any(u in f.unit for u in scope_units):
            continue
        if any(u in f.unit for u in OUT_OF_SCOPE_UNITS):
            continue
        dimvar = None
        szinit = collections.defaultdict(list)

        def mentioned(t, depth=0):
            out = set()
            for nd in walk(t):
                if not isinstance(nd, list) or not nd:
                    continue
                c = dim_class(nd)
                if c is None and nd[0] == "m":
                    c = _suffix_lookup(SIZES, nd[2])
                if c:
                    out.add(c)
                elif nd[0] == "v" and nd[2] in dimvar:
                    out.add(dimvar[nd[2]])
                elif nd[0] == "v" and nd[2].startswith("__") and nd[2] in szinit and depth < 2:
                    for init in szinit[nd[2]]:
                        out |= mentioned(init, depth + 1)
            return out
        sites = []
        for b, i, e in f.elements():
            if e[0] == "D":
                for n, init in e[1]:
                    if n.startswith("__") and init is not None:
                        szinit[n].append(init)
            if e[0] == "A" and e[1][1] == "=":
                lhs = strip(e[1][2])
                if isinstance(lhs, list) and lhs and lhs[0] == "m":
                    c, v, fld = arr_info(lhs, {})
                    if c:
                        for nd in walk(e[1][3]):
                            if isinstance(nd, list) and nd and nd[0] == "c" and callee(nd) in ALLOC and nd[3]:
                                sites.append(("alloc", fld, c, nd[3][-1] if callee(nd) != "calloc" else ["b", "*", nd[3][0], nd[3][1]], nd, e[2]))
            if e[0] == "C" and callee(e[1]) in BLOCK and len(e[1][3]) >= 3:
                for a in (e[1][3][:2] if callee(e[1]) != "memset" else e[1][3][:1]):
                    c, v, fld = arr_info(a, {})
                    if c:
                        sites.append((callee(e[1]), fld, c, e[1][3][2], e[1], e[1][4]))
        if not sites:
            continue
        dimvar = _dims(f)
        done = set()
        for kind, fld, c, length, call, loc in sites:
            if (kind, fld, loc) in done:
                continue
            done.add((kind, fld, loc))
            res.obligations += 1
            m = mentioned(length)
            if not m:
                continue
            typed += 1
            res.nontrivial += 1
            ok = ALLOC_OK[c] if kind == "alloc" else EXACT_OK[c]
            if m & ok and (kind == "alloc" or m <= ok):
                res.sample({"site": "%s %s: %s of %s" % (short_loc(loc), f.name, kind, fld), "length_mentions": sorted(m), "array_space": c}, limit=8)
                continue
            ex = exceptions.get((f.name, fld))
            if ex:
                res.excepted.append(("%s: %s of %s" % (f.name, kind, fld), ex))
                continue
            res.violations.append(Violation(rule, "%s|%s of %s sized by %s" % (f.name.replace("mpq_", ""), kind, fld, "/".join(sorted(m))), f.name, short_loc(loc),
                                            "%s: the %s array %s is %s with a length that mentions the %s dimension" % (
                                                show(call)[:160], c, fld, "allocated" if kind == "alloc" else "block-copied / filled", "/".join(sorted(m)))))
    res.counts["sites"] = res.obligations
    res.counts["with_typed_length"] = typed
    res.floor("allocation / block sites with a typed length", typed, 25 if not scope_units else 3)
    return res
