"""R-LENCLASS (C12, C17): block operations on a problem array use the array's own dimension.
Every allocation stored into a row / structural / internal-column array field, and every memcpy / memmove / memset
whose destination or source is such an array, has a length expression; the dimensions that expression mentions must be
of the array's index space (for allocations a larger space is accepted: ncols for a structural array, a *size field for
its dimension)."""
import collections

from ..core import walk, strip, is_var, callee, const_of, apath, fields_of, show, short_loc
from ..result import RuleResult, Violation
from .idx import ROW, STRUCT, COL, dim_class, _suffix_lookup
from .idxclass import arr_info, OUT_OF_SCOPE_UNITS

ALLOC = {"ILLutil_allocrus", "malloc", "calloc", "realloc", "ILLutil_reallocrus", "EGmalloc"}
BLOCK = {"memcpy", "memmove", "memset"}
# capacity fields: allocated length of the arrays of that space
SIZES = {"ILLlpdata::rowsize": ROW, "ILLlpdata::colsize": COL, "ILLlpdata::structsize": STRUCT, "ILLmatrix::matcolsize": COL,
         "ILLlp_rows::rowsize": ROW}
ALLOC_OK = {ROW: {ROW}, STRUCT: {STRUCT, COL}, COL: {COL}}
EXACT_OK = {ROW: {ROW}, STRUCT: {STRUCT}, COL: {COL}}
EXCEPT = {
    ("mpq_ILLlp_add_logicals", "colnames"): "colnames is grown to ncols + nrows entries here on purpose: the logicals get names; the memset "
                                            "clears the nrows new entries behind the first ncols",
}


def _dims(f):
    dimv = collections.defaultdict(set)
    for b, i, e in f.elements():
        pairs = []
        if e[0] == "A" and e[1][1] == "=" and is_var(e[1][2]):
            pairs.append((strip(e[1][2])[2], e[1][3]))
        elif e[0] == "D":
            pairs += [(n, init) for n, init in e[1] if init is not None]
        for n, rhs in pairs:
            r = strip(rhs)
            c = dim_class(r)
            if c is None and isinstance(r, list) and r and r[0] == "m":
                c = _suffix_lookup(SIZES, r[2])
            dimv[n].add(c)
    return {n: list(v)[0] for n, v in dimv.items() if len(v) == 1 and list(v)[0] is not None}


def run(prog, scope_units=None, rule="R-LENCLASS", exceptions=EXCEPT):
    res = RuleResult(rule, "every allocation of, and every block copy / fill on, a row / structural / internal-column array is sized by a "
                           "dimension of the array's own index space")
    typed = 0
    for f in sorted(prog.funcs.values(), key=lambda x: x.key):
        if not f.unit.startswith("qsopt_ex/") or "_dbl." in f.unit or "_mpf." in f.unit:
            continue
        if scope_units and not any(u in f.unit for u in scope_units):
            continue
        if any(u in f.unit for u in OUT_OF_SCOPE_UNITS):
            continue
        dimvar = None
        szinit = collections.defaultdict(list)

        def mentioned(t, depth=0):
            out = set()
            for nd in walk(t):
                if not isinstance(nd, list) or not nd:
                    continue
                c = dim_class(nd)
                if c is None and nd[0] == "m":
                    c = _suffix_lookup(SIZES, nd[2])
                if c:
                    out.add(c)
                elif nd[0] == "v" and nd[2] in dimvar:
                    out.add(dimvar[nd[2]])
                elif nd[0] == "v" and nd[2].startswith("__") and nd[2] in szinit and depth < 2:
                    for init in szinit[nd[2]]:
                        out |= mentioned(init, depth + 1)
            return out
        sites = []
        for b, i, e in f.elements():
            if e[0] == "D":
                for n, init in e[1]:
                    if n.startswith("__") and init is not None:
                        szinit[n].append(init)
            if e[0] == "A" and e[1][1] == "=":
                lhs = strip(e[1][2])
                if isinstance(lhs, list) and lhs and lhs[0] == "m":
                    c, v, fld = arr_info(lhs, {})
                    if c:
                        for nd in walk(e[1][3]):
                            if isinstance(nd, list) and nd and nd[0] == "c" and callee(nd) in ALLOC and nd[3]:
                                sites.append(("alloc", fld, c, nd[3][-1] if callee(nd) != "calloc" else ["b", "*", nd[3][0], nd[3][1]], nd, e[2]))
            if e[0] == "C" and callee(e[1]) in BLOCK and len(e[1][3]) >= 3:
                for a in (e[1][3][:2] if callee(e[1]) != "memset" else e[1][3][:1]):
                    c, v, fld = arr_info(a, {})
                    if c:
                        sites.append((callee(e[1]), fld, c, e[1][3][2], e[1], e[1][4]))
        if not sites:
            continue
        dimvar = _dims(f)
        done = set()
        for kind, fld, c, length, call, loc in sites:
            if (kind, fld, loc) in done:
                continue
            done.add((kind, fld, loc))
            res.obligations += 1
            m = mentioned(length)
            if not m or c not in ALLOC_OK:      # the non-basic positions are typed by R-IDXCLASS only
                continue
            typed += 1
            res.nontrivial += 1
            ok = ALLOC_OK[c] if kind == "alloc" else EXACT_OK[c]
            if m & ok and (kind == "alloc" or m <= ok):
                res.sample({"site": "%s %s: %s of %s" % (short_loc(loc), f.name, kind, fld), "length_mentions": sorted(m), "array_space": c}, limit=8)
                continue
            ex = exceptions.get((f.name, fld))
            if ex:
                res.excepted.append(("%s: %s of %s" % (f.name, kind, fld), ex))
                continue
            res.violations.append(Violation(rule, "%s|%s of %s sized by %s" % (f.name.replace("mpq_", ""), kind, fld, "/".join(sorted(m))), f.name, short_loc(loc),
                                            "%s: the %s array %s is %s with a length that mentions the %s dimension" % (
                                                show(call)[:160], c, fld, "allocated" if kind == "alloc" else "block-copied / filled", "/".join(sorted(m)))))
    res.counts["sites"] = res.obligations
    res.counts["with_typed_length"] = typed
    res.floor("allocation / block sites with a typed length", typed, 25 if not scope_units else 3)
    return res


CAPS = {"ILLlpdata::rowsize": "nrows", "ILLlpdata::colsize": "ncols", "ILLlpdata::structsize": "nstruct"}
DIMS3 = ("nrows", "ncols", "nstruct")
CAP_EXCEPT = {("mpq_ILLlp_add_logicals", "colnames"): "grown to colsize + nrows entries so that the logicals can be named; at this point of the "
                                                      "conversion colsize == structsize == the number of structural columns"}


def run_capacity(prog, rule="R-CAPACITY"):
    """The appending edit functions write slot [count] of every per-row / per-column array whenever count < capacity and
    re-allocate all arrays of a capacity together when it is exhausted.  So every array that is (re)allocated somewhere with
    a length taken from a capacity field (rowsize / colsize / structsize) must have at least that capacity wherever else
    it is allocated: with the capacity field in its length, or in a function (or a direct callee of one) that sets the
    capacity field to the very dimension it allocates with.  The governed arrays are discovered from the allocation sites
    (sibling agreement), not listed."""
    res = RuleResult(rule, "an array governed by a capacity field (some allocation site sizes it by rowsize / colsize / structsize) is never "
                           "allocated with only the current count, unless the capacity is set to that count alongside")
    sites = []          # (f, field, loc, mentions:set of 'cap:<field>' / 'dim:<field>')
    capset = collections.defaultdict(set)     # function key -> {(capacity field, dimension it is set to)}
    dimeq = collections.defaultdict(set)      # function key -> {frozenset(d1, d2)}: dimensions set equal there
    for f in sorted(prog.funcs.values(), key=lambda x: x.key):
        if not f.unit.startswith("qsopt_ex/") or "_dbl." in f.unit or "_mpf." in f.unit or f.live is None:
            continue
        if any(u in f.unit for u in OUT_OF_SCOPE_UNITS):
            continue
        szinit = collections.defaultdict(list)
        byloc = collections.defaultdict(list)
        localinit = collections.defaultdict(list)
        for b, i, e in f.elements():
            if e[0] == "D":
                for n, init in e[1]:
                    if init is not None:
                        localinit[n].append(init)
                        if n.startswith("__"):
                            szinit[n].append(init)
                            byloc[e[2].rsplit(":", 1)[0]].append(init)
            elif e[0] == "A" and e[1][1] == "=" and is_var(e[1][2], kind="l"):
                localinit[strip(e[1][2])[2]].append(e[1][3])

        def mentions(t, depth=0):
            out = set()
            for nd in walk(t):
                if not isinstance(nd, list) or not nd:
                    continue
                if nd[0] == "m":
                    fld = nd[2]
                    rec, nm = fld.split("::")
                    for cap, dim in CAPS.items():
                        if fld.endswith(cap):
                            out.add("cap:" + cap.split("::")[1])
                    if rec.endswith("ILLlpdata") and nm in DIMS3:
                        out.add("dim:" + nm)
                elif nd[0] == "v" and depth < 3 and nd[2] in localinit and (nd[2].startswith("__") or len(localinit[nd[2]]) == 1):
                    for init in localinit[nd[2]]:
                        out |= mentions(init, depth + 1)
            return out
        # EGlpNumReallocArray (&(lp->F), size): expands to  __ptr__ = &(lp->F); __sz__ = size; ... *__ptr__ = new block
        ptrs, szs = {}, {}
        for b, i, e in f.elements():
            if e[0] == "D":
                for n, init in e[1]:
                    if init is None:
                        continue
                    suffix = n.split("@")[1] if "@" in n else ""
                    if n.startswith("__ptr__"):
                        t = strip(init)
                        if isinstance(t, list) and t and t[0] == "u" and t[1] == "&":
                            inner = strip(t[2])
                            if isinstance(inner, list) and inner and inner[0] == "m" and inner[2].split("::")[0].endswith("ILLlpdata"):
                                ptrs[(e[2], suffix)] = inner[2].split("::")[1]
                    elif n.startswith("__sz__"):
                        szs[(e[2], suffix)] = init
        for key, nm in ptrs.items():
            if key in szs and nm not in ("rowsize", "colsize", "structsize"):
                sites.append((f, nm, key[0], mentions(szs[key])))
        for b, i, e in f.elements():
            if e[0] != "A":
                continue
            lhs = strip(e[1][2])
            if e[1][1] == "=" and isinstance(lhs, list) and lhs and lhs[0] == "m":
                r = strip(e[1][3])
                if isinstance(r, list) and r and r[0] == "m" and r[2].split("::")[1] in DIMS3:
                    for cap in CAPS:
                        if lhs[2].endswith(cap):
                            capset[f.key].add((cap.split("::")[1], r[2].split("::")[1]))
                    if lhs[2].split("::")[1] in DIMS3 and lhs[2].split("::")[0].endswith("ILLlpdata"):
                        dimeq[f.key].add(frozenset((lhs[2].split("::")[1], r[2].split("::")[1])))
                rec, nm = lhs[2].split("::")
                if not rec.endswith("ILLlpdata") or nm in ("rowsize", "colsize", "structsize"):
                    continue
                rhs = e[1][3]
                m = None
                for nd in walk(rhs):
                    if isinstance(nd, list) and nd and nd[0] == "c" and callee(nd) in ALLOC and nd[3]:
                        m = set().union(*[mentions(a) for a in nd[3]])
                r = strip(rhs)
                if m is None and isinstance(rhs, list) and rhs and rhs[0] == "se":
                    key = e[2].rsplit(":", 1)[0]
                    m = set().union(*[mentions(x) for x in byloc.get(key, [])]) if byloc.get(key) else None
                if m is None:
                    continue
                sites.append((f, nm, e[2], m))
    governed = {}
    for f, nm, loc, m in sites:
        caps = {x[4:] for x in m if x.startswith("cap:")}
        if len(caps) == 1:
            governed.setdefault(nm, list(caps)[0])
    res.counts["governed_arrays"] = {k: v for k, v in sorted(governed.items())}
    callers = collections.defaultdict(set)
    for f in prog.funcs.values():
        if f.live is None:
            continue
        for b, i, c in f.calls():
            if c[1] is None:
                continue
            g = prog.resolve(f, c[1])
            if g is not None:
                callers[g.key].add(f.key)
    seen = set()
    for f, nm, loc, m in sites:
        cap = governed.get(nm)
        if cap is None or (f.key, nm, loc) in seen:
            continue
        seen.add((f.key, nm, loc))
        res.obligations += 1
        dim = CAPS["ILLlpdata::" + cap]
        if ("cap:" + cap) in m:
            res.sample({"site": "%s %s: allocation of %s" % (short_loc(loc), f.name, nm), "verdict": "sized by %s" % cap}, limit=6)
            continue
        res.nontrivial += 1
        setters = {f.key} | callers.get(f.key, set())
        mdims = {x[4:] for x in m if x.startswith("dim:")}

        def set_alongside(k):
            for (c, d) in capset.get(k, ()):
                if c == cap and (d in mdims or any(frozenset((d, d2)) in dimeq.get(k, ()) for d2 in mdims)):
                    return True
            return False
        if (f.name, nm) in CAP_EXCEPT:
            res.excepted.append(("%s: %s" % (f.name, nm), CAP_EXCEPT[(f.name, nm)]))
            continue
        if any(set_alongside(k) for k in setters):
            res.sample({"site": "%s %s: allocation of %s" % (short_loc(loc), f.name, nm),
                        "verdict": "sized by the count; %s is set to the count in this function or its caller" % cap}, limit=8)
            continue
        if not m:
            continue          # length not expressed in problem dimensions at all (not decided here)
        res.violations.append(Violation(rule, "%s|%s allocated without its capacity %s" % (f.name.replace("mpq_", ""), nm, cap), f.name, short_loc(loc),
                                        "%s is allocated here with a length in terms of %s, but elsewhere it is (re)allocated with %s and the appending "
                                        "edit functions write slot [%s] whenever %s < %s without re-allocating: a later append writes past this block" % (
                                            nm, "/".join(sorted(x.split(":")[1] for x in m)) or "?", cap, dim, dim, cap)))
    res.floor("arrays governed by a capacity field", len(governed), 10)
    res.floor("allocation sites of governed arrays", res.obligations, 25)
    return res
