"""R-LOOPZERO (C12, C17): a downward scan of a whole array reaches element 0.

`for (i = n - 1; i > 0; i--) ... a[i] ...` visits n - 1 elements: index 0 is skipped.  Where the start value is `<count> - 1` (the
last element of something that has <count> elements) and the body subscripts with the counter itself (never with `i - 1`), the strict
test is an off-by-one: the loop was meant to run to `i >= 0` (`for (i = n; i--;)` written out).  The check of the basis / dual tie in the
exact layer lost row 0 that way.  Loops whose body also uses `i - 1` (pairs of neighbours, heaps) are not concerned."""
from ..core import walk, strip, is_var, const_of, show, short_loc, dominators
from ..result import RuleResult, Violation


def run(prog, rule="R-LOOPZERO", floor=3, units=None):
    res = RuleResult(rule, "a down-counting loop that starts at <count> - 1 and subscripts with its counter runs to 0, not to 1")
    n = 0
    for f in sorted(prog.funcs.values(), key=lambda x: x.key):
        if f.live is None or "_dbl." in f.unit or "_mpf." in f.unit or not f.unit.startswith(("qsopt_ex/", "esolver/")):
            continue
        # counters initialised with  X - 1
        inits = {}
        for b, i, e in f.elements():
            if e[0] == "A" and e[1][1] == "=" and is_var(strip(e[1][2]), kind="l"):
                r = strip(e[1][3])
                if isinstance(r, list) and r and r[0] == "b" and r[1] == "-" and const_of(r[3]) == 1:
                    inits.setdefault(strip(e[1][2])[2], []).append((b["id"], show(r)))
        if not inits:
            continue
        dom = None
        for bid in sorted(f.live):
            blk = f.blocks[bid]
            c = blk.get("c")
            if c is None or blk.get("t") not in ("ForStmt", "WhileStmt"):
                continue
            c0 = strip(c)
            if not (isinstance(c0, list) and c0 and c0[0] == "b" and c0[1] in (">", ">=") and is_var(strip(c0[2]), kind="l") and const_of(c0[3]) == 0):
                continue
            v = strip(c0[2])[2]
            if v not in inits:
                continue
            ss = prog.live_succs(f, blk)
            if len(ss) != 2 or ss[0] is None:
                continue
            if dom is None:
                dom = dominators(prog, f)[0]
            # the initialisation must reach the loop header directly (a block that precedes it)
            if not any(ib in dom.get(bid, ()) for ib, _t in inits[v]):
                continue
            body = [x for x in f.live if x == ss[0] or ss[0] in dom.get(x, ())]
            uses_i = uses_im1 = False
            decremented = False
            for x in body:
                for e in f.blocks[x]["e"]:
                    trees = [t[1] for t in e[1] if t[1] is not None] if e[0] == "D" else ([e[1]] if len(e) > 1 and isinstance(e[1], list) else [])
                    if e[0] == "U" and is_var(strip(e[1][2]), kind="l", name=v) and "--" in e[1][1]:
                        decremented = True
                    for t in trees:
                        for nd in walk(t):
                            if isinstance(nd, list) and nd and nd[0] == "i":
                                ix = strip(nd[2])
                                if is_var(ix, kind="l", name=v):
                                    uses_i = True
                                if isinstance(ix, list) and ix and ix[0] == "b" and ix[1] == "-" and is_var(strip(ix[2]), kind="l", name=v):
                                    uses_im1 = True
                cb = f.blocks[x].get("c")
                if cb is not None:
                    for nd in walk(cb):
                        if isinstance(nd, list) and nd and nd[0] == "i" and is_var(strip(nd[2]), kind="l", name=v):
                            uses_i = True
            if not (uses_i and decremented) or uses_im1:
                continue
            n += 1
            res.obligations += 1
            res.nontrivial += 1
            if c0[1] == ">":
                res.violations.append(Violation(rule, "%s|downward scan by %s stops at 1" % (f.name.replace("mpq_", ""), v), f.name, short_loc(blk.get("tloc", f.loc)),
                                                "%s starts at %s and runs while %s > 0: element 0 of what the body subscripts with %s is never visited" % (
                                                    v, inits[v][0][1], v, v)))
            else:
                res.sample({"site": "%s %s" % (short_loc(blk.get("tloc", f.loc)), f.name), "loop": "%s from %s down to 0" % (v, inits[v][0][1])}, limit=8)
    res.counts["downward_scans_from_count_minus_one"] = n
    res.floor("down-counting loops from <count> - 1 that subscript with the counter", n, floor)
    return res
