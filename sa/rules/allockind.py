"""R-ALLOCKIND (C11, C17): arrays of exact numbers are created by the number-array allocator.

An array of mpq_t is not a plain block: EGlpNumAllocArray / EGlpNumReallocArray put a length header in front of it and mpq_init every
element; EGlpNumFreeArray reads that header and clears the elements.  A field of type `mpq_t *` that receives a block straight from
malloc / realloc (sized with sizeof (double) on the pinned tree: rawlpdata::sos_weight) holds uninitialised numbers of the wrong
size and is later released through a header that is not there - any MPS file with an SOS section crashed the rational reader.
Every allocation stored into a field (or local) whose element type is a GMP number must come from the number-array macros."""
from ..core import strip, is_var, callee, apath, fields_of, walk, show, short_loc
from ..result import RuleResult, Violation

RAW = {"malloc", "calloc", "realloc", "ILLutil_allocrus", "ILLutil_reallocrus", "EGmalloc"}
EXCEPT = {"ILLutil_dheap_resize": "priority heap of the branch-and-bound prototype (binary.c / priority.c / dheaps_i.c), which no function of the LP "
                                  "API reaches; the same mistake (key array of numbers grown with a raw realloc) is recorded as an observation in DESIGN.md"}


def _gmp_array_type(ct):
    ct = (ct or "").replace("const ", "")
    return ("__mpq_struct (*)[1]" in ct or "__mpf_struct (*)[1]" in ct or "__mpz_struct (*)[1]" in ct or ct.strip() in ("mpq_t *", "mpf_t *", "mpz_t *"))


def run(prog, rule="R-ALLOCKIND"):
    res = RuleResult(rule, "every block stored into a pointer whose elements are GMP numbers is produced by EGlpNumAllocArray / EGlpNumReallocArray "
                           "(length header, initialised elements), never by a raw malloc / realloc")
    ftype = {}
    for rn, r in prog.records.items():
        for fn_, ft, ct in r["fields"]:
            ftype[rn + "::" + fn_] = ct
    n = 0
    for f in sorted(prog.funcs.values(), key=lambda x: x.key):
        if "_dbl." in f.unit or f.live is None or not f.unit.startswith("qsopt_ex/"):
            continue
        for b, i, e in f.elements():
            if e[0] != "A" or e[1][1] != "=":
                continue
            lhs = strip(e[1][2])
            ct = None
            if isinstance(lhs, list) and lhs and lhs[0] == "m":
                ct = ftype.get(lhs[2])
            elif is_var(lhs, kind="l"):
                ct = f.ltypes.get(lhs[2])
                if ct and not ("*" in ct):
                    ct = None
            if not _gmp_array_type(ct):
                continue
            raws = [nd for nd in walk(e[1][3]) if nd[0] == "c" and callee(nd) in RAW]
            if not raws:
                continue
            n += 1
            res.obligations += 1
            c = raws[0]
            macros = c[5] if len(c) > 5 and c[5] else []
            if any("EGlpNumAllocArray" in m or "EGlpNumReallocArray" in m or "EGlpNumInitVar" in m for m in macros):
                res.sample({"site": "%s %s" % (short_loc(c[4]), f.name), "verdict": "through " + [m for m in macros if "EGlpNum" in m][0]}, limit=4)
                continue
            res.nontrivial += 1
            base = f.name.replace("mpq_", "").replace("mpf_", "")
            if base in EXCEPT:
                res.excepted.append((base, EXCEPT[base]))
                continue
            res.violations.append(Violation(rule, "%s|%s allocated with %s" % (f.name.replace("mpq_", "").replace("mpf_", ""), show(lhs)[:40], callee(c)), f.name, short_loc(c[4]),
                                            "%s receives a block straight from %s (%s): its elements are GMP numbers, which need the length header and the "
                                            "element initialisation of EGlpNumAllocArray / EGlpNumReallocArray and are released through that header" % (
                                                show(lhs)[:50], callee(c), show(c)[:70])))
    res.counts["raw_or_macro_allocations_into_number_arrays"] = n
    return res
