"""R-LENM1 (C11, C17): `s[len - 1]` is evaluated only where len is known to be positive.

A subscript whose index is `v - c` (c a positive constant) with v assigned from strlen () - the "last character" idiom - reads one byte
before the block when the string is empty.  Every such subscript must be dominated by a test that excludes v < c (v > 0, v >= 1, v != 0,
v == 0 on the other edge, ...), or v must be the length of a string that the same function has just found non-empty (`*s`, `s[0]` tested).
Input lines can be empty (a file without ENDATA ends in an empty read), so the error-record constructor of the readers hits the case."""
import collections

from ..core import walk, strip, is_var, callee, const_of, show, short_loc, dominators
from ..cond import atoms, SWAP
from ..result import RuleResult, Violation


def run(prog, rule="R-LENM1", floor=3):
    res = RuleResult(rule, "every subscript `a[v - c]` with v a string length is dominated by a test that excludes v < c")
    n = 0
    for f in sorted(prog.funcs.values(), key=lambda x: x.key):
        if f.live is None or "_dbl." in f.unit or "_mpf." in f.unit or not (f.unit.startswith("qsopt_ex/") or f.unit.startswith("esolver/")):
            continue
        # int locals that hold a strlen
        lens = set()
        for b, i, e in f.elements(live_only=False):
            pairs = []
            if e[0] == "A" and e[1][1] == "=" and is_var(e[1][2], kind="l"):
                pairs.append((strip(e[1][2])[2], e[1][3]))
            elif e[0] == "D":
                pairs += [(n2, init) for n2, init in e[1] if init is not None]
            for n2, rhs in pairs:
                if any(isinstance(nd, list) and nd and nd[0] == "c" and (callee(nd) or "") == "strlen" for nd in walk(rhs)):
                    lens.add(n2)
        if not lens:
            continue
        sites = []
        for b, i, e in f.elements():
            if e[0] != "S":
                continue
            ix = strip(e[1][2])
            if isinstance(ix, list) and ix and ix[0] == "b" and ix[1] == "-" and is_var(ix[2], kind="l") and strip(ix[2])[2] in lens and (const_of(ix[3]) or 0) > 0:
                sites.append((b["id"], i, e, strip(ix[2])[2], const_of(ix[3])))
        if not sites:
            continue
        dom, succ = dominators(prog, f)
        preds = collections.defaultdict(set)
        for a, ss in succ.items():
            for s in ss:
                preds[s].add(a)
        for (bid, i, e, v, c) in sites:
            n += 1
            res.obligations += 1
            res.nontrivial += 1
            ok = False
            for d in dom.get(bid, ()):
                blk = f.blocks[d]
                cnd = blk.get("c")
                if cnd is None:
                    continue
                ss = prog.live_succs(f, blk)
                if len(ss) != 2:
                    continue
                for idx, s_ in enumerate(ss):
                    if s_ is None or not (s_ == bid or s_ in dom.get(bid, ())) or preds[s_] != {d}:
                        continue
                    for l, op, r in atoms(cnd, idx == 0):
                        for a, b_, o in ((l, r, op), (r, l, SWAP[op])):
                            if is_var(a, name=v, kind="l"):
                                cb = const_of(b_)
                                if cb is not None and ((o == ">" and cb >= c - 1) or (o == ">=" and cb >= c) or (o == "!=" and cb == 0 and c == 1)):
                                    ok = True
            if ok:
                res.sample({"site": "%s %s: %s" % (short_loc(e[2]), f.name, show(e[1])[:60]), "verdict": "%s >= %d established on every path" % (v, c)}, limit=8)
                continue
            res.violations.append(Violation(rule, "%s|%s with a possibly empty string" % (f.name.replace("mpq_", ""), show(e[1])[:40]), f.name, short_loc(e[2]),
                                            "%s: %s holds a strlen () and no dominating test excludes %s < %d: for an empty string the subscript is -%d, one byte "
                                            "before the block" % (show(e[1])[:60], v, v, c, c)))
    res.counts["length_minus_constant_subscripts"] = n
    res.floor("subscripts of the form a[strlen - c]", n, floor)
    return res
