"""R-NEVERSET (C17): no decision is taken on a scalar field that nothing ever writes.

Census over the whole analysed program: every scalar (integer / floating / enum) field of a record defined in the library's
own headers that is read in live code must be written somewhere in the program - by an assignment, an increment, through
its address, or by an operation on the whole record (struct assignment, memset / calloc of the record type).  A field that
is only ever read holds whatever the allocator left there (the library's records are created with malloc, DESIGN 2.3), so
any branch on it is a read of uninitialised memory that influences a result - exactly what C17 forbids.  The rule needs no
table: the set of fields is computed; adding a field, reading it and forgetting to maintain it is reported."""
import collections

from ..core import walk, strip, is_var, callee, show, short_loc
from ..result import RuleResult, Violation

SCALAR_WORDS = ("int", "char", "long", "short", "double", "float", "unsigned", "signed", "size_t", "_Bool", "enum")


def _is_scalar(ct):
    if not ct or "[" in ct or "*" in ct or "(" in ct:
        return False
    if ct.startswith(("struct ", "union ")):
        return False
    return any(w in ct.split() or ct.startswith(w) for w in SCALAR_WORDS)


def run(prog, rule="R-NEVERSET"):
    res = RuleResult(rule, "every scalar field of a library record that live code reads is written somewhere in the program")
    loaded = set()
    for u in prog.loaded_units:
        for inst in ("mpq", "dbl", "mpf"):
            if ("_%s." % inst) in u:
                loaded.add(inst)
    ftype, floc = {}, {}
    for rn, r in prog.records.items():
        loc = r.get("loc") or ""
        if "/qsopt_ex/" not in loc and "/esolver/" not in loc:
            continue                                   # system / GMP / zlib records: written by code we do not see
        pre = rn.replace("struct ", "")[:4]
        if pre in ("dbl_", "mpf_", "mpq_") and pre[:3] not in loaded:
            continue                                   # records of an instantiation whose units are not loaded in this tier
        for fn_, ft, ct in r["fields"]:
            if _is_scalar(ct):
                ftype[rn + "::" + fn_] = ct
                floc[rn + "::" + fn_] = loc
    reads = collections.defaultdict(list)
    written = set()
    whole = set()        # records written as a whole

    def rec_of_type(ty):
        if not ty:
            return None
        t = ty.replace("const ", "").replace("struct ", "").replace("*", "").strip()
        return t if t in prog.records else None

    def visit(t, f, loc, lhs=False):
        t = strip(t)
        if not isinstance(t, list) or not t:
            return
        k = t[0]
        if k == "m":
            if lhs:
                written.add(t[2])
            else:
                reads[t[2]].append((f, loc))
            visit(t[1], f, loc)
        elif k == "a":
            visit(t[2], f, loc, lhs=True)
            if t[1] != "=":
                visit(t[2], f, loc)
            visit(t[3], f, loc)
            l = strip(t[2])
            # whole-record assignment  *a = *b  /  a = b  with a of record type
            if isinstance(l, list) and l and l[0] == "u" and l[1] == "*":
                r = rec_of_type(f.var_type(l[2]))
                if r:
                    whole.add(r)
            elif is_var(l):
                r = rec_of_type(f.var_type(l))
                if r and "*" not in (f.var_type(l) or ""):
                    whole.add(r)
        elif k == "u":
            inner = strip(t[2])
            if t[1] == "&" and isinstance(inner, list) and inner and inner[0] == "m":
                written.add(inner[2])                  # address taken: may be written through the pointer
                visit(inner[1], f, loc)
                return
            if t[1][:2] in ("++", "--") and isinstance(inner, list) and inner and inner[0] == "m":
                written.add(inner[2])
            visit(t[2], f, loc)
        elif k == "i":
            visit(t[1], f, loc)
            visit(t[2], f, loc)
        elif k == "b":
            visit(t[2], f, loc)
            visit(t[3], f, loc)
        elif k == "c":
            if t[2] is not None:
                visit(t[2], f, loc)
            for a in t[3]:
                visit(a, f, loc)
            if callee(t) in ("memset", "memcpy", "memmove", "bzero") and t[3]:
                a0 = strip(t[3][0])
                r = rec_of_type(f.var_type(a0)) if is_var(a0) else None
                if r is None and isinstance(a0, list) and a0 and a0[0] == "u" and a0[1] == "&" and is_var(a0[2]):
                    r = rec_of_type(f.var_type(a0[2]))
                if r:
                    whole.add(r)
        elif k == "k":
            visit(t[2], f, loc, lhs)
        elif k == "q":
            visit(t[1], f, loc)
            visit(t[2], f, loc)
            visit(t[3], f, loc)
        elif k == "se":
            if t[1] is not None:
                visit(t[1], f, loc)
        elif k == "il":
            for a in t[1]:
                visit(a, f, loc)
    # objects defined with an initialiser (static tables, `T x = {...}`) are written as a whole by their initialiser
    for gname, gl in prog.globals.items():
        for g in gl:
            if g.get("init") is not None:
                t = (g.get("ctype") or g.get("type") or "").replace("const ", "").replace("struct ", "")
                t = t.split("[")[0].replace("*", "").strip()
                if t in prog.records:
                    whole.add(t)
    for f in prog.funcs.values():
        for b, i, e in f.elements(live_only=False):
            if e[0] == "D":
                for n2, init in e[1]:
                    if init is not None and isinstance(init, list) and init and init[0] == "il":
                        r = rec_of_type((f.ltypes.get(n2) or "").split("[")[0])
                        if r:
                            whole.add(r)
    for f in prog.funcs.values():
        for b, i, e in f.elements(live_only=False):
            live = f.live is None or b["id"] in f.live
            if e[0] in ("A", "C", "U", "R"):
                if e[1] is not None:
                    visit(e[1], f, e[2] if len(e) > 2 else "") if live or e[0] in ("A", "U", "C") else None
            elif e[0] == "D":
                for n, init in e[1]:
                    if init is not None:
                        visit(init, f, e[2])
        for b in f.blocks.values():
            if b.get("c") is not None and (f.live is None or b["id"] in f.live):
                visit(b["c"], f, b.get("tloc", ""))
    # records created zero-filled everywhere would be fine, but the library creates its records with malloc (ILL_SAFE_MALLOC)
    nread = 0
    for fld in sorted(ftype):
        rs = [(f, loc) for (f, loc) in reads.get(fld, ()) if f.live is not None]
        if not rs:
            continue
        nread += 1
        res.obligations += 1
        rec = fld.split("::")[0]
        if fld in written or rec in whole:
            continue
        res.nontrivial += 1
        f0, loc0 = rs[0]
        res.violations.append(Violation(rule, "%s|read but never written" % fld.replace("mpq_", ""), f0.name, short_loc(loc0),
                                        "the %s field %s (declared at %s) is read here%s but no code of the program ever writes it or takes its address, and no "
                                        "whole-record operation initialises its record: the value read is whatever the allocator left there" % (
                                            ftype[fld], fld, short_loc(floc[fld]), (" and at %d other site(s)" % (len(rs) - 1)) if len(rs) > 1 else "")))
    res.counts["scalar_fields_read"] = nread
    res.counts["records_written_as_a_whole"] = len(whole)
    res.floor("scalar record fields that are read", nread, 150)
    if res.obligations and not res.violations:
        res.sample({"verdict": "all %d scalar fields of library records that live code reads are written somewhere" % nread})
    return res
