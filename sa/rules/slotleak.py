"""R-SLOTLEAK (C18): a block parked in the append slot of a problem array is committed or released.

The appending edit functions store a freshly allocated block (the duplicated row / column name) into slot [count] of a pointer
array of the problem *before* the count is incremented; the destructor releases slots [0, count) only.  So on every path from such
a store to a return the count must have been incremented (the block now belongs to the problem) or the slot must have been
released - otherwise a rejected edit (duplicate name, bad index found later) loses the block: invisible to the user, and to any
leak checker that runs the library with its slab allocator, but unbounded for a long-running host (C18's 'rejected edits').
Path-sensitive typestate on the CFG: state = set of pending slots."""
from ..core import strip, is_var, callee, const_of, apath, fields_of, show, short_loc, walk, Flow
from ..intstate import IntCells, Z, NZ, norm_local
from ..result import RuleResult, Violation

ALLOCS = {"ILLutil_str", "strdup", "malloc", "calloc", "ILLutil_allocrus", "EGmalloc"}
COUNT_OF = {"ILLlpdata::rownames": "nrows", "ILLlpdata::colnames": "nstruct"}
FREES = {"free", "ILLutil_freerus", "EGfree"}


def _count_valued(f, ix, dim):
    """the index expression is the current count: the field itself, or a local assigned from it and nothing else"""
    ix = strip(ix)
    if isinstance(ix, list) and ix and ix[0] == "m":
        return ix[2].split("::")[1] == dim
    if is_var(ix, kind="l"):
        srcs = set()
        for b, i, e in f.elements(live_only=False):
            pairs = []
            if e[0] == "A" and e[1][1] == "=" and is_var(e[1][2], name=ix[2], kind="l"):
                pairs.append(e[1][3])
            elif e[0] == "D":
                pairs += [init for n, init in e[1] if n == ix[2] and init is not None]
            elif e[0] == "U" and is_var(e[1][2], name=ix[2], kind="l"):
                srcs.add("?")
            for r in pairs:
                r = strip(r)
                srcs.add(r[2].split("::")[1] if isinstance(r, list) and r and r[0] == "m" else "?")
        return srcs == {dim}
    return False


def _slot(f, t):
    """field key when t is  X->F[count]  for a counted pointer array F"""
    t = strip(t)
    if isinstance(t, list) and t and t[0] == "i":
        fl = fields_of(apath(t[1])[2])
        for fld, dim in COUNT_OF.items():
            if fl and fl[-1].endswith(fld) and _count_valued(f, t[2], dim):
                return fld
    return None


def run(prog, rule="R-SLOTLEAK"):
    res = RuleResult(rule, "a block stored into the append slot [count] of a problem's name array is followed, on every path to a return, by the "
                           "increment of that count or by the release of the slot")
    nsites = 0
    for f in sorted(prog.funcs.values(), key=lambda x: x.key):
        if "_dbl." in f.unit or "_mpf." in f.unit or f.live is None or not f.unit.startswith("qsopt_ex/"):
            continue
        stores = {}
        for b, i, e in f.elements():
            if e[0] == "A" and e[1][1] == "=":
                s = _slot(f, e[1][2])
                if s and any(nd[0] == "c" and callee(nd) in ALLOCS for nd in walk(e[1][3])):
                    stores[(b["id"], i)] = (s, e)
        if not stores:
            continue
        nsites += len(stores)
        leaks = {}
        # error-code variables and constant-only int flags of the function are tracked (zero / non-zero) so that a release guarded by
        # `if (rval && name_set)` is seen on exactly the paths that need it
        assigned = {}
        for b, i, e in f.elements(live_only=False):
            if e[0] == "A" and is_var(e[1][2], kind="l"):
                assigned.setdefault(norm_local(strip(e[1][2])[2]), []).append(e[1][3] if e[1][1] == "=" else None)
            elif e[0] == "D":
                for n2, init in e[1]:
                    if init is not None:
                        assigned.setdefault(norm_local(n2), []).append(init)
            elif e[0] == "U" and is_var(e[1][2], kind="l"):
                assigned.setdefault(norm_local(strip(e[1][2])[2]), []).append(None)
        flags = sorted(n2 for n2, rs in assigned.items() if "int" in (f.ltypes.get(n2) or "") and "*" not in (f.ltypes.get(n2) or "")
                       and rs and all(r is not None and const_of(r) is not None for r in rs))
        names = ["rval", "__EGrval__"] + [n2 for n2 in flags if n2 not in ("rval", "__EGrval__")][:6]
        cells = IntCells(names, lambda st, c: st[1][names.index(c)], lambda st, c, v: (st[0], st[1][:names.index(c)] + (v,) + st[1][names.index(c) + 1:]))

        def xfer(b, i, e, st, stores=stores, leaks=leaks, f=f, cells=cells):
            pend = st[0]
            if e[0] == "D":
                out = [st]
                for name, init in e[1]:
                    nxt = []
                    for s_ in out:
                        r = cells.declare(s_, name, init)
                        nxt.extend(r if r is not None else [s_])
                    out = nxt
                return out
            if (b["id"], i) in stores:
                return [(pend | {stores[(b["id"], i)][0]}, st[1])]
            if e[0] == "A":
                r = cells.assign(st, e[1][2], e[1][3], e[1][1])
                if r is not None:
                    return r
            if e[0] in ("U", "A"):
                t = strip(e[1][2])
                if isinstance(t, list) and t and t[0] == "m":
                    nm = t[2].split("::")[1]
                    done = {s_ for s_ in pend if COUNT_OF[s_] == nm}
                    if done:
                        return [(pend - done, st[1])]
                if e[0] == "A":
                    s_ = _slot(f, e[1][2])
                    if s_ and s_ in pend and const_of(e[1][3]) == 0:
                        return [(pend - {s_}, st[1])]
            if e[0] == "C" and callee(e[1]) in FREES and e[1][3]:
                s_ = _slot(f, e[1][3][0])
                if s_ and s_ in pend:
                    return [(pend - {s_}, st[1])]
            if e[0] == "R" and pend:
                for s_ in pend:
                    leaks.setdefault(s_, (b["id"], st, e[2]))
            return None
        flw = Flow(prog, f, [(frozenset(), tuple(Z for _ in names))], xfer, lambda c, t, st: cells.refine(c, t, st)).run()
        for (bid, i), (s, e) in sorted(stores.items()):
            res.obligations += 1
            res.nontrivial += 1
            if s in leaks:
                lb, st, rloc = leaks[s]
                res.violations.append(Violation(rule, "%s|append slot of %s neither committed nor released" % (f.name.replace("mpq_", ""), s.split("::")[1]), f.name, short_loc(e[2]),
                                                "%s parks a fresh block in slot [%s] of %s; a return is reachable without incrementing %s and without releasing the "
                                                "slot: when the edit is rejected afterwards the block is lost" % (show(e[1])[:80], COUNT_OF[s], s.split("::")[1], COUNT_OF[s]),
                                                path=flw.witness(lb, st)))
            else:
                res.sample({"site": "%s %s: %s" % (short_loc(e[2]), f.name, show(e[1])[:60]), "verdict": "count incremented or slot released on every path"}, limit=4)
    res.counts["append_slot_stores"] = nsites
    res.floor("append-slot stores of fresh blocks", nsites, 2)
    return res
