"""R-DECACC (C11, C17): a decimal number is not assembled in a machine integer without a bound.

A statement of the form  v = 10 * v + <digit>  (or v = v * 10 + ..., v *= 10) inside a loop that consumes input characters grows v by
a factor of ten per character: any input with enough digits overflows it (signed overflow is undefined behaviour; the wrapped value
then drives loops and allocations).  Each such accumulation must sit under a test of v (or of a digit counter) against a constant
- in the same loop, on a dominating position - that keeps it from running over.  (The exponent of the exact literal parser had none.)"""
from ..core import walk, strip, is_var, callee, const_of, show, short_loc, dominators
from ..result import RuleResult, Violation
from .certdep import natural_loops


def run(prog, rule="R-DECACC", floor=1):
    res = RuleResult(rule, "every decimal accumulation v = 10 * v + digit in a machine integer is dominated by a bound test of v or of a digit counter")
    n = 0
    for f in sorted(prog.funcs.values(), key=lambda x: x.key):
        if f.live is None or "_dbl." in f.unit or "_mpf." in f.unit or not (f.unit.startswith("qsopt_ex/") or f.unit.startswith("esolver/")):
            continue
        sites = []
        for b, i, e in f.elements():
            if e[0] != "A" or not is_var(e[1][2], kind="l"):
                continue
            v = strip(e[1][2])[2]
            ty = f.ltypes.get(v) or ""
            if not any(w in ty for w in ("int", "long", "short", "size_t")) or "*" in ty:
                continue
            acc = False
            if e[1][1] == "*=" and const_of(e[1][3]) == 10:
                acc = True
            if e[1][1] == "=":
                for nd in walk(e[1][3]):
                    if isinstance(nd, list) and nd and nd[0] == "b" and nd[1] == "*":
                        for x, y in ((nd[2], nd[3]), (nd[3], nd[2])):
                            if const_of(x) == 10 and is_var(y, name=v, kind="l"):
                                acc = True
            if acc:
                sites.append((b["id"], i, e, v))
        if not sites:
            continue
        loops, dom, succ = natural_loops(prog, f)
        for (bid, i, e, v) in sites:
            if not any(bid in body for body in loops.values()):
                continue
            n += 1
            res.obligations += 1
            res.nontrivial += 1
            ok = False
            for d in dom.get(bid, ()):
                c = f.blocks[d].get("c")
                if c is None or d == bid and False:
                    continue
                for nd in walk(c):
                    if isinstance(nd, list) and nd and nd[0] == "b" and nd[1] in ("<", "<=", ">", ">="):
                        for x, y in ((nd[2], nd[3]), (nd[3], nd[2])):
                            if is_var(x, name=v, kind="l") and not is_var(y):
                                ok = True            # v compared with a constant expression (INT_MAX / 10 ...)
                            if is_var(x, kind="l") and const_of(y) is not None and any(w in strip(x)[2] for w in ("dig", "cnt", "len", "n_")) and const_of(y) > 0:
                                ok = True            # a digit counter against a constant
            if ok:
                res.sample({"site": "%s %s: %s" % (short_loc(e[2]), f.name, show(e[1])[:50]), "verdict": "bounded"}, limit=6)
            else:
                res.violations.append(Violation(rule, "%s|%s assembled without a bound" % (f.name.replace("mpq_", ""), v), f.name, short_loc(e[2]),
                                                "%s multiplies %s by ten per input character inside a loop and no dominating test compares %s (or a digit counter) with a "
                                                "constant: enough digits overflow the machine integer" % (show(e[1])[:60], v, v)))
    res.counts["decimal_accumulations_in_loops"] = n
    res.floor("decimal accumulations in loops", n, floor)
    return res
