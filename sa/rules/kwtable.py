"""R-KWTABLE (C08): the LP reader's keyword table and its length table agree.

The LP reader finds the end of an expression or of a section with the global keyword table of read_lp.c (a NULL-terminated array of
strings with a parallel array of lengths), and dispatches on section headers with small local lists filled in ILLread_lp and handed to
the keyword test.  Parallel tables: all_keyword_len[i] is the length of all_keyword[i] (-1 for the terminating NULL) - the comparison that recognises
MIN / ST / BOUNDS / END ... in what the writer has written uses the length table, so a wrong entry makes the reader miss a keyword
the writer emits.  The header spellings of the dispatcher that are *not* in the global table are counted and listed in the evidence
only ("INT" is one: the reader lists it but can never reach it; no property is concerned, the writer never emits it)."""
from ..core import walk, strip, is_var, callee, const_of, show, short_loc
from ..result import RuleResult, Violation


def _table(prog, name, unit_part):
    for g in prog.globals.get(name, ()):
        if unit_part in g["unit"] and g.get("init") and g["init"][0] == "il":
            return g
    return None


def run(prog, prefix="mpq_", rule="R-KWTABLE", floor=10):
    res = RuleResult(rule, "the LP reader's global keyword table, its length table and the header lists of the section dispatcher agree")
    unit = "read_lp_%s" % prefix[:-1]
    tab = _table(prog, "all_keyword", unit)
    lens = _table(prog, "all_keyword_len", unit)
    if tab is None or lens is None:
        res.floor("keyword table all_keyword / all_keyword_len found", 0, 1)
        return res
    words, nums = [], []
    for x in tab["init"][1]:
        x = strip(x)
        words.append(x[1] if isinstance(x, list) and x and x[0] == "s" else None)
    for x in lens["init"][1]:
        nums.append(const_of(x))
    n = 0
    for i, w in enumerate(words):
        n += 1
        res.obligations += 1
        want = len(w) if w is not None else -1
        got = nums[i] if i < len(nums) else None
        if got != want:
            res.violations.append(Violation(rule, "all_keyword_len|entry %d (%s) has length %s" % (i, w, got), "all_keyword_len", short_loc(lens.get("loc", tab.get("loc", ""))),
                                            "all_keyword[%d] is %r (%d characters) but all_keyword_len[%d] is %s: the keyword comparison uses the length table" % (
                                                i, w, want, i, got)))
    if len(nums) != len(words):
        res.violations.append(Violation(rule, "all_keyword_len|%d lengths for %d keywords" % (len(nums), len(words)), "all_keyword_len", short_loc(lens.get("loc", "")),
                                        "the two parallel tables have different lengths"))
    known = {w.upper() for w in words if w}
    # (b) header lists of the dispatcher
    nhead = 0
    for f in prog.funcs.values():
        if f.live is None or ("lp_%s" % prefix[:-1]) not in f.unit or "read_lp" in f.unit:
            continue
        lists = set()
        for b, i, c in f.calls():
            if (callee(c) or "").endswith(("ILLtest_lp_state_keyword", "ILLread_lp_state_keyword")) and len(c[3]) > 1 and is_var(c[3][1], kind="l"):
                lists.add(strip(c[3][1])[2])
        if not lists:
            continue
        for b, i, e in f.elements():
            if e[0] == "A" and e[1][1] == "=":
                l = strip(e[1][2])
                r = strip(e[1][3])
                if isinstance(l, list) and l and l[0] == "i" and is_var(l[1], kind="l") and strip(l[1])[2] in lists and isinstance(r, list) and r and r[0] == "s":
                    nhead += 1
                    res.obligations += 1
                    res.nontrivial += 1
                    if r[1].upper() in known:
                        res.sample({"header": r[1], "list": strip(l[1])[2], "verdict": "in the global keyword table"}, limit=8)
                    else:
                        res.counts.setdefault("header_spellings_not_in_the_global_table", []).append(r[1])
    res.counts["keywords"] = [w for w in words if w]
    res.counts["header_spellings_of_the_dispatcher"] = nhead
    res.floor("entries of the global keyword table", n, floor)
    res.floor("header spellings stored into the dispatcher's lists", nhead, 4)
    return res
