"""R-USEB4CHECK (C17, C11): an index is not used as a subscript right before it is compared with a capacity.
Contradiction rule: a relational test of an integer variable against a capacity (a struct field or a constant) says the
author believes the variable may be out of range; a subscript by the same, unmodified variable evaluated just before that
test (same && / || chain or the straight-line code leading into it) has then already made the access.  The order of the
two must be test first, access second."""
import collections

from ..core import strip, is_var, show, short_loc, const_of
from ..cond import atoms
from ..result import RuleResult, Violation


def _capacity(t):
    t = strip(t)
    if isinstance(t, list) and t:
        if t[0] == "m":
            return True
        if t[0] == "n":
            return True
        if t[0] == "b" and t[1] in ("+", "-", "*"):
            return _capacity(t[2]) or _capacity(t[3])
    return False


def scan(prog, f):
    """yield (subscript element, condition tree, variable)"""
    preds = collections.defaultdict(list)
    for bid, bl in f.blocks.items():
        for s in prog.live_succs(f, bl):
            if s is not None:
                preds[s].append(bid)
    checks = 0
    out = []
    for bid, bl in f.blocks.items():
        if f.live is not None and bid not in f.live:
            continue
        c = bl.get("c")
        if c is None:
            continue
        vs = set()
        for l, op, r in atoms(c, True):
            if op in ("<", "<=", ">", ">="):
                for a, o in ((l, r), (r, l)):
                    a = strip(a)
                    if is_var(a) and (a[1] == "l" or a[1].startswith("p")) and _capacity(o) and const_of(o) != 0:
                        vs.add(a[2])
        if not vs:
            continue
        checks += 1
        cur, depth, alive = bid, 0, set(vs)
        while cur is not None and depth < 4 and alive:
            b = f.blocks[cur]
            for e in reversed(b["e"]):
                if e[0] in ("A", "U"):
                    t = strip(e[1][2])
                    if is_var(t):
                        alive.discard(t[2])
                elif e[0] == "D":
                    for n, _ in e[1]:
                        alive.discard(n)
                elif e[0] == "S":
                    ix = strip(e[1][2])
                    if is_var(ix) and ix[2] in alive:
                        out.append((e, c, ix[2]))
                        alive.discard(ix[2])
            p = preds.get(cur, [])
            # only follow a unique predecessor whose own condition does not already test the variable
            cur = p[0] if len(p) == 1 else None
            if cur is not None:
                pc = f.blocks[cur].get("c")
                if pc is not None:
                    for l, op, r in atoms(pc, True):
                        for a in (l, r):
                            a = strip(a)
                            if is_var(a):
                                alive.discard(a[2])
            depth += 1
    return out, checks


def run(prog, scope=lambda f: f.unit.startswith("qsopt_ex/") and "_dbl." not in f.unit and "_mpf." not in f.unit, rule="R-USEB4CHECK"):
    res = RuleResult(rule, "no subscript by a variable is evaluated immediately before that unmodified variable is compared with a capacity")
    total = 0
    for f in sorted(prog.funcs.values(), key=lambda x: x.key):
        if not scope(f):
            continue
        hits, checks = scan(prog, f)
        total += checks
        res.obligations += checks
        for e, c, v in hits:
            res.nontrivial += 1
            res.violations.append(Violation(rule, "%s|%s used as subscript before its range test" % (f.name.replace("mpq_", ""), v), f.name, short_loc(e[2]),
                                            "%s is evaluated before the test %s of the same unmodified index: the access has already happened "
                                            "when the range is checked" % (show(e[1])[:80], show(c)[:80])))
    res.counts["capacity_tests_examined"] = total
    res.floor("capacity tests examined", total, 300 if len(prog.funcs) > 300 else 1)
    return res
