"""R-INFMAP (C16): the reduced-precision copies map the rational problem's infinity to the target type's infinity.

"Infinite" is a sentinel value in every number type (mpq_ILL_MAXDOUBLE / MINDOUBLE, a rational that is not a double; dbl_ILL_MAXDOUBLE
= 1e150; mpf_ILL_MAXDOUBLE); a bare conversion turns the rational sentinel into a number *below* the double sentinel, which the
floating-point code takes for a finite bound / limit.  In QScopy_prob_mpq_dbl and QScopy_prob_mpq_mpf (macro expansions included: the
CFG of the function contains the statement expressions of the array macros) every conversion mpq_get_d (X) / mpf_set_q (., X) must be
dominated by the false edges of tests mpq_equal (X, mpq_ILL_MAXDOUBLE) and mpq_equal (X, mpq_ILL_MINDOUBLE) on the same X.
Discharged structurally: a value fetched with the parameter getter for a constant whose case in the getter converts a `double` field
(the time limit) cannot hold the rational sentinel."""
import re

from ..core import walk, strip, is_var, callee, const_of, show, short_loc, dominators, norm_callee
from ..result import RuleResult, Violation

ROOTS = ("QScopy_prob_mpq_dbl", "QScopy_prob_mpq_mpf")
CONV = {"mpq_get_d": 0, "mpf_set_q": 1}
SENTINELS = ("mpq_ILL_MAXDOUBLE", "mpq_ILL_MINDOUBLE")


def _calls_in(t):
    for nd in walk(t):
        if isinstance(nd, list) and nd and nd[0] == "c":
            yield nd


def _getter_source_is_double(prog, getter, k):
    """in the getter, the case for constant k stores a value converted from a field / variable of type double"""
    for bid in getter.live:
        b = getter.blocks[bid]
        lab = b.get("l")
        if not lab or lab[0] != "case" or lab[1] != k:
            continue
        for e in b["e"]:
            if e[0] != "C":
                continue
            for a in e[1][3][1:]:
                a0 = strip(a)
                if isinstance(a0, list) and a0 and a0[0] == "m":
                    rec, fld = a0[2].split("::")
                    r = prog.records.get(rec)
                    for x in (r or {}).get("fields", ()):
                        if x[0] == fld and x[1].strip() == "double":
                            return "%s (%s, a double)" % (lab[2] if len(lab) > 2 else k, fld)
    return None


def run(prog, rule="R-INFMAP", floor=12):
    res = RuleResult(rule, "every rational-to-double / rational-to-mpf conversion in the reduced-precision copy routines is dominated by the tests of the "
                           "value against both rational infinity sentinels")
    nsite = 0
    for rn in ROOTS:
        f = prog.require_fn(rn)
        dom, succ = dominators(prog, f)
        # guards: condition blocks  mpq_equal (X, SENTINEL); the successor taken when the test is false
        guards = []            # (bid, X text, sentinel, false successor)
        for bid in f.live:
            b = f.blocks[bid]
            c = b.get("c")
            if c is None:
                continue
            neg = False
            c0 = strip(c)
            while isinstance(c0, list) and c0 and c0[0] == "u" and c0[1] == "!":
                neg = not neg
                c0 = strip(c0[2])
            if isinstance(c0, list) and c0 and c0[0] == "c" and norm_callee(callee(c0) or "") == "mpq_equal" and len(c0[3]) == 2:
                for x, s in ((c0[3][0], c0[3][1]), (c0[3][1], c0[3][0])):
                    s0 = strip(s)
                    if is_var(s0) and s0[2] in SENTINELS:
                        ss = prog.live_succs(f, b)
                        if len(ss) == 2:
                            guards.append((bid, show(x), s0[2], ss[0] if neg else ss[1]))
        for b, i, e in f.elements():
            trees = [x[1] for x in e[1] if x[1] is not None] if e[0] == "D" else ([e[1]] if e[1] is not None else [])
            if e[0] == "C":
                trees = [e[1]]
            elif e[0] in ("A", "D", "R", "X"):
                continue            # calls are exported as their own C elements in evaluation order
            for t in trees:
                for c in ([t] if isinstance(t, list) and t and t[0] == "c" else []):
                    n = norm_callee(callee(c) or "")
                    if n not in CONV or len(c[3]) <= CONV[n]:
                        continue
                    X = show(c[3][CONV[n]])
                    nsite += 1
                    res.obligations += 1
                    res.nontrivial += 1
                    have = set()
                    for (gb, gx, s, fs) in guards:
                        if gx == X and fs is not None and (fs == b["id"] or fs in dom.get(b["id"], ())):
                            have.add(s)
                    if len(have) == 2:
                        res.sample({"site": "%s %s: %s" % (short_loc(c[4]), rn, show(c)[:60]), "verdict": "behind both sentinel tests"}, limit=6)
                        continue
                    # the value comes from the parameter getter for a constant whose source is a double
                    why, kname = None, None
                    x0 = strip(c[3][CONV[n]])
                    if is_var(x0, kind="l"):
                        last = None
                        for b2, i2, c2 in f.calls():
                            if (b2["id"] in dom.get(b["id"], ()) and b2["id"] != b["id"]) or (b2["id"] == b["id"] and i2 < i):
                                for a in c2[3]:
                                    a0 = strip(a)
                                    if isinstance(a0, list) and a0 and a0[0] == "u" and a0[1] == "&" and is_var(a0[2], name=x0[2], kind="l"):
                                        if last is None or (b2["id"], -i2) < last[0]:
                                            last = ((b2["id"], -i2), c2)
                        # block ids decrease along the flow: the latest dominating definition has the smallest id
                        if last is not None:
                            c2 = last[1]
                            g = prog.resolve(f, c2[1]) if c2[1] else None
                            ks = [const_of(a) for a in c2[3] if const_of(a) is not None]
                            for a in c2[3]:
                                a0 = strip(a)
                                if isinstance(a0, list) and a0 and a0[0] == "n" and len(a0) > 2 and a0[2]:
                                    kname = a0[2]
                            if g is not None and g.live is not None and ks:
                                why = _getter_source_is_double(prog, g, ks[0])
                    if why:
                        res.sample({"site": "%s %s: %s" % (short_loc(c[4]), rn, show(c)[:60]), "verdict": "value fetched for %s: cannot be the rational sentinel" % why}, limit=6)
                        continue
                    res.violations.append(Violation(rule, "%s|%s converted without the infinity tests" % (rn, X + (" (%s)" % kname if kname else "")), rn, short_loc(c[4]),
                                                    "%s converts %s without being dominated by the false edges of mpq_equal (%s, mpq_ILL_MAXDOUBLE) and mpq_equal (%s, "
                                                    "mpq_ILL_MINDOUBLE) (found: %s): a rational infinity becomes a finite number just below the target type's "
                                                    "infinity" % (show(c)[:60], X, X, X, ", ".join(sorted(have)) or "none")))
    res.counts["conversion_sites"] = nsite
    res.floor("rational conversions in the copy routines", nsite, floor)
    return res


def run_kept(prog, rule="R-SENTKEPT", floor=8):
    """a special case is not undone by the general case.  The conversion macros of exact.h (expanded into the functions of exact.c: the
    CFG contains their statement expressions) store the target type's infinity sentinel into an element when the source holds the source
    type's sentinel, and convert the value otherwise.  From every store of a sentinel (a call whose second argument, or an assignment
    whose right-hand side, is one of the *_ILL_MAXDOUBLE / *_ILL_MINDOUBLE globals) no path - cut where a variable of the destination
    expression changes, i.e. at the next loop iteration - reaches another store into the same destination expression: the three sister
    macros end in `else <convert>`; QScopy_array_mpf_mpq had lost the `else`, so mpf infinity came out as a finite rational."""
    res = RuleResult(rule, "a store of an infinity sentinel into a location is not followed, within the same iteration, by another store into that location")
    n = 0
    for f in sorted(prog.funcs.values(), key=lambda x: x.key):
        if f.live is None or not f.unit.endswith("qsopt_ex/exact.c"):
            continue
        stores = []          # (bid, idx, dest text, dest tree, loc, is sentinel)
        for bid in f.live:
            for i, e in enumerate(f.blocks[bid]["e"]):
                dest = src = None
                if e[0] == "C" and len(e[1][3]) >= 2 and any(k in (callee(e[1]) or "") for k in ("_set", "EGlpNumSet", "EGlpNumCopy")):
                    dest, src = e[1][3][0], e[1][3][1]
                elif e[0] == "A" and e[1][1] == "=":
                    dest, src = e[1][2], e[1][3]
                if dest is None:
                    continue
                d0 = strip(dest)
                if not (isinstance(d0, list) and d0 and d0[0] == "i"):
                    continue
                s0 = strip(src)
                sent = is_var(s0) and s0[1] == "g" and s0[2].endswith(("ILL_MAXDOUBLE", "ILL_MINDOUBLE"))
                stores.append((bid, i, show(d0), d0, e[2], sent))
        if not any(s[5] for s in stores):
            continue
        succ = {bid: [s for s in prog.live_succs(f, f.blocks[bid]) if s is not None] for bid in f.live}

        def changes(bid, names, start=0):
            blk = f.blocks[bid]
            for e in blk["e"][start:]:
                if e[0] == "U" and is_var(strip(e[1][2])) and strip(e[1][2])[2] in names:
                    return True
                if e[0] == "A" and is_var(strip(e[1][2])) and strip(e[1][2])[2] in names:
                    return True
                if e[0] == "D" and any(nm in names for nm, _ in e[1]):
                    return True
            c = blk.get("c")
            if c is not None:
                for nd in walk(c):
                    if isinstance(nd, list) and nd and nd[0] in ("u", "a") and len(nd) > 2 and str(nd[1]) in ("++", "--", "++post", "--post", "=", "+=", "-=") \
                            and is_var(strip(nd[2])) and strip(nd[2])[2] in names:
                        return True
            return False

        for (bid, i, dtxt, d0, loc, sent) in stores:
            if not sent:
                continue
            n += 1
            res.obligations += 1
            res.nontrivial += 1
            names = {nd[2] for nd in walk(d0) if is_var(nd)}
            hit = None
            seen = set()
            work = [(bid, i + 1)]
            while work and hit is None:
                b0, st = work.pop()
                if (b0, st) in seen:
                    continue
                seen.add((b0, st))
                for (b2, i2, t2, _d, loc2, _s) in stores:
                    if b2 == b0 and i2 >= st and t2 == dtxt and not (b2 == bid and i2 == i):
                        # the destination variables must not have changed before it inside this block
                        blk = f.blocks[b0]
                        if not any(e[0] in ("U", "A", "D") and ((e[0] == "D" and any(nm in names for nm, _ in e[1])) or
                                                               (e[0] != "D" and is_var(strip(e[1][2])) and strip(e[1][2])[2] in names)) for e in blk["e"][st:i2]):
                            hit = loc2
                            break
                if hit is None and not changes(b0, names, st):
                    for s in succ.get(b0, ()):
                        work.append((s, 0))
            if hit:
                res.violations.append(Violation(rule, "%s|sentinel stored into %s and overwritten" % (f.name, re.sub(r"@\d+", "", dtxt)), f.name, short_loc(loc),
                                                "the infinity sentinel stored into %s is overwritten by the store at %s on a path of the same iteration: the special "
                                                "case for infinite values is dead, the general conversion always runs" % (dtxt, short_loc(hit))))
            else:
                res.sample({"site": "%s %s: sentinel into %s" % (short_loc(loc), f.name, dtxt), "verdict": "kept until the next iteration"}, limit=8)
    res.counts["sentinel_stores"] = n
    res.floor("stores of an infinity sentinel into an array element in exact.c", n, floor)
    return res
