"""R-ZEROTOL (C01, C12, C13): the rational instantiation runs at tolerance zero.
Value-class analysis ({Z}ero, {NZ} non-zero, {U}nknown; sets) over GMP-number locations: the tolerance globals, the
fields of the per-lp tolerance record, the two tolerances of the LU work record, and the locals / parameters their
values flow through.  A write is classified by the GMP call that performs it (init -> Z, set_ui(x,0,1) -> Z,
EGlpNumSet(x, literal) -> Z iff the literal is 0, set(x,y) -> class(y), mul(x,a,b) -> Z if one operand is only-Z,
scaling by an integer and canonicalisation keep the class).  A write that is followed on every path of its function by
another write of the same location is dead (the `Set(T, c); MultTo(T, eps)` idiom of ILLstart) and does not count.
Obligation: every deciding tolerance location has class exactly {Z}, and nobody but the listed writers stores into it."""
import collections

from ..core import walk, strip, is_var, callee, const_of, apath, fields_of, show, short_loc, AnalysisBroken
from ..result import RuleResult, Violation

Z, NZ, U = "Z", "NZ", "U"

TOL_GLOBALS = ("PFEAS_TOLER", "DFEAS_TOLER", "BD_TOLER", "PIVOT_TOLER", "SZERO_TOLER", "PIVZ_TOLER", "OBJBND_TOLER", "ALTPIV_TOLER",
               "PARAM_MIN_DNORM", "PROGRESS_ZERO", "PROGRESS_THRESH")
FACTOR_FIELDS = ("factor_work::fzero_tol", "factor_work::szero_tol")
GMP_INTERNAL = ("__mpq_struct::_mp_num", "__mpq_struct::_mp_den")
IDENTITY = {"mpq_canonicalize", "mpz_mul_ui"}          # scaling numerator / denominator by an integer, normalising
RELEASE = {"mpq_clear"}


def _lit_zero(t):
    t = strip(t)
    v = const_of(t)
    if v is not None:
        return v == 0
    if isinstance(t, list) and t and t[0] in ("n", "fl"):
        try:
            return float(t[1]) == 0.0
        except (TypeError, ValueError):
            return None
    return None


class Analysis:
    def __init__(self, prog, eff, prefix="mpq_"):
        self.prog, self.eff, self.prefix = prog, eff, prefix
        self.zero_global = "__zeroLpNum_%s__" % prefix.rstrip("_")
        self.globals = {prefix + g for g in TOL_GLOBALS} | {self.zero_global}
        tol_rec = [r for r in prog.records if r.endswith(prefix + "tol_struct")]
        if not tol_rec:
            raise AnalysisBroken("record %stol_struct not found" % prefix)
        self.tol_fields = set()
        for r in tol_rec:
            for fld in prog.records[r].get("fields", []):
                self.tol_fields.add("%s::%s" % (r, fld[0] if isinstance(fld, list) else fld.get("name")))
        self.factor_fields = {prefix + x for x in FACTOR_FIELDS}
        self.writes = collections.defaultdict(list)     # loc id -> [(fkey, bid, idx, call, dest index)]
        self.reads = collections.Counter()
        self.cls = collections.defaultdict(set)
        self.callsites = collections.defaultdict(list)  # callee key -> [(f, call)]
        self._collect()
        self._solve()

    # ---- locations
    def loc_of(self, f, t):
        p = apath(t)
        kind, root, steps = p
        fl = [s for s in fields_of(steps) if s not in GMP_INTERNAL]
        if fl:
            last = fl[-1]
            if last in self.tol_fields or last in self.factor_fields:
                return "f:" + last
            return None
        if kind in ("g", "sg"):
            return "g:" + root
        if kind == "l":
            return "l:%s:%s" % (f.key, root)
        if kind.startswith("p") and kind[1:].isdigit():
            return "p:%s:%s" % (f.key, kind[1:])
        return None

    def tracked(self, loc):
        return loc is not None and (loc[0] in "fg" and (loc[2:] in self.globals or loc[2:] in self.tol_fields or loc[2:] in self.factor_fields))

    def _is_gmp(self, f, t):
        ty = f.var_type(strip(t)) if is_var(strip(t)) else None
        return ty is None or "mpq" in ty or "mpz" in ty

    def _collect(self):
        prog = self.prog
        for f in prog.funcs.values():
            if f.live is None:
                pass
            for b, i, e in f.elements():
                if e[0] != "C":
                    continue
                c = e[1]
                name = callee(c)
                if name is None:
                    continue
                g = prog.resolve(f, name)
                if g is not None:
                    self.callsites[g.key].append((f, c))
                pts = self.eff.proto.get(name, [])
                for k, a in enumerate(c[3]):
                    loc = self.loc_of(f, a)
                    if loc is None:
                        continue
                    written = False
                    if g is None:
                        if k < len(pts):
                            t = pts[k]
                            written = ("*" in t or "[" in t) and not self.eff._const_pointee(t) and "(" not in t
                    else:
                        written = any(kk == k and not fp for (kk, fp) in self.eff.W.get(g.key, ()))
                    if written:
                        if name in RELEASE:
                            continue
                        self.writes[loc].append((f.key, b["id"], i, c, k))
                    else:
                        self.reads[loc] += 1

    # ---- transfer
    def cls_of(self, f, t, _seen=None):
        loc = self.loc_of(f, t)
        if loc is None:
            return {U}
        if loc.startswith("p:"):
            _seen = _seen if _seen is not None else set()
            if loc in _seen:
                return set()
            _seen.add(loc)
            k = int(loc[loc.rindex(":") + 1:])
            out = set()
            for (cf, c) in self.callsites.get(loc[2:loc.rindex(":")], ()):
                if k < len(c[3]):
                    out |= self.cls_of(cf, c[3][k], _seen)
            return out
        if loc.startswith("g:") and loc[2:] not in self.globals:
            return {U} if not self.writes.get(loc) else set(self.cls[loc]) or set()
        return set(self.cls[loc])

    def transfer(self, f, c, k, loc):
        name = callee(c)
        args = c[3]
        if name in IDENTITY:
            return None
        if name == "mpq_init":
            return {Z}
        if name in ("mpq_set", "mpq_neg", "mpq_abs") and len(args) > 1:
            return self.cls_of(f, args[1])
        if name in ("mpq_set_ui", "mpq_set_si") and len(args) > 1:
            z = _lit_zero(args[1])
            return {Z} if z else ({NZ} if z is False else {U})
        if name == self.prefix + "EGlpNumSet" and len(args) > 1:
            z = _lit_zero(args[1])
            return {Z} if z else ({NZ} if z is False else {U})
        if name == "mpq_mul" and len(args) > 2:
            a, b = self.cls_of(f, args[1]), self.cls_of(f, args[2])
            la, lb = self.loc_of(f, args[1]), self.loc_of(f, args[2])
            # x = x * e : decided by e alone when e is only-zero
            if (lb != loc and b == {Z}) or (la != loc and a == {Z}):
                return {Z}
            if la == loc and lb != loc:
                return None if not b else ({U} if b != {Z} else {Z})
            if lb == loc and la != loc:
                return None if not a else ({U} if a != {Z} else {Z})
            return {U}
        if name == "mpq_div" and len(args) > 2:
            a = self.cls_of(f, args[1])
            if self.loc_of(f, args[1]) == loc:
                return None
            return {Z} if a == {Z} else {U}
        if name in ("mpq_add", "mpq_sub") and len(args) > 2:
            a, b = self.cls_of(f, args[1]), self.cls_of(f, args[2])
            la, lb = self.loc_of(f, args[1]), self.loc_of(f, args[2])
            if la == loc and b == {Z}:
                return None
            if lb == loc and a == {Z}:
                return None
            return {Z} if a == {Z} and b == {Z} else {U}
        return {U}

    # ---- dead writes: followed on every path by another (non-identity) write of the same location
    def _dead(self, loc):
        per_fn = collections.defaultdict(list)
        for w in self.writes[loc]:
            if callee(w[3]) in IDENTITY:
                continue
            per_fn[w[0]].append(w)
        dead = set()
        for fkey, ws in per_fn.items():
            f = self.prog.funcs[fkey]
            blocks = collections.defaultdict(list)
            for w in ws:
                blocks[w[1]].append(w[2])
            succ = {bid: [x for x in self.prog.live_succs(f, bl) if x is not None] for bid, bl in f.blocks.items()}
            exits = {bid for bid, bl in f.blocks.items() if not succ[bid]}
            for w in ws:
                # a self-referential write (x = x op e) keeps the earlier value alive only when it is not absorbing; absorbing ones kill
                if any(j > w[2] for j in blocks[w[1]]):
                    dead.add(w[:3])
                    continue
                seen, st, escaped = set(), list(succ.get(w[1], ())), not succ.get(w[1])
                while st and not escaped:
                    x = st.pop()
                    if x in seen:
                        continue
                    seen.add(x)
                    if x in blocks and x != w[1]:
                        continue
                    if x == w[1]:
                        # back at its own block through a loop: the write itself is repeated
                        continue
                    if x in exits:
                        escaped = True
                        break
                    st.extend(succ.get(x, ()))
                if not escaped:
                    dead.add(w[:3])
        return dead

    def _solve(self):
        self.dead = {loc: self._dead(loc) for loc in self.writes}
        self.absorbing = {}
        for rnd in range(30):
            changed = False
            for loc, ws in self.writes.items():
                for w in ws:
                    if w[:3] in self.dead[loc]:
                        # a dead self-referential write still must not be the only thing making the survivor Z
                        continue
                    f = self.prog.funcs[w[0]]
                    t = self.transfer(f, w[3], w[4], loc)
                    if t is None:
                        continue
                    if not t <= self.cls[loc]:
                        self.cls[loc] |= t
                        changed = True
            if not changed:
                break
        self.rounds = rnd + 1

    # ---- explanation of a bad class
    def culprits(self, loc, depth=0, seen=None):
        seen = seen if seen is not None else set()
        if loc in seen or depth > 4:
            return []
        seen.add(loc)
        out = []
        for w in self.writes.get(loc, ()):
            if w[:3] in self.dead[loc]:
                continue
            f = self.prog.funcs[w[0]]
            t = self.transfer(f, w[3], w[4], loc)
            if t is None or t == {Z} or not t:
                continue
            out.append((f, w[3], t))
        return out


def deps_closure(an, roots):
    """locations whose class can flow into the roots"""
    seen, st = set(), list(roots)
    while st:
        loc = st.pop()
        if loc in seen:
            continue
        seen.add(loc)
        for w in an.writes.get(loc, ()):
            f = an.prog.funcs[w[0]]
            for a in w[3][3][1:]:
                l2 = an.loc_of(f, a)
                if l2 is None:
                    continue
                if l2.startswith("p:"):
                    fkey, k = l2[2:l2.rindex(":")], int(l2[l2.rindex(":") + 1:])
                    seen.add(l2)
                    for (cf, c) in an.callsites.get(fkey, ()):
                        if k < len(c[3]):
                            l3 = an.loc_of(cf, c[3][k])
                            if l3:
                                st.append(l3)
                else:
                    st.append(l2)
    return seen


_cache = {}


def analysis(prog, eff, prefix="mpq_"):
    c = prog.__dict__.setdefault("_zerotol", {})
    if prefix not in c:
        c[prefix] = Analysis(prog, eff, prefix)
    return c[prefix]


def run(prog, eff, scope="simplex", prefix="mpq_", rule="R-ZEROTOL"):
    an = analysis(prog, eff, prefix)
    if scope == "simplex":
        clause = ("every deciding tolerance of the rational simplex (the %d tolerance globals, the exact zero constant and the fields of the "
                  "per-lp tolerance record) is written only with values of class zero" % len(TOL_GLOBALS))
        locs = sorted({"g:" + g for g in an.globals} | {"f:" + x for x in an.tol_fields})
    else:
        clause = ("the two tolerances of the LU work record (fzero_tol, szero_tol) and everything that flows into them are written only "
                  "with values of class zero")
        roots = ["f:" + x for x in sorted(an.factor_fields)]
        locs = sorted(l for l in deps_closure(an, roots) if an.tracked(l))
    res = RuleResult(rule, clause)
    nwrites = 0
    for loc in locs:
        res.obligations += 1
        live = [w for w in an.writes.get(loc, ()) if w[:3] not in an.dead[loc] and callee(w[3]) not in IDENTITY]
        nwrites += len(an.writes.get(loc, ()))
        c = an.cls[loc]
        name = loc[2:]
        if not an.writes.get(loc):
            if an.reads.get(loc):
                raise AnalysisBroken("tolerance location %s is read but no write of it was found" % name)
            res.sample({"location": name, "verdict": "never written and never read as a GMP operand"}, limit=40)
            continue
        res.nontrivial += 1
        if c == {Z}:
            res.sample({"location": name, "class": "zero", "live_writes": len(live), "dead_writes": len(an.dead[loc]),
                        "reads_as_operand": an.reads.get(loc, 0),
                        "writers": sorted({an.prog.funcs[w[0]].name for w in live})[:6]}, limit=40)
            continue
        bad = an.culprits(loc)
        if not bad:
            res.violations.append(Violation(rule, "%s|class %s" % (name, "/".join(sorted(c)) or "empty"), "?", "?",
                                            "tolerance %s has value class %s instead of zero" % (name, sorted(c))))
        for (f, call, t) in bad:
            res.violations.append(Violation(rule, "%s|non-zero write by %s in %s" % (name, callee(call), f.name), f.name, short_loc(call[4]),
                                            "%s stores a value of class %s into the tolerance %s; the rational instantiation must compare at "
                                            "exactly zero" % (show(call), "/".join(sorted(t)), name)))
    res.counts["locations"] = len(locs)
    res.counts["writes_examined"] = nwrites
    res.counts["fixpoint_rounds"] = an.rounds
    if scope == "simplex":
        res.floor("tolerance globals with a write", sum(1 for g in an.globals if an.writes.get("g:" + g)), len(TOL_GLOBALS) + 1)
        res.floor("tolerance record fields", len(an.tol_fields), 6)
        res.floor("writes examined", nwrites, 60)
    else:
        res.floor("factor tolerance fields with a write", sum(1 for x in an.factor_fields if an.writes.get("f:" + x)), 2)
        res.floor("locations in the dependency closure", len(locs), 4)
    return res
