"""R-LPSTATE (C17, C07): the simplex state of a problem is read only while it belongs to the problem.

QSdata::lp (lpinfo) carries the state of the last simplex run on that problem object: basis header baz / nbaz, vstat / vindex,
the factorisation f, the status record basisstat, final_phase, the phase-I duals ...  It describes the current problem only
between a successful run of the problem's own simplex (opt_work sets p->factorok = 1) and the next edit or basis load (every
mutator resets p->factorok, R-FOK).  QSexact_solver certifies on copies and fills p->cache / p->qstatus without touching p->lp,
so neither p->cache != 0 nor the status says anything about p->lp.

The set of state fields is computed: the fields of lpinfo that are written only by the simplex machinery (no store in lib.c /
qsopt.c / exact.c / the readers).  For every public function of qsopt.c the rule finds the calls that hand p->lp to a library
function which reads such a field at a site that is not guarded by a test of another of its parameters (callee summaries,
transitive) and requires the call to be dominated by a successful test of p->factorok or by a call that (re)builds the state
(one whose transitive writes include the basis header).  A tableau row, the basis order or an infeasibility certificate
requested after QSexact_solver (or on a problem that was never solved) otherwise reads NULL / stale arrays of another
dimension."""
import collections

from ..core import walk, strip, is_var, callee, const_of, show, short_loc, dominators
from ..cond import atoms
from ..result import RuleResult, Violation

MACHINERY = ("simplex_", "basis_", "factor_", "fct_", "price_", "ratio_")
REC = "mpq_lpinfo::"


def _lp_fields(t, skip=None):
    for nd in walk(t):
        if nd is skip:
            continue
        if isinstance(nd, list) and nd and nd[0] == "m" and nd[2].startswith(REC):
            yield nd


def _element_reads(t):
    """member nodes of lpinfo whose block is looked into: lp->F[i], *lp->F, lp->F->x, lp->F.x[i] (a read of the pointer alone - a NULL test, a
    release - is valid in every state)"""
    out = []
    for nd in walk(t):
        if not isinstance(nd, list) or not nd:
            continue
        inner = None
        if nd[0] == "i":
            inner = nd[1]
        elif nd[0] == "u" and nd[1] == "*":
            inner = nd[2]
        elif nd[0] == "m" and len(nd) > 3 and nd[3] == 1:
            inner = nd[1]
        elif nd[0] == "m" and len(nd) > 3 and nd[3] == 0 and isinstance(nd[2], str) and nd[2].split("::")[0].endswith("lp_status_info"):
            inner = nd[1]                     # lp->basisstat.optimal: a flag of the embedded status record, plain memory until a run sets it
        if inner is None:
            continue
        x = strip(inner)
        while isinstance(x, list) and x and x[0] == "m":
            if x[2].startswith(REC):
                out.append(x)
                break
            x = strip(x[1])
    return out


def _leaves_at_once(f, succ, bid):
    """the block chain starting at bid reaches the function exit within a few blocks without branching (error message + return)"""
    for _ in range(6):
        if bid == f.exit:
            return True
        b = f.blocks[bid]
        if any(e[0] == "R" for e in b["e"]):
            return True
        ss = succ.get(bid, ())
        if len(ss) != 1:
            return False
        bid = list(ss)[0]
    return False


def run(prog, rule="R-LPSTATE", floor=6):
    res = RuleResult(rule, "every public function that hands p->lp to a function reading simplex-state fields of lpinfo does so only under a "
                           "successful test of p->factorok or after a call that rebuilds that state")
    funcs = [f for f in prog.funcs.values() if f.live is not None and "_dbl." not in f.unit and "_mpf." not in f.unit and f.unit.startswith("qsopt_ex/")]
    # 1. state fields: written by the machinery, never stored by the API / library layer
    wr_by = collections.defaultdict(set)
    for f in funcs:
        unit = f.unit.split("/")[-1]
        for b, i, e in f.elements(live_only=False):
            if e[0] == "A":
                l = strip(e[1][2])               # lp->baz = ..., lp->basisstat.optimal = ...: a member chain (no subscript, no dereference)
                while isinstance(l, list) and l and l[0] == "m":
                    if l[2].startswith(REC):
                        wr_by[l[2][len(REC):]].add(unit)
                        break
                    l = strip(l[1])
    state = {fl for fl, us in wr_by.items() if all(u.startswith(MACHINERY) for u in us)}
    # ... minus what problem creation itself sets to a live value (lp->O = the problem data): that belongs to the object, not to a run
    create = prog.funcs.get("mpq_QScreate_prob")
    if create is not None:
        for k in prog.reachable([create.key]):
            g = prog.funcs.get(k)
            if g is None or g.live is None:
                continue
            for b, i, e in g.elements(live_only=False):
                if e[0] == "A" and e[1][1] == "=":
                    l = strip(e[1][2])
                    if isinstance(l, list) and l and l[0] == "m" and l[2].startswith(REC) and const_of(e[1][3]) is None:
                        state.discard(l[2][len(REC):])
    res.counts["state_field_names"] = sorted(state)
    res.counts["state_fields"] = len(state)
    if "baz" not in state or "f" not in state:
        res.floor("state fields include the basis header and the factorisation", 0, 1)
        return res
    # 2. per function: state fields read at sites not guarded by a test of a non-lp parameter; transitive writes of the header
    READS = collections.defaultdict(dict)       # fkey -> {field: (loc, text)}
    WRITES = collections.defaultdict(set)
    GUARD = {}
    # transitive writes first: a function that rebuilds the basis header may still read the old state before it does so (strong branching
    # reads vstat through ILLlib_getbasis before it re-optimises), so reads are collected per site and only those not dominated by a
    # rebuilding call count
    for f in funcs:
        for b, i, e in f.elements():
            if e[0] == "A" and e[1][1] == "=":
                l = strip(e[1][2])
                if isinstance(l, list) and l and l[0] == "m" and l[2].startswith(REC):
                    WRITES[f.key].add(l[2][len(REC):])
    ch = True
    while ch:
        ch = False
        for f in funcs:
            for b, i, c in f.calls():
                g = prog.resolve(f, c[1]) if c[1] else None
                if g is not None and g.blocks and WRITES[g.key] - WRITES[f.key]:
                    WRITES[f.key] |= WRITES[g.key]
                    ch = True
    REBUILT = {}
    for f in funcs:
        dom, succ = dominators(prog, f)
        preds = collections.defaultdict(set)
        for a, ss in succ.items():
            for s in ss:
                preds[s].add(a)
        lp_params = {p[0] for p in f.params if "lpinfo" in p[1]}
        other_params = {p[0] for p in f.params} - lp_params
        # blocks guarded by a condition over another parameter
        guarded = set()
        for bid in f.live:
            b = f.blocks[bid]
            c = b.get("c")
            if c is None:
                continue
            if not any(nd[0] == "v" and isinstance(nd[1], str) and nd[1].startswith("p") and nd[2] in other_params
                       for nd in walk(c) if isinstance(nd, list) and len(nd) > 2):
                continue
            ss2 = list(succ.get(bid, ()))
            for s in ss2:
                if preds[s] != {bid}:
                    continue
                # a mode switch, not a precondition check: the other branch does not simply leave the function
                others = [o for o in ss2 if o != s]
                if others and all(_leaves_at_once(f, succ, o) for o in others):
                    continue
                guarded.add(s)
        rebuilders = [(b2["id"], i2) for b2, i2, c2 in f.calls()
                      if (lambda g2: g2 is not None and g2.blocks and "baz" in WRITES[g2.key])(prog.resolve(f, c2[1]) if c2[1] else None)]
        def rebuilt(bid, idx, dom=dom, rebuilders=rebuilders):
            return any((rb in dom.get(bid, ()) and rb != bid) or (rb == bid and ri < idx) for (rb, ri) in rebuilders)
        REBUILT[f.key] = rebuilt
        def is_guarded(bid):
            return any(g == bid or g in dom.get(bid, ()) for g in guarded)
        # blocks that run only where a state pointer was found non-NULL (`if (lp->f) { ... lp->f->x ... }`: releasing code, valid in every state)
        nn = collections.defaultdict(set)
        for bid in f.live:
            c = f.blocks[bid].get("c")
            if c is None:
                continue
            ss2 = prog.live_succs(f, f.blocks[bid])
            if len(ss2) != 2:
                continue
            for idx, s_ in enumerate(ss2):
                if s_ is None or preds[s_] != {bid}:
                    continue
                for l, op, r in atoms(c, idx == 0):
                    for a_, b_, o in ((l, r, op), (r, l, op)):
                        a0 = strip(a_)
                        if isinstance(a0, list) and a0 and a0[0] == "m" and a0[2].startswith(REC) and const_of(b_) == 0 and o == "!=":
                            nn[a0[2][len(REC):]].add(s_)
        def nonnull(fl, bid, dom=dom, nn=nn):
            return any(g == bid or g in dom.get(bid, ()) for g in nn.get(fl, ()))
        for b, i, e in f.elements():
            trees = [x[1] for x in e[1] if x[1] is not None] if e[0] == "D" else ([e[1]] if e[1] is not None else [])
            lhs = strip(e[1][2]) if e[0] == "A" and e[1][1] == "=" else None
            for t in trees:
                deref = {id(x) for x in _element_reads(t)}
                for nd in _lp_fields(t):
                    fl = nd[2][len(REC):]
                    if nd is lhs:
                        WRITES[f.key].add(fl)
                    elif fl in state and id(nd) in deref and not is_guarded(b["id"]) and not rebuilt(b["id"], i) and not nonnull(fl, b["id"]):
                        READS[f.key].setdefault(fl, (e[2] if len(e) > 2 else "", "%s in %s" % (show(nd), f.name)))
        for bid in f.live:
            c = f.blocks[bid].get("c")
            if c is not None and not is_guarded(bid) and not rebuilt(bid, 1 << 30):
                deref = {id(x) for x in _element_reads(c)}
                for nd in _lp_fields(c):
                    fl = nd[2][len(REC):]
                    if fl in state and id(nd) in deref and not nonnull(fl, bid):
                        READS[f.key].setdefault(fl, (f.blocks[bid].get("tloc", ""), "%s in a condition of %s" % (show(nd), f.name)))
        GUARD[f.key] = is_guarded
    changed, rounds = True, 0
    while changed and rounds < 12:
        changed = False
        rounds += 1
        for f in funcs:
            for b, i, c in f.calls():
                g = prog.resolve(f, c[1]) if c[1] else None
                if g is None or not g.blocks:
                    continue
                add = WRITES[g.key] - WRITES[f.key]
                if add:
                    WRITES[f.key] |= add
                    changed = True
                if not GUARD[f.key](b["id"]) and not REBUILT[f.key](b["id"], i):
                    for fl, v in READS[g.key].items():
                        if fl not in READS[f.key]:
                            READS[f.key][fl] = v
                            changed = True
    # 3. API call sites
    nsite = 0
    for f in sorted(funcs, key=lambda x: x.key):
        if not f.unit.endswith("qsopt_mpq.c") or f.static:
            continue
        dom, succ = dominators(prog, f)
        preds = collections.defaultdict(set)
        for a, ss in succ.items():
            for s in ss:
                preds[s].add(a)
        fok = set()
        for bid in f.live:
            c = f.blocks[bid].get("c")
            if c is None:
                continue
            ss = prog.live_succs(f, f.blocks[bid])
            if len(ss) != 2:
                continue
            for idx, s in enumerate(ss):
                if s is None or preds[s] != {bid}:
                    continue
                for l, op, r in atoms(c, idx == 0):
                    if isinstance(l, list) and l and l[0] == "m" and l[2].endswith("qsdata::factorok") and \
                            ((op == "!=" and const_of(r) == 0) or (op == "==" and const_of(r) == 1)):
                        fok.add(s)
        builders = set()
        for b, i, c in f.calls():
            g = prog.resolve(f, c[1]) if c[1] else None
            if g is not None and "baz" in WRITES[g.key]:
                builders.add(b["id"])
        for b, i, c in f.calls():
            g = prog.resolve(f, c[1]) if c[1] else None
            if g is None or not g.blocks:
                continue
            if not any(show(a) in ("p->lp",) for a in c[3]):
                continue
            need = READS[g.key]
            if not need:
                continue
            nsite += 1
            res.obligations += 1
            res.nontrivial += 1
            bid = b["id"]
            ok = None
            if any(s == bid or s in dom.get(bid, ()) for s in fok):
                ok = "dominated by a successful test of p->factorok"
            elif any((s in dom.get(bid, ()) and s != bid) for s in builders):
                ok = "a call that rebuilds the simplex state dominates it"
            if ok:
                res.sample({"site": "%s %s: %s" % (short_loc(c[4]), f.name, show(c)[:70]), "verdict": ok}, limit=12)
                continue
            fl, (loc, text) = sorted(need.items())[0]
            res.violations.append(Violation(rule, "%s|%s reads lp->%s without p->factorok" % (f.name.replace("mpq_", ""), g.name.replace("mpq_", ""), fl), f.name, short_loc(c[4]),
                                            "%s hands p->lp to %s, which reads the simplex state (%s at %s; %d state field(s) in all) - but the call is neither "
                                            "dominated by a test of p->factorok nor preceded by a call that rebuilds that state: after QSexact_solver, an edit or on a "
                                            "problem that was never solved, p->lp holds no or another problem's state" % (
                                                show(c)[:80], g.name, text, short_loc(loc), len(need))))
    res.counts["api_call_sites_reading_simplex_state"] = nsite
    res.floor("API call sites handing p->lp to a reader of the simplex state", nsite, floor)
    return res


def _rejects(f, succ, bid):
    """the branch stores a non-zero constant into the error code / returns one within its first blocks"""
    for _ in range(4):
        for e in f.blocks[bid]["e"]:
            if e[0] == "A" and e[1][1] == "=" and is_var(e[1][2], kind="l") and "rval" in strip(e[1][2])[2] and const_of(e[1][3]) not in (None, 0):
                return True
            if e[0] == "R" and e[1] is not None and const_of(e[1]) not in (None, 0):
                return True
        ss = succ.get(bid, ())
        if len(ss) != 1:
            return False
        bid = list(ss)[0]
    return False


def run_internal(prog, rule="R-FOKCALL"):
    """clause B: the library does not call one of its own factorok-guarded functions in a state in which the guard must fail.
    GUARDED = functions with a rejecting test of qsdata::factorok; RESET = functions whose transitive effects store factorok = 0 and
    never a non-zero value; SET = functions that may store a non-zero value.  Path-sensitive typestate per function (outside qsopt.c's
    own wrappers): after a RESET call the state is 'zero', after a SET call 'unknown'; a call of a GUARDED function in state 'zero'
    can only fail (QSexact_solver's exact re-test called QSget_infeas_array right after QSexact_basis_status had loaded a basis)."""
    from ..core import Flow
    res = RuleResult(rule, "no library function calls a factorok-guarded public function on a path on which factorok was last reset and not set again")
    funcs = [f for f in prog.funcs.values() if f.live is not None and "_dbl." not in f.unit and "_mpf." not in f.unit
             and (f.unit.startswith("qsopt_ex/") or f.unit.startswith("esolver/"))]
    guarded, w0, w1 = set(), set(), set()
    for f in funcs:
        dom, succ = dominators(prog, f)
        for bid in f.live:
            c = f.blocks[bid].get("c")
            if c is None:
                continue
            ss = prog.live_succs(f, f.blocks[bid])
            if len(ss) != 2:
                continue
            for idx, s in enumerate(ss):
                if s is None:
                    continue
                for l, op, r in atoms(c, idx == 0):
                    if isinstance(l, list) and l and l[0] == "m" and l[2].endswith("qsdata::factorok") and op == "==" and const_of(r) == 0:
                        if _rejects(f, succ, s):
                            guarded.add(f.key)
        for b, i, e in f.elements():
            if e[0] == "A" and e[1][1] == "=":
                l = strip(e[1][2])
                if isinstance(l, list) and l and l[0] == "m" and l[2].endswith("qsdata::factorok"):
                    (w0 if const_of(e[1][3]) == 0 else w1).add(f.key)
    W0, W1 = set(w0), set(w1)
    changed = True
    while changed:
        changed = False
        for f in funcs:
            for b, i, c in f.calls():
                g = prog.resolve(f, c[1]) if c[1] else None
                if g is None:
                    continue
                if g.key in W0 and f.key not in W0:
                    W0.add(f.key)
                    changed = True
                if g.key in W1 and f.key not in W1:
                    W1.add(f.key)
                    changed = True
    RESET = W0 - W1
    res.counts["guarded_functions"] = sorted(prog.funcs[k].name for k in guarded)
    res.counts["resetting_functions"] = len(RESET)
    ncalls = 0
    for f in sorted(funcs, key=lambda x: x.key):
        sites = [(b["id"], i, c) for b, i, c in f.calls() if (prog.resolve(f, c[1]) if c[1] else None) is not None and prog.resolve(f, c[1]).key in guarded]
        if not sites:
            continue
        ncalls += len(sites)
        bad = {}

        def xfer(b, i, e, st):
            if e[0] != "C":
                return None
            g = prog.resolve(f, e[1][1]) if e[1][1] else None
            if g is None:
                return None
            if g.key in guarded and st[0] == "zero":
                bad.setdefault(e[1][4], (g.name, st[1], b["id"], st))
            if g.key in RESET:
                return [("zero", g.name)]
            if g.key in W1:
                return [("unknown", "")]
            return None
        flw = Flow(prog, f, [("unknown", "")], xfer).run()
        for b0, i0, c in sites:
            res.obligations += 1
            res.nontrivial += 1
        for loc, (gname, by, bid, st) in sorted(bad.items()):
            res.violations.append(Violation(rule, "%s|%s called after %s reset factorok" % (f.name, gname.replace("mpq_", ""), by.replace("mpq_", "")), f.name, short_loc(loc),
                                            "%s requires p->factorok, but on this path %s (which resets factorok and never sets it) was the last call that touched it: "
                                            "the call can only be rejected" % (gname, by), path=flw.witness(bid, st)))
    res.counts["internal_calls_of_guarded_functions"] = ncalls
    res.floor("functions with a rejecting factorok test", len(guarded), 5)
    return res
