"""R-INTDIV (C17): no integer division by a value the host controls without a test.

Integer `/` and `%` trap (SIGFPE) on a zero divisor - undefined behaviour that kills the host process.  The fields of the library's
records that a public function fills straight from one of its int parameters are *host controlled* (lpinfo::iterskip from
QSset_reporter's `skip` on the pinned tree); every integer division whose divisor depends on such a field - directly or through a
local computed from it - must be dominated by a comparison of that field / local, or take its divisor from a conditional expression
that tests it (a clamp).  The host-controlled set is computed from the public API, not listed."""
import collections

from ..core import walk, strip, is_var, callee, const_of, apath, fields_of, show, short_loc
from ..result import RuleResult, Violation
from .div import guarded

INT_WORDS = ("int", "long", "short", "unsigned", "size_t", "char")


def _is_int_type(ty):
    ty = (ty or "").replace("const ", "")
    return any(w in ty for w in INT_WORDS) and "*" not in ty and "[" not in ty and "double" not in ty


def host_controlled(prog):
    hc = {}
    pub = prog.public_functions()
    for f in prog.funcs.values():
        if f.name not in pub or f.static or f.live is None or "_dbl." in f.unit or "_mpf." in f.unit:
            continue
        for b, i, e in f.elements():
            if e[0] == "A" and e[1][1] == "=":
                lhs = strip(e[1][2])
                rhs = strip(e[1][3])
                if isinstance(lhs, list) and lhs and lhs[0] == "m" and is_var(rhs, kind="p"):
                    k = int(rhs[1][1:])
                    if k < len(f.params) and _is_int_type(f.params[k][1]):
                        hc.setdefault(lhs[2], (f.name, f.params[k][0], e[2]))
    return hc


def run(prog, rule="R-INTDIV"):
    res = RuleResult(rule, "an integer division whose divisor depends on a record field that a public function fills from an int parameter is "
                           "dominated by a comparison of that value or clamps it in a conditional expression")
    hc = host_controlled(prog)
    res.counts["host_controlled_int_fields"] = sorted(x.split("::")[1] for x in hc)[:40]
    n = 0
    for f in sorted(prog.funcs.values(), key=lambda x: x.key):
        if "_dbl." in f.unit or "_mpf." in f.unit or f.live is None:
            continue
        # locals derived from a host-controlled field (one level)
        derived = {}
        clamped = set()
        for b, i, e in f.elements():
            pairs = []
            if e[0] == "A" and e[1][1] == "=" and is_var(e[1][2], kind="l"):
                pairs.append((strip(e[1][2])[2], e[1][3]))
            elif e[0] == "D":
                pairs += [(n2, init) for n2, init in e[1] if init is not None]
            for n2, rhs in pairs:
                flds = [nd[2] for nd in walk(rhs) if nd[0] == "m" and nd[2] in hc]
                srcs = [strip(nd)[2] for nd in walk(rhs) if is_var(nd, kind="l") and strip(nd)[2] in derived]
                if flds or srcs:
                    derived[n2] = flds[0] if flds else derived[srcs[0]]
                    r0 = strip(rhs)
                    if isinstance(r0, list) and r0 and r0[0] == "q" and (any(nd[0] == "m" and nd[2] in hc for nd in walk(r0[1]))
                                                                         or any(is_var(nd, kind="l") and strip(nd)[2] in derived for nd in walk(r0[1]))):
                        clamped.add(n2)

        def scan(t, loc, bid):
            nonlocal n
            for nd in walk(t):
                if not (nd[0] == "b" and nd[1] in ("/", "%")) or const_of(nd[3]) is not None:
                    continue
                d = nd[3]
                flds = [x[2] for x in walk(d) if x[0] == "m" and x[2] in hc]
                locs = [strip(x)[2] for x in walk(d) if is_var(x, kind="l") and strip(x)[2] in derived]
                if not flds and not locs:
                    continue
                if any(x[0] == "k" and "double" in str(x[1]) for x in walk(d)):
                    continue                      # floating-point division: no trap
                n += 1
                res.obligations += 1
                res.nontrivial += 1
                src = flds[0] if flds else derived[locs[0]]
                who = hc[src]
                if locs and all(l in clamped for l in locs) and not flds:
                    res.sample({"site": "%s %s: %s" % (short_loc(loc), f.name, show(nd)[:60]), "verdict": "divisor clamped by a conditional expression"}, limit=6)
                    continue
                txts = [show(x) for x in walk(d) if x[0] == "m" and x[2] in hc] + locs
                ok = False
                for tx in txts:
                    g, where = guarded(prog, f, bid, tx)
                    if g:
                        ok = True
                        break
                if ok:
                    res.sample({"site": "%s %s: %s" % (short_loc(loc), f.name, show(nd)[:60]), "verdict": "dominated by a test of the divisor"}, limit=6)
                    continue
                key = "%s|division by host-controlled %s" % (f.name.replace("mpq_", ""), src.split("::")[1])
                if any(v.key == key for v in res.violations):
                    continue
                res.violations.append(Violation(rule, key, f.name, short_loc(loc),
                                                "%s divides by a value that depends on %s, which %s fills from its parameter '%s' without any validation, and no "
                                                "comparison of it dominates the division: a host value that makes the divisor zero kills the process with SIGFPE" % (
                                                    show(nd)[:70], src, who[0], who[1])))
        for b, i, e in f.elements():
            if e[0] in ("A", "C", "R", "U") and e[1] is not None:
                scan(e[1], e[2] if len(e) > 2 else f.loc, b["id"])
            elif e[0] == "D":
                for nm, init in e[1]:
                    if init is not None:
                        scan(init, e[2], b["id"])
        for bid in f.live:
            b = f.blocks[bid]
            if b.get("c") is not None:
                scan(b["c"], b.get("tloc") or f.loc, bid)
    res.counts["divisions_by_host_controlled_values"] = n
    res.floor("host-controlled int fields", len(hc), 5)
    return res


def run_quotient(prog, rule="R-QUOTDIV", floor=1):
    """a quotient is not a safe divisor.  A record field that some function fills with an integer quotient (`ngroups = nelems / k`) is zero
    whenever the dividend is smaller than the divisor - a problem without structural columns has no pricing group.  Every integer `/` or
    `%` whose divisor is such a field must be dominated by a comparison of the field (or lie in a function whose caller tests it: not
    followed - the test belongs next to the division).  Fields are found from their assignments, not listed."""
    res = RuleResult(rule, "an integer division or remainder by a record field that is computed as an integer quotient is dominated by a comparison of that field")
    quot = {}
    for f in prog.funcs.values():
        if "_dbl." in f.unit or "_mpf." in f.unit or f.live is None or not f.unit.startswith("qsopt_ex/"):
            continue
        for b, i, e in f.elements():
            if e[0] == "A" and e[1][1] == "=":
                lhs = strip(e[1][2])
                rhs = strip(e[1][3])
                if isinstance(lhs, list) and lhs and lhs[0] == "m" and isinstance(rhs, list) and rhs and rhs[0] == "b" and rhs[1] == "/" \
                        and not any(x[0] == "k" and "double" in str(x[1]) for x in walk(rhs)):
                    rec, fld = lhs[2].split("::")
                    r = prog.records.get(rec)
                    ty = [x[1] for x in (r or {}).get("fields", ()) if x[0] == fld]
                    if ty and _is_int_type(ty[0]):
                        quot.setdefault(lhs[2], (f.name, show(rhs)[:40], e[2]))
    res.counts["quotient_fields"] = sorted(x.split("::")[1] for x in quot)
    n = 0
    for f in sorted(prog.funcs.values(), key=lambda x: x.key):
        if "_dbl." in f.unit or "_mpf." in f.unit or f.live is None or not f.unit.startswith("qsopt_ex/"):
            continue

        def scan(t, loc, bid):
            nonlocal n
            for nd in walk(t):
                if not (nd[0] == "b" and nd[1] in ("/", "%")) or const_of(nd[3]) is not None:
                    continue
                flds = [x for x in walk(nd[3]) if x[0] == "m" and x[2] in quot]
                if not flds:
                    continue
                n += 1
                res.obligations += 1
                res.nontrivial += 1
                ok = False
                for x in flds:
                    g, where = guarded(prog, f, bid, show(x))
                    if g:
                        ok = True
                if ok:
                    res.sample({"site": "%s %s: %s" % (short_loc(loc), f.name, show(nd)[:60]), "verdict": "dominated by a test of the divisor"}, limit=6)
                    continue
                src = flds[0][2]
                key = "%s|division by the quotient field %s" % (f.name.replace("mpq_", ""), src.split("::")[1])
                if any(v.key == key for v in res.violations):
                    continue
                who = quot[src]
                res.violations.append(Violation(rule, key, f.name, short_loc(loc),
                                                "%s: the divisor %s is computed as the integer quotient %s in %s and is zero when the dividend is the smaller number; "
                                                "no comparison of it dominates the division (SIGFPE)" % (show(nd)[:60], src, who[1], who[0])))
        for b, i, e in f.elements():
            if e[0] in ("A", "C", "R", "U") and e[1] is not None:
                scan(e[1], e[2] if len(e) > 2 else f.loc, b["id"])
            elif e[0] == "D":
                for nm, init in e[1]:
                    if init is not None:
                        scan(init, e[2], b["id"])
        for bid in f.live:
            b = f.blocks[bid]
            if b.get("c") is not None:
                scan(b["c"], b.get("tloc") or f.loc, bid)
    res.counts["divisions_by_quotient_fields"] = n
    res.floor("integer divisions by a field that is computed as a quotient", n, floor)
    return res
