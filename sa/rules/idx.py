"""R-IDX (C07, C17): every externally supplied row/column index is range-checked against the right
dimension, with the right strictness, before it subscripts a problem array; a rejected index makes the
function return non-zero.

Path-sensitive must-analysis per function (facts travel only along the edge on which a comparison
established them), with callee preconditions propagated to the callers up to the API boundary."""
import collections

from ..core import (dominators, strip, is_var, callee, const_of, apath, fields_of, show, short_loc, Flow, AnalysisBroken, walk)
from ..cond import atoms, SWAP
from ..intstate import Z, NZ, norm_local
from ..result import RuleResult, Violation
from .inval import api_functions, base

# dimension classes of problem arrays (record::field suffix -> class)
ROW, STRUCT, COL = "row", "struct", "col"
NNB = "non-basic position"      # position in lpinfo::nbaz: only R-IDXCLASS types with it
ARRAYS = {
    "ILLlpdata::rhs": ROW, "ILLlpdata::sense": ROW, "ILLlpdata::rangeval": ROW, "ILLlpdata::rowmap": ROW, "ILLlpdata::rownames": ROW,
    "ILLlp_cache::pi": ROW, "ILLlp_cache::slack": ROW, "ILLlp_basis::rstat": ROW, "QSbasis::rstat": ROW, "qsbasis::rstat": ROW,
    "ILLlpdata::structmap": STRUCT, "ILLlpdata::colnames": STRUCT, "ILLlpdata::intmarker": STRUCT, "ILLlpdata::is_sos_mem": STRUCT,
    "ILLlp_cache::x": STRUCT, "ILLlp_cache::rc": STRUCT, "ILLlp_basis::cstat": STRUCT, "QSbasis::cstat": STRUCT, "qsbasis::cstat": STRUCT,
    "ILLlpdata::obj": COL, "ILLlpdata::lower": COL, "ILLlpdata::upper": COL, "ILLmatrix::matcnt": COL, "ILLmatrix::matbeg": COL,
    "lpinfo::baz": ROW, "lpinfo::vstat": COL, "lpinfo::vtype": COL, "lpinfo::vindex": COL, "lpinfo::cz": COL, "lpinfo::lz": COL, "lpinfo::uz": COL,
}
DIMS = {
    "ILLlpdata::nrows": ROW, "ILLmatrix::matrows": ROW, "lpinfo::nrows": ROW, "ILLlp_cache::nrows": ROW, "QSbasis::nrows": ROW, "qsbasis::nrows": ROW, "ILLlp_basis::nrows": ROW,
    "ILLlpdata::nstruct": STRUCT, "ILLlp_cache::nstruct": STRUCT, "QSbasis::nstruct": STRUCT, "qsbasis::nstruct": STRUCT, "ILLlp_basis::nstruct": STRUCT,
    "ILLlpdata::ncols": COL, "ILLmatrix::matcols": COL, "lpinfo::ncols": COL,
}
NNB_DIMS = {"lpinfo::nnbasic": NNB}
# a bound of class a implies the bound of class b (nstruct <= ncols)
IMPLIES = {ROW: {ROW}, STRUCT: {STRUCT, COL}, COL: {COL}}


def _suffix_lookup(table, fld):
    rec, f = fld.split("::")
    for pre in ("mpq_", "dbl_", "mpf_"):
        if rec.startswith(pre):
            rec = rec[len(pre):]
    return table.get(rec + "::" + f)


def array_class(t):
    """dimension class of the array expression t (base of a subscript)"""
    p = apath(t)
    fl = fields_of(p[2])
    if not fl:
        return None, None
    c = _suffix_lookup(ARRAYS, fl[-1])
    return c, fl[-1].split("::")[1]


def dim_class(t):
    t = strip(t)
    if isinstance(t, list) and t and t[0] == "m":
        return _suffix_lookup(DIMS, t[2])
    return None


def key_of(t):
    """key of an index expression: ('v', name) for a variable, ('el', array name, index var) for arr[i]"""
    t = strip(t)
    if is_var(t) and (t[1] == "l" or t[1].startswith("p")):
        return ("v", t[2])
    if isinstance(t, list) and t and t[0] == "i":
        a, i = strip(t[1]), strip(t[2])
        if is_var(a) and (a[1] == "l" or a[1].startswith("p")):
            if is_var(i):
                return ("el", a[2], i[2])
            if const_of(i) is not None:
                return ("el", a[2], "#%d" % const_of(i))
            return ("el", a[2], "?")            # list[computed position]: only list-wide facts apply to it
    return None


def _shape(idx):
    """shape of a position expression inside an external list: the arrays it is computed from (list[i] -> (), list[beg[i] + j] -> ('beg',),
    list + beg[i] -> ('beg',)).  A validation pass covers the uses that walk the list in the same shape."""
    if idx is None:
        return ()
    out = set()
    for nd in walk(idx):
        if isinstance(nd, list) and nd and nd[0] == "i":
            b0 = strip(nd[1])
            if is_var(b0):
                out.add(b0[2])
    return tuple(sorted(out))


class IdxAnalysis:
    """facts (frozenset) per path:
       ('ext', key)            key holds an externally supplied value
       ('ge0', key) ('lt', key, cls)
       ('arr', name)           name is an external index array;  ('allge0', name) ('alllt', name, cls)
       ('dim', var, cls)       local var holds a dimension
       ('zero', var)  ('pos', var) ('nonpos', var)   loop-emptiness correlation
       ('rej',)                an external index was found out of range on this path
    plus rv/tmp classes for the 'rejected index => non-zero return' clause"""

    RD = {}
    LOOKUP = {}     # fkey -> {param index: class | "tab"}: out-parameters that receive the index stored with a name in a symbol table

    def __init__(self, prog, f, ext_scalars, ext_arrays, pre_facts, summaries, is_api, get_summary=None):
        self.succ_sets = []
        self.get_summary = get_summary
        self.prog, self.f = prog, f
        self.summaries = summaries
        self.is_api = is_api
        init = set()
        for n in ext_scalars:
            init.add(("ext", ("v", n)))
        for n in ext_arrays:
            init.add(("arr", n))
        init |= set(pre_facts)
        self.init = (Z, Z, frozenset(init))
        self.uses = {}          # (loc, array field, index text) -> dict(missing -> example state)
        self.unmet_calls = {}   # (loc, callee, param) -> missing facts
        self.rej_ok = {}        # return loc -> accepted rejected index
        self.loop_validations = self._loop_validations()
        self.alias = self._aliases()

    EST = {}       # fkey -> {param index: (ge0, frozenset of classes)}: array-wide facts a callee has established on every success return

    def _pending_from_call(self, fs, facts, varname, rhs):
        """`rval = g (.., list, ..)` with g validating the whole list on success: the facts are pending on rval == 0"""
        r = strip(rhs)
        if not (isinstance(r, list) and r and r[0] == "c" and r[1]):
            return fs
        g = self.prog.resolve(self.f, r[1])
        est = self.EST.get(g.key) if g is not None else None
        if not est:
            return fs
        for pk, (ge0, lts) in est.items():
            if pk >= len(r[3]):
                continue
            a_s = strip(r[3][pk])
            if not (is_var(a_s) and ("arr", a_s[2]) in facts):
                continue
            if ge0:
                fs.add(("pend", varname, "allge0", a_s[2], None))
            for cls in lts:
                fs.add(("pend", varname, "alllt", a_s[2], cls))
        return fs

    def _aliases(self):
        """local pointer variable -> (class, field) when every assignment to it is the same problem array"""
        cand = collections.defaultdict(set)
        for b, i, e in self.f.elements():
            pairs = []
            if e[0] == "A" and e[1][1] == "=" and is_var(e[1][2], kind="l"):
                pairs.append((strip(e[1][2])[2], e[1][3]))
            elif e[0] == "D":
                pairs += [(n, init) for n, init in e[1] if init is not None]
            for n, rhs in pairs:
                ty = self.f.ltypes.get(n, "")
                if "*" not in ty:
                    continue
                if const_of(rhs) == 0:
                    continue
                c, fld = array_class(rhs)
                if c is None:
                    c, fld = self._alloc_class(rhs), n + "[] (local array)"
                cand[n].add((c, fld))
        return {n: list(v)[0] for n, v in cand.items() if len(v) == 1 and list(v)[0][0] is not None}

    ALLOCS = ("ILLutil_allocrus", "malloc", "calloc", "EGsMalloc", "EGmalloc")

    def _alloc_class(self, rhs):
        """dimension class of a scratch array: the value is the result of an allocator whose size expression names exactly one
        dimension of the problem (imap = malloc (nstruct * sizeof (int)))"""
        for n in walk(rhs):
            if isinstance(n, list) and n and n[0] == "c" and (callee(n) or "") in self.ALLOCS:
                dims = set()
                for a in n[3]:
                    for m in walk(a):
                        c = dim_class(m) if isinstance(m, list) and m and m[0] == "m" else None
                        if c:
                            dims.add(c)
                        if isinstance(m, list) and m and m[0] == "b" and m[1] in ("+", "-"):
                            return None          # nrows + num: not a plain dimension
                if len(dims) == 1:
                    return list(dims)[0]
        return None

    def arr_class(self, t):
        c, fld = array_class(t)
        if c is None:
            t = strip(t)
            if is_var(t, kind="l") and t[2] in self.alias:
                return self.alias[t[2]]
        return c, fld

    def _loop_validations(self):
        """loop header block id -> list of (array name, index var, cond tree) for comparisons of arr[i] found in the loop
        body: on the zero-iteration exit the corresponding array-wide facts hold vacuously"""
        f = self.f
        succ = {bid: [x for x in self.prog.live_succs(f, b) if x is not None] for bid, b in f.blocks.items()}
        out = {}
        for bid, b in f.blocks.items():
            if b.get("t") not in ("ForStmt", "WhileStmt") or "c" not in b:
                continue
            ss = self.prog.live_succs(f, b)
            if len(ss) != 2 or ss[0] is None:
                continue
            # body = blocks reachable from the true successor without passing the header, from which the header is reachable
            body = set()
            st = [ss[0]]
            while st:
                x = st.pop()
                if x in body or x == bid:
                    continue
                body.add(x)
                st.extend(succ.get(x, ()))
            conds = []
            copies = {}
            for x in body:
                bx = f.blocks[x]
                if "c" in bx and bx.get("t") != "SwitchStmt":
                    conds.append(bx["c"])
                for e in bx["e"]:
                    # v = list[...] inside the body: a later test of v is a test of the list's element
                    if e[0] == "A" and e[1][1] == "=" and is_var(e[1][2], kind="l"):
                        r = strip(e[1][3])
                        if isinstance(r, list) and r and r[0] == "i" and is_var(r[1]):
                            copies[strip(e[1][2])[2]] = (strip(r[1])[2], _shape(r[2]))
            if conds:
                out[bid] = conds
                self._loop_copies = getattr(self, "_loop_copies", {})
                self._loop_copies[bid] = copies
        return out

    # ---- helpers on fact sets
    @staticmethod
    def kill_var(facts, name):
        out = set()
        for ft in facts:
            if ft[0] in ("ext", "ge0", "lt") and (ft[1] == ("v", name) or (ft[1][0] == "el" and (ft[1][2] == name or ft[1][1] == name))):
                continue
            if ft[0] in ("dim", "zero", "pos", "nonpos", "from", "const", "lookup", "fromshape") and ft[1] == name:
                continue
            out.add(ft)
        return out

    def ext_of(self, facts, t):
        """is expression t an external value?  returns key or None"""
        k = key_of(t)
        if k is None:
            return None
        if ("ext", k) in facts:
            return k
        if k[0] == "el" and ("arr", k[1]) in facts:
            return k
        return None

    def facts_for(self, facts, k):
        """(ge0?, set of lt classes) for key k, including array-wide facts"""
        ge0 = ("ge0", k) in facts
        lts = {ft[2] for ft in facts if ft[0] == "lt" and ft[1] == k}
        if k[0] == "el":
            if ("allge0", k[1]) in facts:
                ge0 = True
            lts |= {ft[2] for ft in facts if ft[0] == "alllt" and ft[1] == k[1]}
        return ge0, lts

    def dim_of(self, facts, t):
        c = dim_class(t)
        if c:
            return c
        t = strip(t)
        if is_var(t):
            for ft in facts:
                if ft[0] == "dim" and ft[1] == t[2]:
                    return ft[2]
        return None

    # ---- transfer
    def xfer(self, b, i, e, st):
        rv, tmp, facts = st
        k = e[0]
        if k == "D":
            fs = set(facts)
            for name, init in e[1]:
                fs = self.kill_var(fs, name)
                if init is not None:
                    fs = self.assign_facts(fs, facts, name, init)
                    rv, tmp = self.rv_assign(rv, tmp, ["v", "l", name], init)
            return [(rv, tmp, frozenset(fs))]
        if k == "A":
            n = e[1]
            lhs = strip(n[2])
            outs = [(rv, tmp)]
            fs = set(facts)
            if is_var(lhs) and (lhs[1] == "l" or lhs[1].startswith("p")):
                fs = self.kill_var(fs, lhs[2])
                if n[1] == "=":
                    fs = self.assign_facts(fs, facts, lhs[2], n[3])
                nm = norm_local(lhs[2])
                fs = {ft for ft in fs if not (ft[0] == "pend" and ft[1] == nm)}
                if nm == "rval":
                    outs = [(v, tmp) for v in self.rv_values(rv, tmp, n[3], n[1], rv)]
                elif nm in ("__EGrval__", "__RVAL__"):
                    outs = [(rv, v) for v in self.rv_values(rv, tmp, n[3], n[1], tmp)]
                if nm in ("rval", "__EGrval__", "__RVAL__") and n[1] == "=":
                    fs = self._pending_from_call(fs, facts, nm, n[3])
            return [(a, b_, frozenset(fs)) for (a, b_) in outs]
        if k == "U":
            t = strip(e[1][2])
            if is_var(t):
                return [(rv, tmp, frozenset(self.kill_var(set(facts), t[2])))]
            return None
        if k == "S":
            self.check_use(b, e, st)
            return None
        if k == "C":
            self.check_call(b, e, st)
            lk = self.lookup_outputs(e[1])
            if lk:
                fs = set(facts)
                for v, cls in lk:
                    fs = self.kill_var(fs, v)
                    fs.add(("ext", ("v", v)))
                    fs.add(("lookup", v, cls))
                return [(rv, tmp, frozenset(fs))]
            return None
        if k == "R":
            if e[1] is not None and "int" in self.f.ret:
                vals = self.rv_values(rv, tmp, e[1], "=", None)
                if Z in vals:
                    self.succ_sets.append(facts)
                    if ("rej",) in facts:
                        self.rej_ok.setdefault(e[2], (b["id"], st))
            return None
        return None

    def rv_values(self, rv, tmp, rhs, op, cur):
        rhs = strip(rhs)
        c = const_of(rhs)
        if op != "=":
            return [Z, NZ] if cur != NZ else [NZ]
        if c is not None:
            return [NZ if c else Z]
        if is_var(rhs):
            nm = norm_local(rhs[2])
            if nm == "rval":
                return [rv]
            if nm in ("__EGrval__", "__RVAL__"):
                return [tmp]
        return [Z, NZ]

    def rv_assign(self, rv, tmp, lhs, rhs):
        nm = norm_local(lhs[2])
        if nm == "rval":
            v = self.rv_values(rv, tmp, rhs, "=", rv)
            return (v[0] if len(v) == 1 else rv), tmp   # declarations with unknown init are rare; keep
        if nm in ("__EGrval__", "__RVAL__"):
            v = self.rv_values(rv, tmp, rhs, "=", tmp)
            return rv, (v[0] if len(v) == 1 else tmp)
        return rv, tmp

    def assign_facts(self, fs, old, name, rhs):
        """facts for local `name` after name = rhs (old = facts before the kill)"""
        r = strip(rhs)
        c = dim_class(r)
        if c is None and isinstance(r, list) and r and r[0] == "c" and r[1]:
            g = self.prog.resolve(self.f, r[1])
            if g is not None:
                c = self.RD.get(g.key)
        if c:
            fs.add(("dim", name, c))
        if const_of(r) == 0:
            fs.add(("zero", name))
        if is_var(r):
            for ft in old:
                if ft[0] == "dim" and ft[1] == r[2]:
                    fs.add(("dim", name, ft[2]))
                if ft[0] == "arr" and ft[1] == r[2]:
                    fs.add(("arr", name))
                    o = next((g[2] for g in old if g[0] == "from" and g[1] == r[2]), r[2])
                    fs.add(("from", name, o))
                if ft[0] in ("allge0",) and ft[1] == r[2]:
                    fs.add(("allge0", name))
                if ft[0] == "alllt" and ft[1] == r[2]:
                    fs.add(("alllt", name, ft[2]))
                if ft[0] == "vshape" and ft[1] == r[2]:
                    fs.add(("vshape", name, ft[2]))
        k = self.ext_of(old, r)
        if k is not None:
            nk = ("v", name)
            fs.add(("ext", nk))
            src = k[1] if k[0] == "el" else None
            if k[0] == "v":
                src = next((ft[2] for ft in old if ft[0] == "from" and ft[1] == k[1]), None)
                if src is None and self.f.param_index(k[1]) is not None:
                    src = None
            if src is not None:
                fs.add(("from", name, src))
                if k[0] == "el":
                    r0 = strip(rhs)
                    fs.add(("fromshape", name, _shape(r0[2]) if isinstance(r0, list) and r0 and r0[0] == "i" else ()))
            ge0, lts = self.facts_for(old, k)
            if ge0:
                fs.add(("ge0", nk))
            for c2 in lts:
                fs.add(("lt", nk, c2))
        return fs

    # ---- obligations
    def check_use(self, b, e, st):
        t = e[1]
        cls, fld = self.arr_class(t[1])
        if cls is None:
            return
        facts = st[2]
        k = self.ext_of(facts, t[2])
        if k is None:
            return
        ge0, lts = self.facts_for(facts, k)
        missing = []
        if not ge0:
            missing.append("lower bound (>= 0)")
        if not any(cls in IMPLIES[c] for c in lts):
            if lts:
                missing.append("upper bound of the right dimension (< %s count; established only: < %s count)" % (cls, "/".join(sorted(lts))))
            else:
                missing.append("upper bound (< %s count)" % cls)
        if k[0] == "el" and not missing and not (("ge0", k) in facts and any(ft[0] == "lt" and ft[1] == k for ft in facts)):
            # the element relies on list-wide facts: they were established by a pass of a particular shape
            it = strip(t[2])
            shp = _shape(it[2]) if isinstance(it, list) and it and it[0] == "i" else ()
            vs = {ft[2] for ft in facts if ft[0] == "vshape" and ft[1] == k[1]}
            if vs and shp not in vs:
                missing.append("validation over the same positions (the list was validated as list[%s], it is used as list[%s])" % (
                    "/".join("+".join(x) or "i" for x in sorted(vs)), "+".join(shp) or "i"))
        ukey = (e[2], fld, show(t[2]), cls)
        origin = None
        if self.f.param_index(k[1]) is None:
            origin = next((ft[2] for ft in facts if ft[0] == "from" and ft[1] == k[1]), None)
        rec = self.uses.setdefault(ukey, {"missing": set(), "state": None, "n": 0, "key": k if origin is None else ("el", origin, "?")})
        rec["n"] += 1
        if missing:
            rec["missing"].update(missing)
            if rec["state"] is None:
                rec["state"] = (b["id"], st)

    def check_call(self, b, e, st):
        c = e[1]
        g = self.prog.resolve(self.f, c[1]) if c[1] else None
        if g is None:
            return
        summ = self.summaries.get(g.key)
        if not summ:
            return
        if self.get_summary is not None:
            consts = tuple(sorted((g.params[pk][0], const_of(a)) for pk, a in enumerate(c[3])
                                  if pk < len(g.params) and const_of(a) is not None and g.params[pk][2].replace("const ", "").strip() == "int"))
            if consts:
                summ = self.get_summary(g, consts)
                if not summ:
                    return
        facts = st[2]
        for pk, req in summ.items():
            if pk >= len(c[3]):
                continue
            a = c[3][pk]
            if req["kind"] == "scalar":
                k = self.ext_of(facts, a)
                if k is None:
                    continue        # not an external value here
                ge0, lts = self.facts_for(facts, k)
                missing = set()
                if req["ge0"] and not ge0:
                    missing.add("ge0")
                for cls in req["lt"]:
                    if not any(cls in IMPLIES[c2] for c2 in lts):
                        missing.add(("lt", cls))
                ckey = (c[4], g.key, pk)
                rec = self.unmet_calls.setdefault(ckey, {"missing": set(), "key": k, "state": None, "uses": req["uses"]})
                if missing:
                    rec["missing"] |= missing
                    if rec["state"] is None:
                        rec["state"] = (b["id"], st)
            else:
                a_s = strip(a)
                if isinstance(a_s, list) and a_s and a_s[0] == "b" and a_s[1] in ("+", "-"):
                    a_s = strip(a_s[2])          # list + offset: still the caller's list
                if isinstance(a_s, list) and a_s and a_s[0] == "u" and a_s[1] == "&" and isinstance(strip(a_s[2]), list) and strip(a_s[2])[0] == "i":
                    a_s = strip(strip(a_s[2])[1])
                if not (is_var(a_s) and ("arr", a_s[2]) in facts):
                    continue
                nm = a_s[2]
                missing = set()
                if req["ge0"] and ("allge0", nm) not in facts:
                    missing.add("ge0")
                have = {ft[2] for ft in facts if ft[0] == "alllt" and ft[1] == nm}
                for cls in req["lt"]:
                    if not any(cls in IMPLIES[c2] for c2 in have):
                        missing.add(("lt", cls))
                ckey = (c[4], g.key, pk)
                rec = self.unmet_calls.setdefault(ckey, {"missing": set(), "key": ("arr", nm), "state": None, "uses": req["uses"]})
                if missing:
                    rec["missing"] |= missing
                    if rec["state"] is None:
                        rec["state"] = (b["id"], st)

    def lookup_outputs(self, c):
        """(local, class) pairs: locals whose address this call hands to a symbol-table lookup (directly or through a wrapper)"""
        g = self.prog.resolve(self.f, c[1]) if c[1] else None
        if g is None or g.key not in self.LOOKUP:
            return []
        out = []
        for k, cls in self.LOOKUP[g.key].items():
            if k >= len(c[3]):
                continue
            a = strip(c[3][k])
            if isinstance(a, list) and a and a[0] == "u" and a[1] == "&" and is_var(a[2]) and strip(a[2])[1] == "l":
                if cls == "tab":
                    fl = fields_of(apath(c[3][0])[2]) if c[3] else ()
                    cls = STRUCT if any(x.endswith("::coltab") for x in fl) else ROW if any(x.endswith("::rowtab") for x in fl) else None
                if cls:
                    out.append((strip(a[2])[2], cls))
        return out

    # ---- edges
    def refine(self, cond, truth, st):
        rv, tmp, facts = st
        fs = set(facts)
        if any(ft[0] == "pend" for ft in facts):
            for l, op, r in atoms(cond, truth):
                for a, b_, o in ((l, r, op), (r, l, SWAP[op])):
                    if is_var(a) and const_of(b_) == 0 and o == "==":
                        nm_ = norm_local(strip(a)[2])
                        for ft in list(fs):
                            if ft[0] == "pend" and ft[1] == nm_:
                                fs.discard(ft)
                                fs.add((ft[2], ft[3]) if ft[2] == "allge0" else (ft[2], ft[3], ft[4]))
            facts = frozenset(fs)
        # the index stored with a name is -1 (no such entry / the objective's entry of the row table) or a valid position: a test that
        # excludes -1 (or all negatives) validates it; for the column table a successful lookup does so too
        for l, op, r in atoms(cond, truth):
            for a, b_, o in ((l, r, op), (r, l, SWAP[op])):
                if is_var(a):
                    for ft in facts:
                        if ft[0] == "lookup" and ft[1] == strip(a)[2]:
                            cb = const_of(b_)
                            if cb is not None and ((o == "!=" and cb == -1) or (o == ">=" and cb == 0) or (o == ">" and cb == -1)):
                                fs.add(("ge0", ("v", ft[1])))
                                fs.add(("lt", ("v", ft[1]), ft[2]))
                a0 = strip(a)
                if isinstance(a0, list) and a0 and a0[0] == "c" and const_of(b_) == 0 and o == "==":
                    for v, cls in self.lookup_outputs(a0):
                        if cls == STRUCT:
                            fs.add(("ge0", ("v", v)))
                            fs.add(("lt", ("v", v), cls))
        facts = frozenset(fs)
        if not truth:
            # zero-iteration exit of a loop `i < n` with i == 0: the validations in its body hold vacuously
            for l, op, r in atoms(cond, True):
                if is_var(l) and ("zero", strip(l)[2]) in facts and op == "<":
                    for hb, conds in self.loop_validations.items():
                        if self.f.blocks[hb].get("c") is cond:
                            for c2 in conds:
                                for tr in (True, False):
                                    for l2, op2, r2 in atoms(c2, tr):
                                        for a2, b2, o2 in ((l2, r2, op2), (r2, l2, SWAP[op2])):
                                            k2 = key_of(a2)
                                            if k2 and k2[0] == "v" and k2[1] in getattr(self, "_loop_copies", {}).get(hb, {}):
                                                lname, lshape = self._loop_copies[hb][k2[1]]
                                                k2 = ("el", lname, "?")
                                                a2 = ["i", ["v", "l", lname], None]
                                                fs.add(("vshape", lname, lshape))
                                            if k2 and k2[0] == "el" and ("arr", k2[1]) in facts:
                                                cb = const_of(b2)
                                                if cb is not None and ((o2 == ">=" and cb >= 0) or (o2 == ">" and cb >= -1)):
                                                    fs.add(("allge0", k2[1]))
                                                    fs.add(("vshape", k2[1], _shape(strip(a2)[2]) if isinstance(strip(a2), list) and strip(a2)[0] == "i" else ()))
                                                dc = self.dim_of(facts, b2)
                                                if dc and o2 == "<":
                                                    fs.add(("alllt", k2[1], dc))
                                                    fs.add(("vshape", k2[1], _shape(strip(a2)[2]) if isinstance(strip(a2), list) and strip(a2)[0] == "i" else ()))
        for l, op, r in atoms(cond, truth):
            # constant selector parameters (call-site specialisation)
            for a, b_, o in ((l, r, op), (r, l, SWAP[op])):
                if is_var(a) and const_of(b_) is not None and o in ("==", "!="):
                    cv = next((ft[2] for ft in facts if ft[0] == "const" and ft[1] == strip(a)[2]), None)
                    if cv is not None:
                        if (o == "==" and cv != const_of(b_)) or (o == "!=" and cv == const_of(b_)):
                            return []
            # error-code correlation
            for a, b_, o in ((l, r, op), (r, l, SWAP[op])):
                if is_var(a) and const_of(b_) == 0 and o in ("==", "!="):
                    nm = norm_local(strip(a)[2])
                    cur = rv if nm == "rval" else (tmp if nm in ("__EGrval__", "__RVAL__") else None)
                    if cur is not None and ((o == "==" and cur == NZ) or (o == "!=" and cur == Z)):
                        return []
            for a, b_, o in ((l, r, op), (r, l, SWAP[op])):
                k = self.ext_of(facts, a)
                if k is not None:
                    cb = const_of(b_)
                    lower_ok = (o == ">=" and cb is not None and cb >= 0) or (o == ">" and cb is not None and cb >= -1) or \
                               (o == "==" and cb is not None and cb >= 0)
                    if lower_ok:
                        self.add_fact(fs, "ge0", k, tree=a)
                    elif (o == "<" and cb is not None and cb <= 0) or (o == "<=" and cb is not None and cb < 0):
                        fs.add(("rej",))
                    dc = self.dim_of(facts, b_)
                    if dc:
                        if o == "<":
                            self.add_fact(fs, "lt", k, dc, tree=a)
                        elif o in (">=", ">"):
                            fs.add(("rej",))
                # loop emptiness correlation:  i < num  with i == 0
                sa = strip(a)
                sb = strip(b_)
                if is_var(sa) and ("zero", sa[2]) in facts and is_var(sb) and o in ("<", ">="):
                    if o == "<":
                        if ("nonpos", sb[2]) in facts:
                            return []
                        fs.add(("pos", sb[2]))
                    else:
                        if ("pos", sb[2]) in facts:
                            return []
                        fs.add(("nonpos", sb[2]))
        return [(rv, tmp, frozenset(fs))]

    def add_fact(self, fs, kind, k, cls=None, tree=None):
        if k[0] == "v":
            # a local copy of a list element (col = list[beg[i] + j]; if (col < 0 || ...) reject): the test validates the list as a test of
            # the element itself would, with the shape of the position it was copied from
            src = next((ft[2] for ft in fs if ft[0] == "from" and ft[1] == k[1]), None)
            shp = next((ft[2] for ft in fs if ft[0] == "fromshape" and ft[1] == k[1]), None)
            if src is not None and shp is not None and ("arr", src) in fs:
                fs.add(("vshape", src, shp))
                if kind == "ge0":
                    fs.add(("allge0", src))
                else:
                    fs.add(("alllt", src, cls))
        if k[0] == "el":
            t0 = strip(tree) if tree is not None else None
            fs.add(("vshape", k[1], _shape(t0[2]) if isinstance(t0, list) and t0 and t0[0] == "i" else ()))
        if kind == "ge0":
            fs.add(("ge0", k))
            if k[0] == "el":
                fs.add(("allge0", k[1]))      # checks on list[i] validate the list (loops are full scans; DESIGN R-IDX)
        else:
            fs.add(("lt", k, cls))
            if k[0] == "el":
                fs.add(("alllt", k[1], cls))

    def run(self):
        self.flow = Flow(self.prog, self.f, [self.init], self.xfer, self.refine, max_visits=400000).run()
        return self


def return_dims(prog):
    """functions whose return value is a dimension count (or a constant on their failure path)"""
    RD = {}
    changed = True
    rounds = 0
    while changed and rounds < 4:
        changed = False
        rounds += 1
        for f in prog.funcs.values():
            if f.key in RD or "int" not in f.ret or len(f.blocks) > 40:
                continue
            rets = [e[1] for b, i, e in f.elements() if e[0] == "R" and e[1] is not None]
            if not rets:
                continue
            classes = set()
            ok = True

            def cls_of(t, depth=0):
                t = strip(t)
                c = dim_class(t)
                if c:
                    return {c}
                if const_of(t) is not None:
                    return set()
                if isinstance(t, list) and t and t[0] == "c" and t[1]:
                    g = prog.resolve(f, t[1])
                    if g is not None and g.key in RD:
                        return {RD[g.key]}
                    return None
                if is_var(t) and t[1] == "l" and depth < 2:
                    out = set()
                    found = False
                    for b, i, e in f.elements():
                        srcs = []
                        if e[0] == "A" and is_var(e[1][2], name=t[2]) and e[1][1] == "=":
                            srcs.append(e[1][3])
                        elif e[0] == "D":
                            srcs += [init for n, init in e[1] if n == t[2] and init is not None]
                        for sx in srcs:
                            found = True
                            r = cls_of(sx, depth + 1)
                            if r is None:
                                return None
                            out |= r
                    return out if found else None
                return None
            for r in rets:
                c = cls_of(r)
                if c is None:
                    ok = False
                    break
                classes |= c
            if ok and len(classes) == 1:
                RD[f.key] = list(classes)[0]
                changed = True
    return RD


def taint(prog, apis):
    """top-down, flow-insensitive: which (function, parameter) may receive an externally supplied index or index list"""
    T = collections.defaultdict(set)    # fkey -> set of param indices
    wl = []
    for k, (f, pidx) in apis.items():
        for i, p in enumerate(f.params):
            t = p[2].replace("const ", "").strip()
            if t == "int" or t in ("int *", "int *const"):
                T[k].add(i)
        wl.append(k)
    while wl:
        k = wl.pop()
        f = prog.funcs[k]
        names = {f.params[i][0] for i in T[k] if i < len(f.params)}
        # local closure: x = tainted, x = tainted[i]
        changed = True
        while changed:
            changed = False
            for b, i, e in f.elements():
                pairs = []
                if e[0] == "A" and e[1][1] == "=":
                    pairs.append((e[1][2], e[1][3]))
                elif e[0] == "D":
                    pairs += [(["v", "l", n], init) for n, init in e[1] if init is not None]
                for lhs, rhs in pairs:
                    l = strip(lhs)
                    if not is_var(l) or l[2] in names:
                        continue
                    r = strip(rhs)
                    src = None
                    if is_var(r):
                        src = r[2]
                    elif isinstance(r, list) and r and r[0] == "i" and is_var(r[1]):
                        src = strip(r[1])[2]
                    elif isinstance(r, list) and r and r[0] == "b" and r[1] in ("+", "-") and is_var(r[2]):
                        src = strip(r[2])[2]
                    if src in names:
                        names.add(l[2])
                        changed = True
        for b, i, c in f.calls():
            g = prog.resolve(f, c[1]) if c[1] else None
            if g is None:
                continue
            for pk, a in enumerate(c[3]):
                a = strip(a)
                nm = None
                if is_var(a):
                    nm = a[2]
                elif isinstance(a, list) and a and a[0] == "i" and is_var(a[1]):
                    nm = strip(a[1])[2]
                elif isinstance(a, list) and a and a[0] == "b" and a[1] in ("+", "-") and is_var(a[2]):
                    nm = strip(a[2])[2]
                elif isinstance(a, list) and a and a[0] == "u" and a[1] == "&" and isinstance(strip(a[2]), list) and strip(a[2])[0] == "i" and is_var(strip(a[2])[1]):
                    nm = strip(strip(a[2])[1])[2]
                if nm in names and pk < len(g.params):
                    t = g.params[pk][2].replace("const ", "").strip()
                    if (t == "int" or t.startswith("int *")) and pk not in T[g.key]:
                        T[g.key].add(pk)
                        wl.append(g.key)
    return T


def build_summary(f, an):
    """unmet facts on parameters become preconditions of the function"""
    summ = {}
    for (loc, fld, itxt, cls), rec in an.uses.items():
        if not rec["missing"]:
            continue
        key = rec["key"]
        pi = f.param_index(key[1])
        if pi is None:
            continue      # external value was copied into a local without validation: reported at this function
        kind = "scalar" if key[0] == "v" else "array"
        s = summ.setdefault(pi, {"kind": kind, "ge0": False, "lt": set(), "uses": []})
        for m in rec["missing"]:
            if m.startswith("lower"):
                s["ge0"] = True
            else:
                s["lt"].add(cls)
        s["uses"].append((f.name, short_loc(loc), "%s[%s]" % (fld, itxt), cls))
    for (loc, gk, pk), rec in an.unmet_calls.items():
        if not rec["missing"]:
            continue
        key = rec["key"]
        pi = f.param_index(key[1])
        if pi is None:
            continue
        kind = "array" if key[0] in ("arr", "el") else "scalar"
        s = summ.setdefault(pi, {"kind": kind, "ge0": False, "lt": set(), "uses": []})
        for m in rec["missing"]:
            if m == "ge0":
                s["ge0"] = True
            else:
                s["lt"].add(m[1])
        s["uses"].extend(rec["uses"])
    return summ


LOOKUP_BASE = ("ILLsymboltab_lookup", "ILLsymboltab_getindex")


def lookup_summary(prog):
    """functions with an int* out-parameter that receives the index a symbol table stores with a name: the two table routines (class by
    the table handed in) and every wrapper that passes its own out-parameter on (class by the table the wrapper names)"""
    L = {}
    for f in prog.funcs.values():
        if f.name in LOOKUP_BASE:
            for k, p_ in enumerate(f.params):
                if p_[1].replace(" ", "") in ("int*", "int*const"):
                    L[f.key] = {k: "tab"}
    changed = True
    while changed:
        changed = False
        for f in prog.funcs.values():
            if f.live is None or f.key in L or "_dbl." in f.unit or "_mpf." in f.unit:
                continue
            for b, i, c in f.calls():
                g = prog.resolve(f, c[1]) if c[1] else None
                if g is None or g.key not in L:
                    continue
                for k, cls in L[g.key].items():
                    if k >= len(c[3]):
                        continue
                    a = strip(c[3][k])
                    if is_var(a) and isinstance(a[1], str) and a[1].startswith("p"):
                        if cls == "tab":
                            fl = fields_of(apath(c[3][0])[2]) if c[3] else ()
                            cls2 = STRUCT if any(x.endswith("::coltab") for x in fl) else ROW if any(x.endswith("::rowtab") for x in fl) else None
                        else:
                            cls2 = cls
                        if cls2:
                            L.setdefault(f.key, {})[int(a[1][1:])] = cls2
                            changed = True
    return L


def analyse_program(prog, prefix="mpq_"):
    """bottom-up: callee summaries (preconditions on index parameters) first, API functions last"""
    apis = {f.key: (f, pidx) for f, pidx in api_functions(prog, prefix)}
    # candidate functions: reachable from the API, in the rational/plain library units
    reach = prog.reachable(sorted(apis))
    funcs = [prog.funcs[k] for k in reach if k in prog.funcs]
    funcs = [f for f in funcs if not f.unit.startswith("esolver/") and "_dbl." not in f.unit and "_mpf." not in f.unit]
    # order: callees before callers (DFS post-order), cycles broken arbitrarily
    order, seen = [], set()

    def dfs(k):
        if k in seen:
            return
        seen.add(k)
        for c in sorted(prog.callees.get(k, ())):
            if c in reach:
                dfs(c)
        order.append(k)
    import sys
    sys.setrecursionlimit(10000)
    for k in sorted(apis):
        dfs(k)
    summaries = {}
    results = {}
    fset = {f.key for f in funcs}
    T = taint(prog, apis)
    IdxAnalysis.RD = return_dims(prog)
    IdxAnalysis.LOOKUP = lookup_summary(prog)
    IdxAnalysis.EST = {}
    memo = {}

    def ext_params(g):
        es, ea = [], []
        for i, p in enumerate(g.params):
            if i not in T.get(g.key, ()):
                continue
            t = p[2].replace("const ", "").strip()
            if t == "int":
                es.append(p[0])
            elif t in ("int *", "int *const", "int *restrict"):
                ea.append(p[0])
        return es, ea

    def get_summary(g, consts):
        mk = (g.key, consts)
        if mk in memo:
            return memo[mk]
        memo[mk] = summaries.get(g.key)      # recursion guard: fall back to the context-free summary
        es, ea = ext_params(g)
        pre = [("const", n, v) for (n, v) in consts]
        an2 = IdxAnalysis(prog, g, [x for x in es if x not in dict(consts)], ea, pre, summaries, False, get_summary).run()
        memo[mk] = build_summary(g, an2)
        return memo[mk]

    for k in order:
        if k not in fset:
            continue
        f = prog.funcs[k]
        ext_s, ext_a = [], []
        for i, p in enumerate(f.params):
            if i not in T.get(k, ()):
                continue
            t = p[2].replace("const ", "").strip()
            if t == "int":
                ext_s.append(p[0])
            elif t in ("int *", "int *const", "int *restrict"):
                ext_a.append(p[0])
        has_lookup = any((prog.resolve(f, c[1]).key if prog.resolve(f, c[1]) is not None else None) in IdxAnalysis.LOOKUP
                         for b, i, c in f.calls() if c[1])
        if not ext_s and not ext_a and not has_lookup:
            continue
        an = IdxAnalysis(prog, f, ext_s, ext_a, (), summaries, k in apis, get_summary)
        relevant = False
        for b, i, e in f.elements():
            if e[0] == "S" and an.arr_class(e[1][1])[0] is not None:
                relevant = True
                break
            if e[0] == "C" and e[1][1]:
                g = prog.resolve(f, e[1][1])
                if g is not None and g.key in summaries:
                    relevant = True
                    break
        if not relevant:
            continue
        an.run()
        results[k] = an
        if k in apis:
            continue
        if an.succ_sets and ext_a:
            est = {}
            for nm_ in ext_a:
                ge0 = all(("allge0", nm_) in fs_ for fs_ in an.succ_sets)
                lts = None
                for fs_ in an.succ_sets:
                    here = {ft[2] for ft in fs_ if ft[0] == "alllt" and ft[1] == nm_}
                    lts = here if lts is None else (lts & here)
                if ge0 or lts:
                    pi_ = f.param_index(nm_)
                    if pi_ is not None:
                        est[pi_] = (ge0, frozenset(lts or ()))
            if est:
                IdxAnalysis.EST[k] = est
        summ = build_summary(f, an)
        if summ:
            summaries[k] = summ
    return apis, results, summaries


def run(prog, prefix="mpq_", rule="R-IDX"):
    res = RuleResult(rule, "every externally supplied row/column index is checked >= 0 and < the count of the right dimension "
                           "before it subscripts a problem array, on every path; an index found out of range makes the call fail")
    apis, results, summaries = analyse_program(prog, prefix)
    n_uses = 0
    n_guarded_local = 0
    groups = collections.OrderedDict()
    for k, an in sorted(results.items()):
        f = prog.funcs[k]
        for (loc, fld, itxt, cls), rec in sorted(an.uses.items()):
            n_uses += 1
            if not rec["missing"]:
                n_guarded_local += 1
                if k in apis or True:
                    res.sample({"use": "%s %s: %s[%s]" % (short_loc(loc), f.name, fld, itxt), "verdict": "guarded on every path (>= 0 and < %s count)" % cls}, limit=6)
                continue
            key = rec["key"]
            pi = f.param_index(key[1])
            if k in apis or pi is None:
                g = groups.setdefault((f.name, fld, itxt, tuple(sorted(rec["missing"]))), {"locs": [], "entries": set(), "state": rec["state"], "an": an})
                g["locs"].append(short_loc(loc))
                g["entries"].add(f.name)
        if k in apis:
            for (loc, gk, pk), rec in sorted(an.unmet_calls.items()):
                if not rec["missing"]:
                    continue
                for (ufn, uloc, utxt, ucls) in rec["uses"]:
                    miss = []
                    if "ge0" in rec["missing"]:
                        miss.append("lower bound (>= 0)")
                    for m in rec["missing"]:
                        if m != "ge0" and m[1] == ucls:
                            miss.append("upper bound (< %s count)" % ucls)
                    if not miss:
                        continue
                    g = groups.setdefault((ufn, utxt.split("[")[0], utxt.split("[", 1)[1][:-1], tuple(sorted(miss))), {"locs": [], "entries": set(), "state": rec["state"], "an": an})
                    if uloc not in g["locs"]:
                        g["locs"].append(uloc)
                    g["entries"].add(f.name)
    res.obligations = n_uses
    res.nontrivial = n_uses
    for (fn, fld, itxt, missing), g in groups.items():
        entries = sorted(base(x) for x in g["entries"])
        key = "%s|%s[%s]|%s|via %s" % (base(fn), fld, itxt, "; ".join(missing), ",".join(entries))
        path = g["an"].flow.witness(g["state"][0], g["state"][1]) if g["state"] else []
        res.violations.append(Violation(rule, key, fn, g["locs"][0],
                                        "%s[%s] is subscripted with an externally supplied index lacking: %s (entry point%s: %s)" % (
                                            fld, itxt, "; ".join(missing), "s" if len(entries) > 1 else "", ", ".join(entries)), path=path))
    # rejected index accepted
    for k, an in sorted(results.items()):
        f = prog.funcs[k]
        for loc, (bid, st) in sorted(an.rej_ok.items()):
            res.obligations += 1
            res.violations.append(Violation(rule, "%s|rejected index, returns 0" % base(f.name), f.name, short_loc(loc),
                                            "an index found out of range does not make the function fail: return code 0 is reachable after the range test failed",
                                            path=an.flow.witness(bid, st)))
    res.counts["functions_analysed"] = len(results)
    res.counts["subscripts_of_problem_arrays_by_external_index"] = n_uses
    res.counts["guarded_in_the_same_function"] = n_guarded_local
    res.counts["functions_with_preconditions"] = len(summaries)
    res.floor("subscripts of problem arrays by an external index", n_uses, 30)
    return res


def run_pubstruct(prog, prefix="mpq_", rule="R-PUBSTRUCT", floor=2):
    """the public API speaks structural column numbers.  The internal column space (structural columns and logicals interleaved in the
    order they were created, dimension ncols) never appears at the interface: every public function validates a caller's column number
    against nstruct and maps it through structmap.  In the public functions of qsopt.c, no comparison of a caller-supplied value (an
    int parameter or an element of an int-array parameter) with a dimension of the internal column space (ILLlpdata::ncols,
    ILLmatrix::matcols, lpinfo::ncols) occurs - such a guard admits the numbers nstruct .. ncols-1, which are no columns of the problem
    for any other call, and shows that the list is used unmapped.  The comparisons with nstruct / nrows are counted as the instances."""
    res = RuleResult(rule, "no public function compares a caller-supplied index with a dimension of the internal column space")
    n = 0
    for f, pidx in api_functions(prog, prefix):
        if f.live is None or not f.unit.endswith("qsopt_mpq.c"):
            continue
        iparams = {p_[0] for p_ in f.params if p_[2].replace("const ", "").strip() in ("int", "int *", "int *const")}
        if not iparams:
            continue
        for bid in f.live:
            c = f.blocks[bid].get("c")
            if c is None:
                continue
            for nd in walk(c):
                if not (isinstance(nd, list) and nd and nd[0] == "b" and nd[1] in ("<", "<=", ">", ">=")):
                    continue
                for a, b_ in ((nd[2], nd[3]), (nd[3], nd[2])):
                    cls = dim_class(b_)
                    if cls is None:
                        continue
                    ext = any(isinstance(x, list) and x and x[0] == "v" and x[2] in iparams and isinstance(x[1], str) and x[1].startswith("p") for x in walk(a))
                    if not ext:
                        continue
                    n += 1
                    res.obligations += 1
                    res.nontrivial += 1
                    if cls == COL:
                        res.violations.append(Violation(rule, "%s|%s compared with the internal column count" % (base(f.name), show(a)[:30]), f.name,
                                                        short_loc(f.blocks[bid].get("tloc", f.loc)),
                                                        "%s: the caller's value is validated against %s, the dimension of the internal column space - the numbers "
                                                        "nstruct .. ncols-1 pass, and the value is used without the structmap" % (show(nd)[:70], show(b_))))
    res.counts["comparisons_of_external_values_with_a_dimension"] = n
    res.floor("comparisons of caller-supplied values with a problem dimension in public functions", n, floor)
    # the same for the caller's arrays: an array handed in or out through the interface has one entry per row or per structural column.
    # A local counter whose every comparison in the function is with a dimension of the internal column space does not subscript a
    # caller's array (QSexact_verify copied ncols = nstruct + nrows doubles out of the caller's primal vector)
    m = 0
    reported = set()
    funcs = [f for f, _ in api_functions(prog, prefix)] + [f for f in prog.funcs.values() if f.live is not None and f.name.startswith("QSexact") and not f.static]
    seen = set()
    for f in funcs:
        if f.live is None or f.key in seen:
            continue
        seen.add(f.key)
        arrs = {p_[0] for p_ in f.params if p_[1].count("*") == 1 and not any(x in p_[1] for x in ("QSdata", "qsdata", "QSbasis", "qsbasis"))}
        if not arrs:
            continue
        dom, _succ = dominators(prog, f)
        loops = []          # (true successor, counter, class)
        for bid in f.live:
            c = f.blocks[bid].get("c")
            ss = prog.live_succs(f, f.blocks[bid])
            if c is None or len(ss) != 2 or ss[0] is None:
                continue
            c0 = strip(c)
            if isinstance(c0, list) and c0 and c0[0] == "b" and c0[1] in ("<", "<="):
                a0 = strip(c0[2])
                cls = dim_class(c0[3])
                if is_var(a0, kind="l") and cls is not None:
                    loops.append((ss[0], a0[2], cls, show(c0[3])))
        if not loops:
            continue
        for b, i, e in f.elements():
            trees = [x[1] for x in e[1] if x[1] is not None] if e[0] == "D" else ([e[1]] if len(e) > 1 and isinstance(e[1], list) else [])
            for t in trees:
                for nd in walk(t):
                    if not (isinstance(nd, list) and nd and nd[0] == "i"):
                        continue
                    a0, i0 = strip(nd[1]), strip(nd[2])
                    if not (is_var(a0) and isinstance(a0[1], str) and a0[1].startswith("p") and a0[2] in arrs and is_var(i0, kind="l")):
                        continue
                    # the innermost enclosing loop on this counter: the candidate with the most dominators of its own
                    encl = [(len(dom.get(ts, ())), cls, dtext) for ts, v, cls, dtext in loops
                            if v == i0[2] and (ts == b["id"] or ts in dom.get(b["id"], ()))]
                    if not encl:
                        continue
                    _d, cls, dtext = max(encl)
                    m += 1
                    res.obligations += 1
                    res.nontrivial += 1
                    if cls == COL and (f.key, a0[2], e[2] if len(e) > 2 else None) not in reported:
                        reported.add((f.key, a0[2], e[2] if len(e) > 2 else None))
                        res.violations.append(Violation(rule, "%s|%s[%s] runs over the internal column count" % (base(f.name), a0[2], i0[2]), f.name,
                                                        short_loc(e[2] if len(e) > 2 and isinstance(e[2], str) else f.loc),
                                                        "%s inside a loop %s < %s: a dimension of the internal column space (structural columns plus one logical per "
                                                        "row); the caller's array %s has one entry per structural column" % (show(nd)[:50], i0[2], dtext, a0[2])))
    res.counts["subscripts_of_caller_arrays_by_a_dimension_bounded_counter"] = m
    res.floor("subscripts of caller-supplied arrays by a counter bounded by a problem dimension", m, 6)
    return res
