"""Rules for C19 (the esolver program and QSexact_print_sol).
R-EXIT      an error recorded in main's rval is never overwritten: once rval has been non-zero, main returns non-zero.
R-STATUSWORD the word written for a status is the word of the constant of that case (OPTIMAL / INFEASIBLE / UNBOUNDED),
            in esolver's main and in QSexact_print_sol.
R-NZFILTER  every list section of QSexact_print_sol prints entry i iff it is non-zero: the filter is an equality test
            against the exact zero (not a one-sided comparison), it tests the very array whose element is converted to
            text, and the name printed next to it comes from the name array of the same index space."""
import collections
import re

from ..core import walk, strip, is_var, callee, const_of, apath, fields_of, show, short_loc, Flow, AnalysisBroken, dominators
from ..cond import atoms, SWAP
from ..intstate import IntCells, Z, NZ
from ..result import RuleResult, Violation


def run_exit(prog, rule="R-EXIT"):
    res = RuleResult(rule, "in esolver's main an error once recorded in rval reaches the exit status: no later assignment clears it")
    f = prog.require_fn("main", unit="esolver/esolver.c")
    cells = IntCells(["rval"], lambda st, c: st[0], lambda st, c, v: (v,) + st[1:])
    bad = {}
    clob = {}
    nassign = [0]

    def xfer(b, i, e, st):
        if e[0] == "D":
            out = [st]
            for name, init in e[1]:
                nxt = []
                for s in out:
                    r = cells.declare(s, name, init)
                    nxt.extend(r if r is not None else [s])
                out = nxt
            return [(s[0], s[1] or s[0] == NZ) for s in out]
        if e[0] == "A":
            r = cells.assign(st, e[1][2], e[1][3], e[1][1])
            if r is None:
                return None
            nassign[0] += 1
            out = []
            for s in r:
                if st[1] and s[0] == Z:
                    clob.setdefault(short_loc(e[2]), (e[1], b["id"], st))
                out.append((s[0], st[1] or s[0] == NZ))
            return out
        if e[0] == "R" and e[1] is not None:
            if st[1] and Z in cells.values(st, e[1]):
                bad.setdefault(short_loc(e[2]), (b["id"], st))
        return None
    fl = Flow(prog, f, [(Z, False)], xfer, lambda c, t, st: cells.refine(c, t, st)).run()
    res.obligations += max(1, nassign[0])
    res.nontrivial += 1
    if bad:
        for loc, (c, bid, st) in sorted(clob.items()):
            res.violations.append(Violation(rule, "main|error in rval overwritten by %s" % (callee(strip(c[3])) or show(c[3])[:30]), f.name, loc,
                                            "%s is executed while rval already holds an error; when it succeeds esolver exits 0 although the run "
                                            "failed" % show(c)[:100], path=fl.witness(bid, st)))
        if not clob:
            loc, (bid, st) = sorted(bad.items())[0]
            res.violations.append(Violation(rule, "main|returns 0 after an error", f.name, loc, "main can return 0 on a path on which rval was non-zero",
                                            path=fl.witness(bid, st)))
    else:
        res.sample({"function": "main", "assignments_to_rval": nassign[0], "verdict": "a non-zero rval is never cleared before the return"})
    res.floor("assignments to rval in main", nassign[0], 5)
    return res


WORDS = {"QS_LP_OPTIMAL": "OPTIMAL", "QS_LP_INFEASIBLE": "INFEASIBLE", "QS_LP_UNBOUNDED": "UNBOUNDED"}
OTHER_WORDS = {"OPTIMAL", "INFEASIBLE", "UNBOUNDED"}


def _status_var(f):
    """the local that receives the status: passed by address to QSexact_solver / mpq_QSget_status"""
    for b, i, c in f.calls():
        if callee(c) in ("QSexact_solver", "mpq_QSget_status"):
            for a in c[3]:
                a = strip(a)
                if isinstance(a, list) and a and a[0] == "u" and a[1] == "&" and is_var(a[2], kind="l"):
                    if "int" in (f.ltypes.get(strip(a[2])[2]) or ""):
                        return strip(a[2])[2]
    return None


def _sv_eval(t, var, val):
    """value of an int / string expression when the status variable holds val; None if unknown.  Strings evaluate to ('s', text)"""
    t = strip(t)
    if not isinstance(t, list) or not t:
        return None
    k = const_of(t)
    if k is not None:
        return k
    if t[0] == "s":
        return ("s", t[1])
    if is_var(t, name=var, kind="l"):
        return val
    if t[0] == "u" and t[1] == "!":
        v = _sv_eval(t[2], var, val)
        return None if v is None or isinstance(v, tuple) else int(not v)
    if t[0] == "b":
        a, b = _sv_eval(t[2], var, val), _sv_eval(t[3], var, val)
        if t[1] == "&&":
            if a == 0 or b == 0:
                return 0
            return None if a is None or b is None else 1
        if t[1] == "||":
            if (a not in (None, 0)) or (b not in (None, 0)):
                return 1
            return None if a is None or b is None else 0
        if a is None or b is None or isinstance(a, tuple) or isinstance(b, tuple):
            return None
        ops = {"==": a == b, "!=": a != b, "<": a < b, ">": a > b, "<=": a <= b, ">=": a >= b}
        return int(ops[t[1]]) if t[1] in ops else None
    if t[0] == "q":
        c = _sv_eval(t[1], var, val)
        if c is None or isinstance(c, tuple):
            return None
        return _sv_eval(t[2] if c else t[3], var, val)
    return None


def run_statusword(prog, funcs=("main", "QSexact_print_sol"), rule="R-STATUSWORD"):
    res = RuleResult(rule, "when the status is QS_LP_X the text written contains the word X and no other status word, and for any other "
                           "status none of the three (the status value is enumerated through the switch / if / conditional-expression forms)")
    for fn in funcs:
        f = prog.require_fn(fn)
        var = _status_var(f)
        if var is None:
            raise AnalysisBroken("%s: no local receives the status from QSexact_solver / QSget_status" % fn)
        consts = {}
        for b in f.blocks.values():
            l = b.get("l")
            if l and l[0] == "case" and l[2] in WORDS:
                consts[l[2]] = l[1]
            if b.get("c") is not None:
                for nd in walk(b["c"]):
                    if nd[0] == "n" and nd[2] in WORDS:
                        consts[nd[2]] = nd[1]
        for b, i, e in f.elements():
            trees = [x[1] for x in e[1] if x[1] is not None] if e[0] == "D" else ([e[1]] if e[1] is not None else [])
            for t in trees:
                for nd in walk(t):
                    if nd[0] == "n" and nd[2] in WORDS:
                        consts[nd[2]] = nd[1]
        if set(consts) != set(WORDS):
            raise AnalysisBroken("%s: the status constants %s are not all compared / switched on" % (fn, ", ".join(sorted(set(WORDS) - set(consts)))))
        other = max(consts.values()) + 1000
        for cname, val in list(consts.items()) + [("another status", other)]:
            found = []

            def xfer(b, i, e, st, found=found, val=val):
                if e[0] == "C":
                    args = e[1][3]
                    for k2, a in enumerate(args):
                        a = strip(a)
                        if isinstance(a, list) and a and a[0] == "s" and re.search(r"(^|[^&\w])status\s*=?\s*(%s|[A-Z])", a[1]):
                            text = a[1]
                            if "%s" in text:
                                subs = [_sv_eval(x, var, val) for x in args[k2 + 1:]]
                                strs = [x[1] for x in subs if isinstance(x, tuple)]
                                text = text.replace("%s", strs[0] if strs else "<?>", 1)
                            found.append((text, e[1][4]))
                return None

            def refine(cond, truth, st, val=val):
                v = _sv_eval(cond, var, val)
                if v is None or isinstance(v, tuple):
                    return None
                return [st] if bool(v) == truth else []

            def rsw(cond, value, allv, st, val=val):
                c = strip(cond)
                if is_var(c, name=var, kind="l"):
                    if value is None:
                        return [st] if val not in allv else []
                    return [st] if value == val else []
                return [st]
            Flow(prog, f, [(0,)], xfer, refine, rsw).run()
            res.obligations += 1
            res.nontrivial += 1
            if not found:
                if cname in WORDS:
                    raise AnalysisBroken("%s: no status text found under case %s" % (fn, cname))
                continue
            for text, loc in found:
                words = {w for w in OTHER_WORDS if w in text.replace("NOT_SOLVED", "")}
                if "<?>" in text and not words:
                    raise AnalysisBroken("%s: the status text %r is filled in from an expression the rule cannot evaluate" % (fn, text.strip()))
                want = {WORDS[cname]} if cname in WORDS else set()
                if words != want:
                    what = "/".join(sorted(words)) or "no status word"
                    key = ("%s|case %s writes %s" % (fn, cname, what)) if cname in WORDS else ("%s|default case writes %s" % (fn, what))
                    if not any(v.key == key for v in res.violations):
                        res.violations.append(Violation(rule, key, fn, short_loc(loc),
                                                        "when the status is %s the text %r is written; expected %s" % (
                                                            cname, text.strip(), ("the word " + WORDS[cname]) if cname in WORDS else "none of the three status words")))
                else:
                    res.sample({"function": fn, "status": cname, "text": text.strip()[:40]}, limit=8)
    return res


NAME_SPACE = {"colnames": "struct", "rownames": "row"}


def _eval(t, sign, arrays, zero_globals):
    """value of a pure int expression over the sign (-1, 0, 1) of the solution entries, or None"""
    t = strip(t)
    if not isinstance(t, list) or not t:
        return None
    k = const_of(t)
    if k is not None:
        return k
    if t[0] == "m" and t[2].endswith("::_mp_size"):
        p = apath(t)
        fl = fields_of(p[2])
        if (p[0] == "l" or p[0].startswith("p")) and p[1] in arrays and fl and fl[0].endswith("::_mp_num"):
            return sign
        return None
    if t[0] == "u" and t[1] == "!":
        v = _eval(t[2], sign, arrays, zero_globals)
        return None if v is None else int(not v)
    if t[0] == "u" and t[1] == "-":
        v = _eval(t[2], sign, arrays, zero_globals)
        return None if v is None else -v
    if t[0] == "b":
        a, b = _eval(t[2], sign, arrays, zero_globals), _eval(t[3], sign, arrays, zero_globals)
        if t[1] == "&&":
            if a == 0 or b == 0:
                return 0
            return None if a is None or b is None else 1
        if t[1] == "||":
            if (a is not None and a != 0) or (b is not None and b != 0):
                return 1
            return None if a is None or b is None else 0
        if a is None or b is None:
            return None
        ops = {"<": a < b, ">": a > b, "<=": a <= b, ">=": a >= b, "==": a == b, "!=": a != b}
        if t[1] in ops:
            return int(ops[t[1]])
        if t[1] == "*":
            return a * b
        return None
    if t[0] == "q":
        c = _eval(t[1], sign, arrays, zero_globals)
        if c is None:
            return None
        return _eval(t[2] if c else t[3], sign, arrays, zero_globals)
    if t[0] == "c" and callee(t) in ("mpq_equal", "mpq_cmp") and len(t[3]) == 2:
        x, z = strip(t[3][0]), strip(t[3][1])
        for u, w in ((x, z), (z, x)):
            pu = apath(u)
            if (pu[0] == "l" or pu[0].startswith("p")) and pu[1] in arrays and is_var(w) and w[2] in zero_globals:
                if callee(t) == "mpq_equal":
                    return int(sign == 0)
                return sign if u is x else -sign
        return None
    return None


ARRAY_SPACE = {"mpq_QSget_x_array": "struct", "mpq_QSget_rc_array": "struct", "mpq_QSget_pi_array": "row", "mpq_QSget_slack_array": "row"}


def _section_prints(prog, f, arrays, zero_globals):
    """{(block, idx): (array name, call)} of the value-to-text conversions of f, and for each whether it is reachable for a negative /
    zero / positive entry (finite enumeration of the sign through the CFG)"""
    prints = {}
    for b, i, c in f.calls():
        if callee(c) == "mpq_get_str" and len(c[3]) >= 3:
            t = strip(c[3][2])
            if isinstance(t, list) and t and t[0] == "i" and is_var(strip(t[1])) and strip(t[1])[2] in arrays:
                prints[(b["id"], i)] = (strip(t[1])[2], c, t[2])
    reach = {}
    for sign in (-1, 0, 1):
        def refine(cond, truth, st, sign=sign):
            v = _eval(cond, sign, arrays, zero_globals)
            if v is None:
                return None
            return [st] if bool(v) == truth else []
        fl = Flow(prog, f, [(sign,)], lambda b, i, e, st: None, refine).run()
        reach[sign] = {k for k in prints if fl.IN.get(k[0])}
    return prints, reach


def run_nzfilter(prog, fn="QSexact_print_sol", rule="R-NZFILTER"):
    res = RuleResult(rule, "each list section of QSexact_print_sol converts entry i to text exactly when it is non-zero: reachable for a "
                           "negative and for a positive entry, unreachable for a zero entry (finite enumeration of the sign through the CFG); "
                           "when the sections are printed by a helper the same is decided inside the helper, and the call passes the name "
                           "array of the value array's own index space")
    f = prog.require_fn(fn)
    getters = {}
    for b, i, c in f.calls():
        n = callee(c) or ""
        if n.startswith("mpq_QSget_") and n.endswith("_array") and len(c[3]) >= 2 and is_var(strip(c[3][1])):
            getters[strip(c[3][1])[2]] = n
    if len(getters) < 4:
        raise AnalysisBroken("%s: fewer than 4 solution arrays fetched" % fn)
    zero_globals = {"__zeroLpNum_mpq__"}
    # sections: (array in fn, function that prints it, array name inside that function, call site or None)
    sections = []
    prints, reach = _section_prints(prog, f, getters, zero_globals)
    for k, (a, c, ix) in sorted(prints.items()):
        sections.append((a, f, a, k, c, reach, None))
    for b, i, c in f.calls():
        g = prog.resolve(f, c[1]) if c[1] is not None else None
        if g is None or not g.blocks or (callee(c) or "").startswith("mpq_QS"):
            continue
        for pos, a in enumerate(c[3]):
            a = strip(a)
            if is_var(a) and a[2] in getters and pos < len(g.params):
                pn = g.params[pos][0]
                gp, gr = _section_prints(prog, g, {pn}, zero_globals)
                if not gp:
                    res.obligations += 1
                    res.violations.append(Violation(rule, "%s|section of %s has no value print" % (fn, a[2]), fn, short_loc(c[4]),
                                                    "%s is handed to %s, which never converts an entry of it to text" % (a[2], g.name)))
                for k, (an, cc, ix) in sorted(gp.items()):
                    sections.append((a[2], g, an, k, cc, gr, (c, pos, ix)))
    seen_arrays = set()
    for (a, g, an, k, c, reach, site) in sections:
        res.obligations += 1
        res.nontrivial += 1
        seen_arrays.add(a)
        problems = []
        if k not in reach[-1]:
            problems.append("a negative entry is not printed")
        if k not in reach[1]:
            problems.append("a positive entry is not printed")
        if k in reach[0]:
            problems.append("a zero entry is printed")
        if site is not None:
            call, pos, ix = site
            # the helper prints names[j] next to values[i]: same index, and the call passes the name array of the value array's space
            want_space = ARRAY_SPACE.get(getters[a])
            name_params = []
            for p2, arg in enumerate(call[3]):
                fl = fields_of(apath(arg)[2])
                if fl and fl[-1].split("::")[1] in NAME_SPACE and p2 < len(g.params):
                    name_params.append((g.params[p2][0], NAME_SPACE[fl[-1].split("::")[1]], fl[-1].split("::")[1]))
            for (npn, space, fldname) in name_params:
                if want_space and space != want_space:
                    problems.append("the %s values are listed under %s" % (want_space, fldname))
                for b2, i2, e2 in g.elements():
                    if e2[0] == "S":
                        t = strip(e2[1])
                        if isinstance(t, list) and t and t[0] == "i" and is_var(strip(t[1]), name=npn) and show(t[2]) != show(ix):
                            problems.append("name index %s differs from value index %s" % (show(t[2]), show(ix)))
            if not name_params:
                problems.append("no name array of the problem is passed along")
        if problems:
            problems = sorted(set(problems))
            res.violations.append(Violation(rule, "%s|section of %s: %s" % (fn, a, "; ".join(problems)), g.name, short_loc(c[4]),
                                            "%s: %s - the section must list precisely the non-zero entries, each next to its own name" % (show(c)[:60], "; ".join(problems))))
        else:
            res.sample({"array": a, "getter": getters[a], "printed_in": g.name, "verdict": "printed iff non-zero"})
    for a in sorted(set(getters) - seen_arrays):
        res.obligations += 1
        res.violations.append(Violation(rule, "%s|section of %s has no value print" % (fn, a), fn, short_loc(f.loc),
                                        "no conversion of %s[i] to text found" % a))
    res.counts["sections"] = len(getters)
    res.counts["value_prints"] = len(sections)
    res.floor("value prints", len(sections), 4)
    return res


def run_bgate(prog, rule="R-BGATE"):
    """-b writes a basis only where there is one.  QSexact_solver leaves a basis in the problem on the OPTIMAL routes only; for a correctly
    diagnosed INFEASIBLE / UNBOUNDED problem QSwrite_basis has nothing to write and fails, and its error became the exit status.  In
    main, every call of QSwrite_basis is dominated by a test of the solve status against QS_LP_OPTIMAL (the variable the solution-file
    switch dispatches on) or of the problem's basis pointer."""
    res = RuleResult(rule, "in esolver's main the basis file is written only behind a test of the solve status (OPTIMAL) or of the problem's basis")
    f = prog.require_fn("main", unit="esolver/esolver.c")
    sv = _status_var(f)
    dom, succ = dominators(prog, f)
    n = 0
    for b, i, c in f.calls():
        if not (callee(c) or "").endswith("QSwrite_basis"):
            continue
        n += 1
        res.obligations += 1
        res.nontrivial += 1
        ok = None
        for d in f.live:
            if d == b["id"] or d not in dom.get(b["id"], ()):
                continue
            cnd = f.blocks[d].get("c")
            if cnd is None:
                continue
            for nd in walk(cnd):
                if isinstance(nd, list) and nd and nd[0] == "b" and nd[1] in ("==", "!="):
                    for a, b_ in ((nd[2], nd[3]), (nd[3], nd[2])):
                        b0 = strip(b_)
                        if is_var(a, name=sv) and isinstance(b0, list) and b0 and b0[0] == "n" and len(b0) > 2 and b0[2] == "QS_LP_OPTIMAL":
                            ok = "behind a test of %s against QS_LP_OPTIMAL" % sv
                if isinstance(nd, list) and nd and nd[0] == "m" and nd[2].endswith("qsdata::basis"):
                    ok = ok or "behind a test of the problem's basis"
        if ok:
            res.sample({"site": "%s: %s" % (short_loc(c[4]), show(c)[:60]), "verdict": ok})
        else:
            res.violations.append(Violation(rule, "main|basis written without a test of the status", "main", short_loc(c[4]),
                                            "%s is reached for every status: for an INFEASIBLE / UNBOUNDED problem there is no basis, the call fails and its "
                                            "error becomes the exit status of a run that diagnosed the problem correctly" % show(c)[:60]))
    res.counts["basis_write_sites_in_main"] = n
    res.floor("QSwrite_basis call sites in esolver's main", n, 1)
    return res


def run_ftype(prog, rule="R-FTYPE"):
    """the file type comes from the extension of the whole path.  get_ftype (found as the function of esolver.c that tokenises its name
    parameter with EGioNParse) must split the name at its delimiters only: the tokeniser's comment set - characters that end the
    parse - has to be empty, otherwise a path with such a character (a blank in a directory or file name) is cut there, the extension
    is never seen and an LP file is read as MPS."""
    res = RuleResult(rule, "the tokeniser call that splits the file name for the extension test has an empty comment set")
    n = 0
    for f in prog.funcs.values():
        if f.live is None or not f.unit.startswith("esolver/"):
            continue
        pnames = {p_[0] for p_ in f.params if "char" in p_[1]}
        if not pnames:
            continue
        # the buffer that is tokenised holds a copy of the name parameter
        for b, i, c in f.calls():
            if (callee(c) or "") != "EGioNParse" or len(c[3]) < 4:
                continue
            copied = any((callee(c2) or "") in ("snprintf", "strncpy", "strcpy", "sprintf") and any(is_var(a, kind="p") or (is_var(a) and strip(a)[2] in pnames) for a in c2[3])
                         for b2, i2, c2 in f.calls())
            if not copied:
                continue
            n += 1
            res.obligations += 1
            res.nontrivial += 1
            cs = strip(c[3][3])
            if isinstance(cs, list) and cs and cs[0] == "s" and cs[1] == "":
                res.sample({"site": "%s %s: %s" % (short_loc(c[4]), f.name, show(c)[:70]), "verdict": "empty comment set"})
            else:
                res.violations.append(Violation(rule, "%s|file name tokenised with comment set %s" % (f.name, show(cs)[:12]), f.name, short_loc(c[4]),
                                                "%s: the fourth argument is the set of characters that end the parse; with %s a path containing one of them is cut "
                                                "there and its extension is never seen" % (show(c)[:80], show(cs)[:12])))
    res.counts["file_name_tokeniser_calls"] = n
    res.floor("tokeniser calls on a copy of the file name", n, 1)
    return res
