"""R-FREEBOTH (C12): a free non-basic variable is subject to both one-sided dual conditions.
The dual feasibility classifiers decide per non-basic column from (sign of the reduced cost, status).  The status is
only ever compared with constants, so it has a finite set of abstract values; the rule runs the path-sensitive flow of
each classifier once per status value (the status tests decided, everything else free) and compares the sets of effects
that are reachable: whatever is done for an at-lower column or for an at-upper column must also be reachable for a
free (STAT_ZERO) column - a free column is dual infeasible for a negative and for a positive reduced cost.  Stores into
the status array itself (bound flips of boxed variables) are not classification effects."""
from ..core import strip, is_var, apath, fields_of, show, short_loc, const_of, Flow, AnalysisBroken
from ..cond import atoms, SWAP
from ..result import RuleResult, Violation

CLASSIFIERS = {
    "mpq_ILLfct_check_dfeasible": "phase II verdict: used by QSexact_basis_dualstatus / _optimalstatus / QSexact_verify",
    "mpq_ILLfct_check_pIdfeasible": "phase I dual feasibility verdict",
    "mpq_ILLfct_update_dfeas": "incremental maintenance of the dual infeasibility flags",
    "compute_dualI_inf": "pricing: dual phase I infeasibility of one column",
    "compute_dualII_inf": "pricing: dual phase II infeasibility of one column",
}
STAT = {"STAT_BASIC": 1, "STAT_UPPER": 2, "STAT_LOWER": 3, "STAT_ZERO": 4}


def _is_status_array(t):
    t = strip(t)
    if isinstance(t, list) and t and t[0] == "i":
        fl = fields_of(apath(t[1])[2])
        return bool(fl) and fl[-1].endswith("::vstat")
    return False


def effects_by_status(prog, f):
    vsl = set()
    for b, i, e in f.elements():
        ps = []
        if e[0] == "A" and e[1][1] == "=" and is_var(e[1][2]):
            ps.append((strip(e[1][2])[2], e[1][3]))
        if e[0] == "D":
            ps += [(n, i2) for n, i2 in e[1] if i2 is not None]
        for n, r in ps:
            if _is_status_array(r):
                vsl.add(n)

    def subj(t):
        t = strip(t)
        return _is_status_array(t) or (is_var(t) and t[2] in vsl)
    # the constants the status is compared with must be the ones we enumerate
    seen = {}
    for bl in f.blocks.values():
        c = bl.get("c")
        if c is None:
            continue
        for l, op, r in atoms(c, True):
            for a, b_ in ((l, r), (r, l)):
                if subj(a):
                    bs = strip(b_)
                    if isinstance(bs, list) and bs and bs[0] == "n" and bs[2]:
                        seen[bs[2]] = bs[1]
    for n, v in seen.items():
        if n in STAT and STAT[n] != v:
            raise AnalysisBroken("status constant %s has value %s, expected %s" % (n, v, STAT[n]))
    E = {}
    for sname, sv in STAT.items():
        if sname == "STAT_BASIC":
            continue

        def refine(cond, truth, st, sv=sv):
            for l, op, r in atoms(cond, truth):
                for a, b_, o in ((l, r, op), (r, l, SWAP[op])):
                    if subj(a):
                        v = const_of(b_)
                        if v is None:
                            continue
                        if o == "==" and v != sv:
                            return []
                        if o == "!=" and v == sv:
                            return []
            return None

        def rsw(cond, value, allc, st, sv=sv):
            if subj(cond):
                if value is None:
                    return [st] if sv not in allc else []
                return [st] if value == sv else []
            return [st]
        fl = Flow(prog, f, [(sname,)], lambda b, i, e, st: None, refine, rsw).run()
        eff = set()
        for bid, sts in fl.IN.items():
            if not sts:
                continue
            for i, e in enumerate(f.blocks[bid]["e"]):
                if e[0] in "ACU":
                    if e[0] == "A" and _is_status_array(e[1][2]):
                        continue
                    eff.add((bid, i))
        E[sname] = eff
    return E, seen


def run(prog, rule="R-FREEBOTH"):
    res = RuleResult(rule, "in every dual feasibility classifier each effect reachable for an at-lower or an at-upper non-basic column is also "
                           "reachable for a free (STAT_ZERO) column")
    for fn, why in CLASSIFIERS.items():
        f = prog.require_fn(fn)
        E, seen = effects_by_status(prog, f)
        lo, up, ze = E["STAT_LOWER"], E["STAT_UPPER"], E["STAT_ZERO"]
        if not (lo - up) or not (up - lo):
            raise AnalysisBroken("%s: no effect distinguishes at-lower from at-upper columns any more (classifier shape not recognised)" % fn)
        res.obligations += len((lo ^ up))
        res.nontrivial += len((lo ^ up))
        miss = sorted((lo | up) - ze)
        if miss:
            which = []
            for (bid, i) in miss[:4]:
                e = f.blocks[bid]["e"][i]
                side = "at-lower" if (bid, i) in lo else "at-upper"
                which.append("%s (%s, reachable for %s)" % (show(e[1])[:80], short_loc(e[2]), side))
            e0 = f.blocks[miss[0][0]]["e"][miss[0][1]]
            side = "lower" if miss[0] in lo and miss[0] not in up else ("upper" if miss[0] in up and miss[0] not in lo else "both")
            res.violations.append(Violation(rule, "%s|free column misses the %s-side effect" % (fn.replace("mpq_", ""), side), fn, short_loc(e0[2]),
                                            "%s: a free non-basic column (STAT_ZERO) cannot reach %s; a free column is dual infeasible in "
                                            "both directions [%s]" % (fn, "; ".join(which), why)))
        else:
            res.sample({"function": fn, "role": why, "status_constants_compared": sorted(seen), "effects_lower_only": len(lo - up),
                        "effects_upper_only": len(up - lo), "verdict": "all reachable for STAT_ZERO"})
    res.floor("classifiers analysed", len(CLASSIFIERS), 5)
    return res


# ---------------------------------------------------------------------------------------------------------------------
# R-NBSYM (C05): non-basic statuses are treated alike where the library decides whether a basis / cached solution
# survives a deletion.  ILLlib_delrows keeps the basis only if every deleted row is BASIC; ILLlib_delcols only if every
# deleted column is non-basic.  The decision must not distinguish LOWER from UPPER (from FREE): same effects reachable.
NB_TABLE = {
    "mpq_ILLlib_delrows": ("ILLlp_basis::rstat", {"QS_ROW_BSTAT_LOWER": 48, "QS_ROW_BSTAT_UPPER": 50}, {"QS_ROW_BSTAT_BASIC": 49}),
    "mpq_ILLlib_delcols": ("ILLlp_basis::cstat", {"QS_COL_BSTAT_LOWER": 48, "QS_COL_BSTAT_UPPER": 50, "QS_COL_BSTAT_FREE": 51}, {"QS_COL_BSTAT_BASIC": 49}),
}


def _effects_for(prog, f, field, sv):
    def subj(t):
        t = strip(t)
        if isinstance(t, list) and t and t[0] == "i":
            fl = fields_of(apath(t[1])[2])
            return bool(fl) and fl[-1].endswith(field)
        return False

    def refine(cond, truth, st):
        for l, op, r in atoms(cond, truth):
            for a, b_, o in ((l, r, op), (r, l, SWAP[op])):
                if subj(a):
                    v = const_of(b_)
                    if v is None:
                        continue
                    if o == "==" and v != sv:
                        return []
                    if o == "!=" and v == sv:
                        return []
        return None

    def rsw(cond, value, allc, st):
        if subj(cond):
            if value is None:
                return [st] if sv not in allc else []
            return [st] if value == sv else []
        return [st]
    fl = Flow(prog, f, [(sv,)], lambda b, i, e, st: None, refine, rsw).run()
    eff = set()
    for bid, sts in fl.IN.items():
        if sts:
            for i, e in enumerate(f.blocks[bid]["e"]):
                if e[0] in "ACU":
                    eff.add((bid, i))
    return eff


def run_nbsym(prog, rule="R-NBSYM"):
    res = RuleResult(rule, "where a deletion decides whether the basis survives, all non-basic statuses (LOWER, UPPER, FREE) reach the same effects")
    for fn, (field, nb, basic) in NB_TABLE.items():
        f = prog.require_fn(fn)
        E = {n: _effects_for(prog, f, field, v) for n, v in nb.items()}
        Eb = _effects_for(prog, f, field, list(basic.values())[0])
        names = sorted(E)
        if all(E[n] == Eb for n in names):
            raise AnalysisBroken("%s: the basic status is no longer distinguished from the non-basic ones (decision not recognised)" % fn)
        res.obligations += len(names) - 1
        res.nontrivial += len(names) - 1
        ref = names[0]
        bad = [n for n in names[1:] if E[n] != E[ref]]
        if bad:
            n = bad[0]
            diff = sorted(E[n] ^ E[ref])
            e0 = f.blocks[diff[0][0]]["e"][diff[0][1]]
            res.violations.append(Violation(rule, "%s|%s treated differently from %s" % (fn.replace("mpq_", ""), n, ref), fn, short_loc(e0[2]),
                                            "%s: a deleted %s with status %s and one with status %s do not reach the same effects (%s is reachable "
                                            "for only one of them): both are non-basic, the basis / cache must be dropped alike" % (
                                                fn, "row" if "rstat" in field else "column", n, ref, show(e0[1])[:60])))
        else:
            res.sample({"function": fn, "statuses": names, "verdict": "same effects; differ from %s" % list(basic)[0]})
    return res


def run_keepcache(prog, prefix="mpq_", rule="R-KEEPCACHE"):
    """QSdelete_rows may keep the cached solution (documented waiver of R-INVAL).  That is sound exactly when every deleted row has a
    zero dual value in the cached solution - then x stays feasible and (x, pi restricted) stays optimal.  ILLlib_delrows decides it by
    testing C->pi[j]; the test must reject BOTH signs (a one-sided `0 < pi` keeps the stale solution for a binding row whose dual value
    is negative: every 'L' row of a minimisation, e.g. after QSload_basis replaced the basis the status test relies on).  The three
    outcomes of the comparison are enumerated through the condition tree (as for the gates of R-CERTDEP)."""
    from .certdep import eval_cond
    from ..core import walk, fields_of, apath, show, short_loc, strip
    from ..result import RuleResult, Violation
    res = RuleResult(rule, "the test of the cached dual value that lets ILLlib_delrows keep the cached solution rejects both signs")
    f = prog.require_fn(prefix + "ILLlib_delrows")
    n = 0
    for bid in sorted(f.live):
        b = f.blocks[bid]
        c = b.get("c")
        if c is None or b.get("t") in ("ConditionalOperator", "BinaryConditionalOperator", "SwitchStmt"):
            continue
        reads_pi = False
        for nd in walk(c):
            if nd[0] == "i":
                fl = fields_of(apath(nd[1])[2])
                if fl and fl[-1].endswith("ILLlp_cache::pi"):
                    reads_pi = True
        if not reads_pi:
            continue
        n += 1
        res.obligations += 1
        res.nontrivial += 1
        tv = tuple(eval_cond(c, r) for r in (-1, 0, 1))
        if None in tv:
            raise AnalysisBroken("R-KEEPCACHE: cannot evaluate the dual-value test %s" % show(c)[:80])
        if bool(tv[0]) == bool(tv[2]) and bool(tv[0]) != bool(tv[1]):
            res.sample({"site": short_loc(b.get("tloc") or f.loc), "test": show(c)[:70], "verdict": "distinguishes zero from both signs"})
        else:
            res.violations.append(Violation(rule, "ILLlib_delrows|one-sided test of the cached dual value", f.name, short_loc(b.get("tloc") or f.loc),
                                            "%s treats the outcomes (<, =, >) as %s: a deleted row whose cached dual value has the other sign is taken for a "
                                            "row with zero dual value and the cached solution is kept although it is no longer optimal" % (show(c)[:90], tv)))
    res.floor("tests of the cached dual value in ILLlib_delrows", n, 1)
    return res
