"""R-CERTDEP (C01, C02): the exact tests examine every clause of the certificate for every class of variable.

R-MARK decides that a failed check cannot fall through to the success marker.  This rule decides that the checks are
*there*: a forward may-dataflow over the CFG of QSexact_optimal_test / QSexact_infeasible_test computes, for every GMP
number, the set of LP data it is computed from (leaves such as lower@col:struct, upper@col:logical, rhs@row,
matval@col:struct, x@struct, x@lgl, y@row), with flow-sensitive resolution of the re-used array aliases (arr2 is
'lower' in one loop and 'obj' in the next) and an index-space tag for every subscript.  Comparison blocks ("gates")
are classified by enumerating the three outcomes of the comparison (<, =, >) through the condition tree and by which
edge can still reach the success marker.  Obligations (each a necessary condition of a sound certificate):

 optimal test
  P-BND   for both classes of variables (structural, logical) and both sides: every value of x that can reach the
          marker was ordered against the bound of its own column - per loop iteration every path passes an ordering
          gate (failing, or clamping x to the bound) or overwrites x with a bound of its column; a bound may only be
          written into x below a gate that rejects lower > upper; a later non-bound write to x needs its own gates.
  P-ROW   per row every path passes an equality gate (or a defining write of the logical) that depends on rhs, the
          structural part A x, the logical value and its coefficient.
  P-CS    per variable of each class every path passes, for each side, an equality gate failing on both signs that
          depends on x, that bound, the objective, the matrix column and the duals.
  P-OBJ   the last gate before the marker fails on both signs of (primal - dual objective) and depends on every
          ingredient of both objective values, the bounds of both classes included.
 infeasible test
  I-OBJ   the last gate before the marker is an ordering gate that fails on 'not positive' and depends on rhs, y,
          the matrix and the lower and upper bounds of all internal columns (one loop over ncols, or both classes).
  I-INF   per internal column every path passes, for each side, an equality gate of that bound with the infinity
          sentinel whose taken edge leads to a test of the bound's multiplier.
Only the presence, coverage (index space, all iterations, all paths) and dependence of the checks is decided - not the
arithmetic inside them."""
import collections

from ..core import walk, strip, is_var, const_of, callee, apath, fields_of, show, short_loc, dominators, AnalysisBroken
from ..result import RuleResult, Violation

DIM_FIELDS = {"nstruct": "struct", "nrows": "row", "ncols": "col", "matrows": "row", "matcols": "col"}
LP_ARRAYS = {"lower", "upper", "obj", "rhs", "rangeval", "matval", "matind", "matbeg", "matcnt", "structmap", "rowmap", "sense"}
GMP_WRITE = {"mpq_set": (0, (1,)), "mpq_add": (0, (1, 2)), "mpq_sub": (0, (1, 2)), "mpq_mul": (0, (1, 2)), "mpq_div": (0, (1, 2)),
             "mpq_neg": (0, (1,)), "mpq_abs": (0, (1,)), "mpq_inv": (0, (1,)), "mpq_set_ui": (0, ()), "mpq_set_si": (0, ()),
             "mpq_init": (0, ()), "mpq_canonicalize": (0, (0,)), "mpq_set_z": (0, (1,)), "mpq_mul_2exp": (0, (1,)), "mpq_div_2exp": (0, (1,))}
GMP_IGNORE = {"mpq_clear", "mpq_get_d", "mpq_get_str", "mpq_cmp", "mpq_equal", "mpq_cmp_ui", "mpq_cmp_si", "mpq_sgn", "mpz_cmp", "mpz_sgn",
              "__builtin_constant_p", "mpq_EGlpNumToLf"}
Q = "?"


def fs(*a):
    return frozenset(a)


class State:
    __slots__ = ("ptr", "itag", "dep", "cp")

    def __init__(self, ptr=None, itag=None, dep=None, cp=None):
        self.ptr, self.itag, self.dep, self.cp = ptr or {}, itag or {}, dep or {}, cp or {}

    def copy(self):
        return State(dict(self.ptr), dict(self.itag), dict(self.dep), dict(self.cp))

    def join(self, o):
        ch = False
        for mine, other in ((self.ptr, o.ptr), (self.itag, o.itag), (self.dep, o.dep), (self.cp, o.cp)):
            for k, v in other.items():
                cur = mine.get(k)
                if cur is None:
                    mine[k] = v
                    ch = True
                elif not v <= cur:
                    mine[k] = cur | v
                    ch = True
        return ch


class Dep:
    """forward may-dataflow of pointer targets, index tags and data dependences of one function"""

    def __init__(self, prog, f, roles, bind=None, depth=0):
        self.prog, self.f, self.roles = prog, f, roles        # roles: param name -> leaf name ('x', 'y')
        self.bind = bind or {}                                # helper analysis: param name -> ('cell', deps, direct) | ('ptr', targets) | ('int', tags)
        self.depth = depth
        self.IN = {}
        self.gmp_locals = {n for n, t in f.ltypes.items() if t and t.startswith(("mpq_t", "__mpq_struct[1]")) and "*" not in t}
        self.param_cells = {n for n, v in self.bind.items() if v[0] == "cell"}
        self.run()

    # ---- index tags
    def dim_of(self, t):
        t = strip(t)
        if isinstance(t, list) and t and t[0] == "m":
            fld = t[2].split("::")[1]
            if fld in DIM_FIELDS:
                return DIM_FIELDS[fld]
        return None

    def tag(self, t, st):
        """set of tags of an int expression"""
        t = strip(t)
        if not isinstance(t, list) or not t:
            return fs(Q)
        if const_of(t) is not None:
            return fs("Z" if const_of(t) == 0 else "K")
        d = self.dim_of(t)
        if d:
            return fs("D:" + d)
        if is_var(t):
            if t[1] == "l" or (t[1].startswith("p") and t[2] in st.itag):
                return st.itag.get(t[2], fs(Q))
            return fs(Q)
        if t[0] == "i":
            out = set()
            for (arr, base) in self.targets(t[1], st):
                for it in self.tag(t[2], st):
                    if arr == "structmap" and it == "struct":
                        out.add("col:struct")
                    elif arr == "rowmap" and it == "row":
                        out.add("col:logical")
                    elif arr == "matind":
                        out.add("row")
                    elif arr == "matbeg":
                        out.add("nz:" + it)
                    elif arr == "matcnt":
                        out.add("D:nz")
                    else:
                        out.add(Q)
            return frozenset(out) or fs(Q)
        if t[0] == "b" and t[1] == "+":
            a, b = self.tag(t[2], st), self.tag(t[3], st)
            out = set()
            for x in a:
                for y in b:
                    if {x, y} == {"row", "D:struct"}:
                        out.add("lgl")
                    elif x in ("Z",):
                        out.add(y)
                    elif y in ("Z",):
                        out.add(x)
                    else:
                        out.add(Q)
            return frozenset(out)
        if t[0] == "u" and t[1] in ("--post", "++post", "--pre", "++pre"):
            return self.step(self.tag(t[2], st), t[1])
        if t[0] == "a":
            return self.tag(t[3], st) if t[1] == "=" else fs(Q)
        return fs(Q)

    @staticmethod
    def step(tags, op):
        out = set()
        for x in tags:
            if x.startswith("D:") and op.startswith("--"):
                out.add(x[2:])
            elif x in ("Z", "K") or x.startswith("D:"):
                out.add(Q if not op.startswith("++") or x != "Z" else "Z+")
            else:
                out.add(x)
        return frozenset(out)

    # ---- pointer targets: set of (array leaf name, base tag or None)
    def targets(self, t, st):
        t = strip(t)
        if not isinstance(t, list) or not t:
            return fs()
        if is_var(t):
            if t[1] == "l":
                return st.ptr.get(t[2], fs())
            if t[1].startswith("p"):
                nm = t[2]
                if nm in st.ptr:
                    return st.ptr[nm]
                return fs((self.roles.get(nm, "P:" + nm), None))
            return fs()
        if t[0] == "m":
            fld = t[2].split("::")[1]
            return fs((fld, None))
        if t[0] == "b" and t[1] == "+":
            for a, o in ((t[2], t[3]), (t[3], t[2])):
                ta = self.targets(a, st)
                if ta:
                    tg = self.tag(o, st)
                    return frozenset((arr, x) for (arr, b) in ta for x in tg)
            return fs()
        if t[0] == "u" and t[1] == "&":
            inner = strip(t[2])
            if isinstance(inner, list) and inner and inner[0] == "i":
                ta = self.targets(inner[1], st)
                tg = self.tag(inner[2], st)
                return frozenset((arr, x) for (arr, b) in ta for x in tg)
        if t[0] == "se" or t[0] == "k":
            return self.targets(strip(t), st)
        if t[0] == "q":
            return self.targets(t[2], st) | self.targets(t[3], st)
        return fs()

    # ---- GMP operands: leaves read / cells written
    def operand(self, t, st):
        """-> (kind, names): ('cell', {local scalar}) or ('leaf', {leaf strings})"""
        t = strip(t)
        if is_var(t):
            if t[1] == "l" and t[2] in self.gmp_locals:
                return ("cell", fs(t[2]))
            if t[1].startswith("p") and t[2] in self.param_cells:
                return ("cell", fs(t[2]))
            if t[1] in ("g", "sg"):
                return ("leaf", fs("G:" + t[2]))
            if t[1] == "l":      # pointer to a number: *p
                return ("leaf", frozenset("%s@%s" % (a, b if b else Q) for a, b in st.ptr.get(t[2], fs())) or fs(Q))
            return ("leaf", fs(Q))
        if isinstance(t, list) and t and t[0] == "i":
            out = set()
            tg = self.tag(t[2], st)
            for (arr, base) in self.targets(t[1], st):
                if base is not None:       # pointer into a column of the matrix: arr1 = matval + matbeg[col]
                    out.add("%s@%s" % (arr, base.replace("nz:", "")))
                else:
                    for x in tg:
                        out.add("%s@%s" % (arr, x.replace("nz:", "")))
            return ("leaf", frozenset(out) or fs(Q))
        if isinstance(t, list) and t and t[0] == "m":      # p->cache->val
            return ("leaf", fs("F:" + t[2].split("::")[1]))
        return ("leaf", fs(Q))

    def read(self, t, st):
        k, names = self.operand(t, st)
        out = set()
        for n in names:
            if k == "cell":
                out |= st.dep.get(n, fs())
            else:
                out.add(n)
                out |= st.dep.get("A:" + n, fs())
        return frozenset(out)

    def direct(self, t, st):
        """what a value IS (not merely depends on): the leaf itself, or the leaves a scalar is a copy of"""
        k, names = self.operand(t, st)
        if k == "leaf":
            return names
        out = set()
        for n in names:
            out |= st.cp.get(n, fs())
        return frozenset(out)

    # ---- transfer
    def xfer(self, e, st):
        k = e[0]
        if k == "D":
            for name, init in e[1]:
                self.assign_local(name, init, st)
        elif k == "A":
            t = e[1]
            lhs = strip(t[2])
            if is_var(lhs, kind="l"):
                if t[1] == "=":
                    self.assign_local(lhs[2], t[3], st)
                else:
                    st.itag[lhs[2]] = fs(Q)
        elif k == "U":
            t = e[1]
            if t[1][:2] in ("++", "--") and is_var(t[2], kind="l"):
                n = strip(t[2])[2]
                st.itag[n] = self.step(st.itag.get(n, fs(Q)), t[1])
        elif k == "C":
            self.call(e[1], st)

    def assign_local(self, name, rhs, st):
        ty = self.f.ltypes.get(name) or ""
        if rhs is None:
            return
        if "*" in ty or "(*)" in ty:
            tg = self.targets(rhs, st)
            r = strip(rhs)
            if not tg and isinstance(r, list) and r and r[0] in ("se", "c", "k", "q", "v"):
                tg = fs(("L:" + name, None))          # freshly allocated local array (EGlpNumAllocArray statement expression)
            if const_of(rhs) == 0:
                tg = fs()
            st.ptr[name] = tg
        elif name in self.gmp_locals:
            return
        else:
            st.itag[name] = self.tag(rhs, st)

    def call(self, c, st):
        n = callee(c)
        args = c[3]
        if n in GMP_WRITE and args:
            di, srcs = GMP_WRITE[n]
            deps = set()
            for s in srcs:
                if s < len(args):
                    deps |= self.read(args[s], st)
            k, names = self.operand(args[di], st)
            if k == "cell":
                for nm in names:
                    st.dep[nm] = frozenset(deps)
                    st.cp[nm] = self.direct(args[1], st) if (n == "mpq_set" and len(args) > 1) else fs()
            else:
                for nm in names:
                    key = "A:" + nm
                    st.dep[key] = st.dep.get(key, fs()) | frozenset(deps)
            return
        if n in GMP_IGNORE or n is None:
            return
        g = self.prog.resolve(self.f, c[1]) if c[1] is not None else None
        if g is not None and g.blocks and g.live is not None and self.depth < 2 and g.key != self.f.key:
            # a helper of the test: analyse it with the caller's bindings and take over what it leaves in the numbers it was handed
            bind, back = {}, []
            for k2, a in enumerate(args):
                if k2 >= len(g.params):
                    break
                pn, pty = g.params[k2][0], g.params[k2][2]
                if "__mpq_struct *" in pty and "(*)" not in pty:
                    kind, names = self.operand(a, st)
                    bind[pn] = ("cell", self.read(a, st), self.direct(a, st))
                    back.append((pn, kind, names))
                elif "*" in pty:
                    bind[pn] = ("ptr", self.targets(a, st))
                else:
                    bind[pn] = ("int", self.tag(a, st))
            if back:
                key = (g.key, tuple(sorted((k3, v[0], tuple(sorted(map(str, v[1])))) for k3, v in bind.items())))
                memo = self.prog.__dict__.setdefault("_certdep_helper_memo", {})
                if key not in memo:
                    sub = Dep(self.prog, g, self.roles, bind=bind, depth=self.depth + 1)
                    memo[key] = sub.IN.get(g.exit) or State()
                out = memo[key]
                for (pn, kind, names) in back:
                    deps = out.dep.get(pn, fs())
                    if kind == "cell":
                        for nm in names:
                            st.dep[nm] = deps
                            st.cp[nm] = out.cp.get(pn, fs())
                    else:
                        for nm in names:
                            st.dep["A:" + nm] = st.dep.get("A:" + nm, fs()) | deps
                # arrays the helper wrote through pointers it was handed
                for k3, v in out.dep.items():
                    if k3.startswith("A:"):
                        st.dep[k3] = st.dep.get(k3, fs()) | v
                return
        # any other callee given the address of a local number: unknown contents
        for a in args:
            k, names = self.operand(a, st)
            if k == "cell":
                for nm in names:
                    st.dep[nm] = st.dep.get(nm, fs()) | fs(Q)
                    st.cp[nm] = fs()

    def refine(self, cond, truth, st):
        """i < dim on the true edge, dim > i ..."""
        c = strip(cond)
        if isinstance(c, list) and c and c[0] == "b" and c[1] in ("<", ">"):
            a, b = (c[2], c[3]) if c[1] == "<" else (c[3], c[2])
            a = strip(a)
            if truth and is_var(a, kind="l"):
                d = self.tag(b, st)
                dims = {x[2:] for x in d if x.startswith("D:")}
                cur = st.itag.get(a[2], fs(Q))
                if len(dims) == 1 and cur <= {"Z", "Z+", list(dims)[0]}:
                    st.itag[a[2]] = fs(list(dims)[0])
        return st

    def run(self):
        f, prog = self.f, self.prog
        st0 = State()
        for nm, v in self.bind.items():
            if v[0] == "cell":
                st0.dep[nm] = v[1]
                st0.cp[nm] = v[2]
            elif v[0] == "ptr":
                st0.ptr[nm] = v[1]
            elif v[0] == "int":
                st0.itag[nm] = v[1]
        self.IN[f.entry] = st0
        wl = collections.deque([f.entry])
        n = 0
        while wl:
            bid = wl.popleft()
            n += 1
            if n > 20000:
                raise AnalysisBroken("R-CERTDEP: dependence dataflow did not converge in %s" % f.name)
            b = f.blocks[bid]
            st = self.IN[bid].copy()
            for e in b["e"]:
                self.xfer(e, st)
            if b.get("noret"):
                continue
            succs = prog.live_succs(f, b)
            for idx, s in enumerate(succs):
                if s is None:
                    continue
                o = st
                if len(succs) == 2 and b.get("c") is not None and b.get("t") != "SwitchStmt":
                    o = self.refine(b["c"], idx == 0, st.copy())
                if s not in self.IN:
                    self.IN[s] = o.copy()
                    wl.append(s)
                elif self.IN[s].join(o):
                    wl.append(s)

    def at_end(self, bid):
        st = (self.IN.get(bid) or State()).copy()
        for e in self.f.blocks[bid]["e"]:
            self.xfer(e, st)
        return st

    def states_in(self, bid):
        """yield (element, state before it)"""
        if bid not in self.IN:          # not reached by the dataflow (behind a non-returning block)
            return
        st = self.IN[bid].copy()
        for e in self.f.blocks[bid]["e"]:
            yield e, st
            self.xfer(e, st)


# ------------------------------------------------------------------ gates

def eval_cond(t, r):
    """truth value of a condition tree when the (single) comparison in it has outcome r in {-1, 0, 1}; None if unknown"""
    t = strip(t)
    if not isinstance(t, list) or not t:
        return None
    k = const_of(t)
    if k is not None:
        return k
    h = t[0]
    if h == "c":
        n = callee(t)
        if n in ("mpq_cmp", "mpz_cmp"):
            return r
        if n == "mpq_equal":
            return int(r == 0)
        if n in ("mpq_cmp_ui", "mpq_cmp_si", "_mpq_cmp_ui", "_mpq_cmp_si"):
            if len(t[3]) >= 2 and const_of(t[3][1]) == 0:
                return r
            return None
        if n in ("mpq_sgn", "mpz_sgn"):
            return r
        return None
    if h == "m" and t[2].endswith("::_mp_size"):
        return r
    if h == "u":
        v = eval_cond(t[2], r)
        if v is None:
            return None
        return {"!": int(not v), "-": -v, "+": v}.get(t[1])
    if h == "q":
        c = eval_cond(t[1], r)
        if c is None:
            a, b = eval_cond(t[2], r), eval_cond(t[3], r)
            return a if a == b else None
        return eval_cond(t[2], r) if c else eval_cond(t[3], r)
    if h == "b":
        a, b = eval_cond(t[2], r), eval_cond(t[3], r)
        op = t[1]
        if op == "&&":
            if a == 0 or b == 0:
                return 0
            return None if a is None or b is None else 1
        if op == "||":
            if (a not in (None, 0)) or (b not in (None, 0)):
                return 1
            return None if a is None or b is None else 0
        if a is None or b is None:
            return None
        try:
            return int({"==": a == b, "!=": a != b, "<": a < b, "<=": a <= b, ">": a > b, ">=": a >= b}[op])
        except KeyError:
            try:
                return {"+": a + b, "-": a - b, "*": a * b}[op]
            except KeyError:
                return None
    return None


class Gate:
    __slots__ = ("bid", "loc", "ops", "truth", "fail", "text", "deps", "direct")


def find_gates(prog, f, D, marker_bid):
    """comparison blocks: operands (in order), truth vector, failing successor index"""
    reach_marker = {}

    def can_reach(src):
        if src in reach_marker:
            return reach_marker[src]
        seen, wl = {src}, [src]
        ok = False
        while wl:
            x = wl.pop()
            if x == marker_bid:
                ok = True
                break
            for s in prog.live_succs(f, f.blocks[x]):
                if s is not None and s not in seen:
                    seen.add(s)
                    wl.append(s)
        reach_marker[src] = ok
        return ok
    gates = {}
    for bid in f.live:
        b = f.blocks[bid]
        c = b.get("c")
        if c is None or b.get("t") in ("SwitchStmt", "ConditionalOperator", "BinaryConditionalOperator"):
            continue
        succs = prog.live_succs(f, b)
        if len(succs) != 2:
            continue
        ops = []
        for nd in walk(c):
            if nd[0] == "c" and callee(nd) in ("mpq_cmp", "mpq_equal") and len(nd[3]) == 2:
                ops = [nd[3][0], nd[3][1]]
                break
        if not ops:
            seen = []
            for nd in walk(c):
                if nd[0] == "m" and nd[2].endswith("::_mp_size"):
                    base = strip(nd[1])
                    if isinstance(base, list) and base and base[0] == "m" and base[2].endswith("::_mp_num"):
                        x = strip(base[1])
                        if x not in seen:
                            seen.append(x)
            if len(seen) == 1:
                ops = [seen[0]]
        if not ops:
            continue
        st = D.at_end(bid)
        g = Gate()
        g.bid, g.loc, g.ops, g.text = bid, short_loc(b.get("tloc") or f.loc), ops, show(c)[:90]
        g.truth = tuple(eval_cond(c, r) for r in (-1, 0, 1))
        g.deps = [D.read(o, st) for o in ops]
        g.direct = [D.direct(o, st) for o in ops]
        r0, r1 = (succs[0] is not None and can_reach(succs[0])), (succs[1] is not None and can_reach(succs[1]))
        g.fail = 0 if (not r0 and r1) else 1 if (r0 and not r1) else None
        gates[bid] = g
    return gates


def fail_outcomes(g):
    """set of comparison outcomes (-1, 0, 1) on which the gate takes its failing edge; None if not a failing gate / unknown"""
    if g.fail is None or any(v is None for v in g.truth):
        return None
    return {r for r, v in zip((-1, 0, 1), g.truth) if (bool(v) and g.fail == 0) or (not v and g.fail == 1)}


# ------------------------------------------------------------------ loops

def natural_loops(prog, f):
    dom, succ = dominators(prog, f)
    loops = {}
    preds = collections.defaultdict(set)
    for a, ss in succ.items():
        for s in ss:
            preds[s].add(a)
    for a, ss in succ.items():
        for h in ss:
            if h in dom.get(a, ()):
                body = loops.setdefault(h, {h})
                wl = [a]
                while wl:
                    x = wl.pop()
                    if x not in body:
                        body.add(x)
                        wl.extend(preds[x])
    return loops, dom, succ


def iteration_avoids(f, succ, loops, h, S, marker_ok, start=None):
    """can one iteration of loop h be completed (back to h), or the loop be left towards the marker, without passing a block of S?
    start: blocks to start from (default: the body successors of the header)"""
    body = loops[h]
    src = list(start) if start is not None else [s for s in succ[h] if s in body and s != h]
    seen, wl = set(), [s for s in src if s not in S]
    seen.update(wl)
    while wl:
        x = wl.pop()
        for s in succ[x]:
            if s == h:
                return ("back", x)
            if s not in body:
                if marker_ok(s):
                    return ("exit", x)
                continue
            if s in S or s in seen:
                continue
            seen.add(s)
            wl.append(s)
    return None


# ------------------------------------------------------------------ the rule

CLASSES = {"struct": ("$x@struct", "col:struct"), "lgl": ("$x@lgl", "col:logical")}


def run(prog, which=("QSexact_optimal_test", "QSexact_infeasible_test"), rule="R-CERTDEP"):
    res = RuleResult(rule, "the exact tests order every primal value against both bounds of its own column, test every row, every "
                           "complementary-slackness product and the objective equality (optimal test), resp. the sign of the Farkas value and "
                           "the infinite-bound multipliers of every internal column (infeasible test), on every path and iteration, and these "
                           "gates depend on the LP data they must depend on")
    for fn in which:
        f = prog.require_fn(fn)
        numparams = [p[0] for p in f.params if "mpq_t *" in p[1] or "__mpq_struct (*)" in p[2]]
        if fn == "QSexact_optimal_test":
            if len(numparams) < 2:
                raise AnalysisBroken("%s: expected the primal and dual vectors as parameters" % fn)
            roles = {numparams[0]: "$x", numparams[1]: "$y"}
            marker_val = "QS_LP_OPTIMAL"
        else:
            if len(numparams) < 1:
                raise AnalysisBroken("%s: expected the dual vector as parameter" % fn)
            roles = {numparams[0]: "$y"}
            marker_val = "QS_LP_INFEASIBLE"
        marker = None
        for b, i, e in f.elements():
            if e[0] == "A" and e[1][1] == "=":
                fl = fields_of(apath(e[1][2])[2])
                rhs = strip(e[1][3])
                if len(fl) == 1 and fl[0].endswith("qsdata::qstatus") and isinstance(rhs, list) and rhs[0] == "n" and rhs[2] == marker_val:
                    marker = b["id"]
        if marker is None:
            raise AnalysisBroken("%s: success marker (p->qstatus = %s) not found" % (fn, marker_val))
        D = Dep(prog, f, roles)
        gates = find_gates(prog, f, D, marker)
        loops, dom, succ = natural_loops(prog, f)
        mreach = {}

        def marker_ok(s):
            if s not in mreach:
                seen, wl, ok = {s}, [s], False
                while wl:
                    x = wl.pop()
                    if x == marker:
                        ok = True
                        break
                    for y in succ.get(x, ()):
                        if y not in seen:
                            seen.add(y)
                            wl.append(y)
                mreach[s] = ok
            return mreach[s]
        res.counts[fn] = {"gates": len(gates), "failing_gates": sum(1 for g in gates.values() if g.fail is not None), "loops": len(loops)}
        res.floor("comparison gates in %s" % fn, len(gates), 15 if fn == "QSexact_optimal_test" else 4)
        ctx = dict(prog=prog, f=f, D=D, gates=gates, loops=loops, dom=dom, succ=succ, marker=marker, marker_ok=marker_ok, res=res, rule=rule, fn=fn)
        if fn == "QSexact_optimal_test":
            check_optimal(ctx)
        else:
            check_infeasible(ctx)
    return res


def _viol(ctx, key, loc, msg):
    res = ctx["res"]
    k = "%s|%s" % (ctx["fn"].replace("QSexact_", ""), key)
    if not any(v.key == k for v in res.violations):
        res.violations.append(Violation(ctx["rule"], k, ctx["fn"], loc, msg))


def _loops_dominating_marker(ctx):
    return [h for h in ctx["loops"] if h in ctx["dom"].get(ctx["marker"], ())]


def _has(deps, leaf):
    """leaf pattern: 'lower@col:struct'; 'upper@col*' = col, or both classes"""
    if leaf.endswith("@col*"):
        a = leaf[:-5]
        return (a + "@col") in deps or ((a + "@col:struct") in deps and (a + "@col:logical") in deps)
    return leaf in deps


def _missing(deps, need):
    return [l for l in need if not _has(deps, l)]


def _bound_writes(ctx):
    """blocks that overwrite x@class with a bound of the same column: {(class): {bid: side}} ; other writes to x: list"""
    D, f = ctx["D"], ctx["f"]
    bw = collections.defaultdict(dict)
    other = collections.defaultdict(list)
    for bid in f.live:
        for e, st in D.states_in(bid):
            if e[0] != "C":
                continue
            c = e[1]
            n = callee(c)
            if n not in GMP_WRITE or not c[3]:
                continue
            k, names = D.operand(c[3][GMP_WRITE[n][0]], st)
            if k != "leaf":
                continue
            for cls, (xleaf, colcls) in CLASSES.items():
                if xleaf in names:
                    src = D.direct(c[3][1], st) if n == "mpq_set" and len(c[3]) > 1 else fs()
                    sides = {s for s in ("lower", "upper") if ("%s@%s" % (s, colcls)) in src}
                    if sides and len(src) == 1:
                        bw[cls][bid] = list(sides)[0]
                    else:
                        other[cls].append((bid, short_loc(c[4]), show(c)[:80]))
    return bw, other


def check_optimal(ctx):
    res, gates, loops, succ, dom, f, D = ctx["res"], ctx["gates"], ctx["loops"], ctx["succ"], ctx["dom"], ctx["f"], ctx["D"]
    marker, marker_ok = ctx["marker"], ctx["marker_ok"]
    bw, other = _bound_writes(ctx)
    domloops = _loops_dominating_marker(ctx)
    # ---- P-BND
    for cls, (xleaf, colcls) in CLASSES.items():
        # gate rejecting lower > upper for this class
        g0 = [g for g in gates.values() if len(g.ops) == 2 and ("lower@" + colcls) in g.direct[0] | g.direct[1]
              and ("upper@" + colcls) in g.direct[0] | g.direct[1] and fail_outcomes(g) is not None]
        g0ok = []
        for g in g0:
            fo = fail_outcomes(g)
            lo_first = ("lower@" + colcls) in g.direct[0]
            if (1 if lo_first else -1) in fo:
                g0ok.append(g)
        for bid, side in bw[cls].items():
            res.obligations += 1
            res.nontrivial += 1
            if not any(g.bid in dom.get(bid, ()) for g in g0ok):
                _viol(ctx, "bound written into %s without a dominating lower<=upper gate" % xleaf, short_loc(f.blocks[bid]["e"][0][2]) if f.blocks[bid]["e"] else "?",
                      "a %s bound is written into %s, but no gate that rejects lower > upper for that column class dominates the write: with an "
                      "empty bound interval the clamped value violates the other bound and is still certified" % (side, xleaf))
        S = {}
        for side in ("lower", "upper"):
            bleaf = "%s@%s" % (side, colcls)
            good = set(bw[cls])
            for g in gates.values():
                if len(g.ops) != 2:
                    continue
                if xleaf in g.direct[0] and bleaf in g.direct[1]:
                    want = 1 if side == "upper" else -1
                elif xleaf in g.direct[1] and bleaf in g.direct[0]:
                    want = -1 if side == "upper" else 1
                else:
                    continue
                fo = fail_outcomes(g)
                if fo is not None:
                    if want in fo:
                        good.add(g.bid)
                    continue
                # clamp: the edge taken on the violating outcome leads straight to the bound write
                if any(v is None for v in g.truth):
                    continue
                viol_edge = 0 if g.truth[(-1, 0, 1).index(want)] else 1
                ss = ctx["prog"].live_succs(f, f.blocks[g.bid])
                tgt = ss[viol_edge] if viol_edge < len(ss) else None
                if tgt is not None and bw[cls].get(tgt) == side:
                    good.add(g.bid)
            S[side] = good
        for side in ("lower", "upper"):
            res.obligations += 1
            res.nontrivial += 1
            okloops = [h for h in domloops if any(b in loops[h] for b in S[side]) and
                       iteration_avoids(f, succ, loops, h, S[side], marker_ok) is None]
            if not okloops:
                cand = [h for h in domloops if any(b in loops[h] for b in S[side])]
                why = ""
                if cand:
                    r = iteration_avoids(f, succ, loops, cand[0], S[side], marker_ok)
                    why = " (an iteration of the loop at %s can be %s without passing such a gate, e.g. through the block at %s)" % (
                        short_loc(f.blocks[cand[0]].get("tloc") or ""), "completed" if r[0] == "back" else "left towards the marker",
                        _bloc(f, r[1]))
                _viol(ctx, "%s is not ordered against its %s bound on every path" % (xleaf, side), short_loc(f.loc),
                      "no loop in front of the success marker orders every %s against %s on all paths of an iteration (failing gate, clamp, or "
                      "overwrite with a bound)%s: a point outside that bound can be certified OPTIMAL" % (xleaf, "%s@%s" % (side, colcls), why))
            else:
                res.sample({"obligation": "P-BND %s vs %s" % (xleaf, side), "verdict": "loop at %s: every iteration passes one of %d gate / bound-write blocks" % (
                    _bloc(f, okloops[0]), len(S[side]))}, limit=20)
            # later non-bound writes need their own gates after them
            for (wb, wloc, wtxt) in other[cls]:
                res.obligations += 1
                res.nontrivial += 1
                inner = [h for h in loops if wb in loops[h]]
                inner.sort(key=lambda h: len(loops[h]))
                covered = False
                if inner:
                    h = inner[0]
                    st = [s for s in succ[wb]]
                    if wb in S[side]:
                        covered = True
                    elif iteration_avoids(f, succ, loops, h, S[side], marker_ok, start=st) is None:
                        covered = True
                if not covered:
                    # an OK loop strictly after the write
                    for h in okloops:
                        if _reaches(succ, wb, h) and not _reaches(succ, h, wb):
                            covered = True
                if not covered:
                    _viol(ctx, "%s recomputed without a later %s-bound gate" % (xleaf, side), wloc,
                          "%s writes %s and on some path from there to the success marker the new value is never ordered against %s@%s: a "
                          "point outside that bound can be certified OPTIMAL" % (wtxt, xleaf, side, colcls))
    # ---- P-ROW
    need_row = ["rhs@row", "$x@struct", "matval@col:struct", "$x@lgl", "matval@col:logical"]
    S = set()
    for g in gates.values():
        fo = fail_outcomes(g)
        if fo is None or not {-1, 1} <= fo:
            continue
        alld = frozenset().union(*g.deps)
        if not _missing(alld, need_row) and not any(l.startswith(("$y@", "obj@")) for l in alld):      # a purely primal test
            S.add(g.bid)
    for bid in f.live:
        for e, st in D.states_in(bid):
            if e[0] == "C" and callee(e[1]) in GMP_WRITE and e[1][3]:
                k, names = D.operand(e[1][3][0], st)
                if k == "leaf" and "$x@lgl" in names:
                    deps = frozenset().union(*[D.read(a, st) for a in e[1][3][1:]]) if len(e[1][3]) > 1 else fs()
                    if not _missing(deps | fs("$x@lgl"), need_row) and not any(l.startswith(("$y@", "obj@")) for l in deps):
                        S.add(bid)
    res.obligations += 1
    res.nontrivial += 1
    ok = [h for h in _loops_dominating_marker(ctx) if any(b in loops[h] for b in S) and iteration_avoids(f, succ, loops, h, S, marker_ok) is None]
    if not ok:
        _viol(ctx, "row equations not tested on every path", short_loc(f.loc),
              "no loop in front of the success marker passes, on every path of an iteration, an equality gate (failing on both signs) or a defining "
              "write of the logical that depends on %s: A x + s = b is not established for every row" % ", ".join(need_row))
    else:
        res.sample({"obligation": "P-ROW", "verdict": "loop at %s: every iteration tests or defines the row equation" % _bloc(f, ok[0])}, limit=20)
    # ---- P-CS
    for cls, (xleaf, colcls) in CLASSES.items():
        for side in ("lower", "upper"):
            need = [xleaf, "%s@%s" % (side, colcls), "obj@" + colcls, "matval@" + colcls, "$y@row"]
            S = set()
            for g in gates.values():
                fo = fail_outcomes(g)
                if fo is None or not {-1, 1} <= fo:
                    continue
                if not _missing(frozenset().union(*g.deps), need):
                    S.add(g.bid)
            res.obligations += 1
            res.nontrivial += 1
            ok = [h for h in _loops_dominating_marker(ctx) if any(b in loops[h] for b in S) and iteration_avoids(f, succ, loops, h, S, marker_ok) is None]
            if not ok:
                _viol(ctx, "complementary slackness of %s with its %s bound not tested on every path" % (xleaf, side), short_loc(f.loc),
                      "no loop in front of the success marker passes, on every path of an iteration, an equality gate failing on both signs that "
                      "depends on %s: a primal-dual pair violating complementary slackness / dual feasibility at that bound can be certified" % ", ".join(need))
            else:
                res.sample({"obligation": "P-CS %s %s" % (xleaf, side), "verdict": "loop at %s, %d gate blocks" % (_bloc(f, ok[0]), len(S))}, limit=20)
    # ---- P-OBJ
    need_obj = ["obj@col:struct", "$x@struct", "rhs@row", "$y@row", "matval@col:struct", "matval@col:logical",
                "lower@col:struct", "upper@col:struct", "lower@col:logical", "upper@col:logical"]
    res.obligations += 1
    res.nontrivial += 1
    last = _last_gate(ctx)
    if last is None:
        _viol(ctx, "no gate dominates the success marker", short_loc(f.loc), "no comparison of exact numbers dominates the success marker")
    else:
        fo = fail_outcomes(last)
        alld = frozenset().union(*last.deps)
        miss = _missing(alld, need_obj)
        if fo is None or not {-1, 1} <= fo:
            _viol(ctx, "objective gate does not fail on both signs", last.loc,
                  "the last gate before the success marker (%s) does not reject both primal > dual and primal < dual objective" % last.text)
        elif miss:
            _viol(ctx, "objective gate independent of %s" % ",".join(miss), last.loc,
                  "the last gate before the success marker (%s) compares values that do not depend on %s: the primal/dual objective equality "
                  "no longer covers that part of the LP" % (last.text, ", ".join(miss)))
        else:
            res.sample({"obligation": "P-OBJ", "site": last.loc, "verdict": "fails on both signs; depends on %d leaves incl. all of %s" % (len(alld), ", ".join(need_obj))}, limit=20)


def check_infeasible(ctx):
    res, gates, loops, succ, dom, f, D = ctx["res"], ctx["gates"], ctx["loops"], ctx["succ"], ctx["dom"], ctx["f"], ctx["D"]
    marker_ok = ctx["marker_ok"]
    need = ["rhs@row", "$y@row", "matval@col*", "lower@col*", "upper@col*"]
    res.obligations += 1
    res.nontrivial += 1
    last = _last_gate(ctx)
    if last is None:
        _viol(ctx, "no gate dominates the success marker", short_loc(f.loc), "no comparison of exact numbers dominates the success marker")
    else:
        fo = fail_outcomes(last)
        alld = frozenset().union(*last.deps)
        miss = _missing(alld, need)
        if fo is None or not {-1, 0} <= fo or 1 in fo or len(last.ops) != 1:
            _viol(ctx, "Farkas value gate does not reject exactly the non-positive values", last.loc,
                  "the last gate before the success marker (%s) must fail exactly when the Farkas value is <= 0 (outcomes on which it fails: %s)" % (
                      last.text, sorted(fo) if fo is not None else "unknown"))
        elif miss:
            _viol(ctx, "Farkas value independent of %s" % ",".join(miss), last.loc,
                  "the value tested by the last gate before the success marker (%s) does not depend on %s: the infeasibility proof ignores that "
                  "part of the LP (all internal columns - structural and logical - must contribute their bound terms)" % (last.text, ", ".join(miss)))
        else:
            res.sample({"obligation": "I-OBJ", "site": last.loc, "verdict": "fails iff value <= 0; depends on %s" % ", ".join(need)}, limit=20)
    # ---- I-INF
    for side, sent in (("upper", "G:mpq_ILL_MAXDOUBLE"), ("lower", "G:mpq_ILL_MINDOUBLE")):
        S = {}
        for g in gates.values():
            if len(g.ops) != 2:
                continue
            a, b = g.direct[0] | g.direct[1], None
            cols = [l for l in a if l.startswith(side + "@col")]
            if sent not in a or not cols:
                continue
            if any(v is None for v in g.truth):
                continue
            # the edge taken when the bound equals the sentinel must lead to a gate on a multiplier that fails when it is non-zero
            eq_edge = 0 if g.truth[1] else 1
            ss = ctx["prog"].live_succs(f, f.blocks[g.bid])
            tgt = ss[eq_edge] if eq_edge < len(ss) else None
            nxt = _next_gate(ctx, tgt)
            if nxt is not None:
                fo = fail_outcomes(nxt)
                md = frozenset().union(*nxt.deps)
                if fo is not None and {-1, 1} & fo and not _missing(md, ["matval@" + cols[0].split("@")[1], "$y@row"]):
                    S[g.bid] = cols[0].split("@")[1]
        res.obligations += 1
        res.nontrivial += 1
        cover = set()
        for h in _loops_dominating_marker(ctx):
            inl = {b for b in S if b in loops[h]}
            if inl and iteration_avoids(f, succ, loops, h, inl, marker_ok) is None:
                cover |= {S[b] for b in inl}
        if not ("col" in cover or {"col:struct", "col:logical"} <= cover):
            _viol(ctx, "infinite %s bounds not excluded for every internal column" % side, short_loc(f.loc),
                  "not every internal column (index spaces covered on all paths of an iteration: %s) passes a gate that compares its %s bound with "
                  "the infinity sentinel and then rejects a non-zero multiplier: a Farkas proof may lean on an infinite bound" % (sorted(cover) or "none", side))
        else:
            res.sample({"obligation": "I-INF " + side, "verdict": "covered index spaces %s" % sorted(cover)}, limit=20)


def _bloc(f, bid):
    b = f.blocks[bid]
    loc = b.get("tloc") or (b["e"][0][2] if b["e"] else None)
    return short_loc(loc) if loc else "B%d" % bid


def _reaches(succ, a, b):
    seen, wl = {a}, [a]
    while wl:
        x = wl.pop()
        for s in succ.get(x, ()):
            if s == b:
                return True
            if s not in seen:
                seen.add(s)
                wl.append(s)
    return False


def _last_gate(ctx):
    """the gate block dominating the marker that is closest to it"""
    gates, dom, marker = ctx["gates"], ctx["dom"], ctx["marker"]
    cands = [g for g in gates.values() if g.bid in dom.get(marker, ()) and g.fail is not None]
    if not cands:
        return None
    # closest = dominated by all other candidates
    cands.sort(key=lambda g: len(dom.get(g.bid, ())))
    return cands[-1]


def _next_gate(ctx, bid, depth=12):
    """first gate reached from bid going through non-gate straight-line / macro-expansion blocks"""
    gates, succ = ctx["gates"], ctx["succ"]
    seen = set(ctx["loops"])          # never around a loop: the gate must belong to the same iteration
    wl = [bid]
    while wl and depth:
        depth -= 1
        x = wl.pop()
        if x is None or x in seen:
            continue
        seen.add(x)
        if x in gates:
            return gates[x]
        wl.extend(succ.get(x, ()))
    return None
