"""R-LOCALFIELD (C12, C17): a field of a local record is read only if something wrote it.

For every local variable of a record type (a struct on the stack, not a pointer): each field that the function reads from it must be
written somewhere in the function - by a direct assignment, by a whole-object operation (initialiser, struct assignment, memset), or
by a callee that is handed the object's address and whose effect summary writes that field (an external or unresolved callee is
assumed to write everything).  QSexact_basis_dualstatus on the pinned tree reads fi.pstatus, which only ILLfct_check_pfeasible writes
and which it never calls: the verdict depended on what the previous call left on the stack."""
import collections

from ..core import walk, strip, is_var, callee, const_of, apath, fields_of, show, short_loc
from ..effects import Effects
from ..result import RuleResult, Violation


def run(prog, E=None, scope=None, rule="R-LOCALFIELD", floor=20):
    E = E or Effects(prog)
    res = RuleResult(rule, "every field a function reads from a local record object is written in that function: directly, by a whole-object "
                           "operation, or by a callee that receives the object's address and writes the field")
    nobj = 0
    from .neverset import _is_scalar
    ftype = {}
    for rn, r in prog.records.items():
        for fn_, ft, ct in r["fields"]:
            ftype[rn + "::" + fn_] = ct
    for f in sorted(prog.funcs.values(), key=lambda x: x.key):
        if "_dbl." in f.unit or "_mpf." in f.unit or f.live is None or not (f.unit.startswith("qsopt_ex/") or f.unit.startswith("esolver/")):
            continue
        if scope is not None and not scope(f):
            continue
        recs = {}
        for n, ty in f.ltypes.items():
            t = (ty or "").replace("const ", "").replace("struct ", "").strip()
            if t in prog.records and "*" not in t and "[" not in t:
                recs[n] = t
        if not recs:
            continue
        written = collections.defaultdict(set)     # local -> fields ; '*' = everything
        reads = collections.defaultdict(list)

        def lhs_field(t):
            t = strip(t)
            if isinstance(t, list) and t and t[0] == "m" and is_var(t[1], kind="l") and strip(t[1])[2] in recs:
                return strip(t[1])[2], t[2]
            return None

        def scan_reads(t, loc, skip=None):
            for nd in walk(t):
                if nd is skip:
                    continue
                if nd[0] == "m" and is_var(nd[1], kind="l") and strip(nd[1])[2] in recs and nd is not skip:
                    reads[strip(nd[1])[2]].append((nd[2], loc))
        for b, i, e in f.elements():
            if e[0] == "D":
                for n2, init in e[1]:
                    if n2 in recs and init is not None:
                        written[n2].add("*")
                    elif init is not None:
                        scan_reads(init, e[2])
            elif e[0] == "A":
                lf = lhs_field(e[1][2])
                if lf:
                    written[lf[0]].add(lf[1])
                    if e[1][1] != "=":
                        reads[lf[0]].append((lf[1], e[2]))
                elif is_var(e[1][2], kind="l") and strip(e[1][2])[2] in recs:
                    written[strip(e[1][2])[2]].add("*")
                else:
                    # nested field  L.a.b = ..: counts as a write of L.a
                    p = apath(e[1][2])
                    if p[0] == "l" and p[1] in recs and fields_of(p[2]):
                        written[p[1]].add(fields_of(p[2])[0])
                scan_reads(e[1][3], e[2])
            elif e[0] == "C":
                c = e[1]
                g = prog.resolve(f, c[1]) if c[1] is not None else None
                for k, a in enumerate(c[3]):
                    a0 = strip(a)
                    if isinstance(a0, list) and a0 and a0[0] == "u" and a0[1] == "&":
                        inner = strip(a0[2])
                        if is_var(inner, kind="l") and inner[2] in recs:
                            L = inner[2]
                            if g is None or not g.blocks:
                                written[L].add("*")          # external / unresolved: assumed to fill the object
                            else:
                                for (pk, fp) in E.W.get(g.key, ()):
                                    if pk == k and fp:
                                        written[L].add(fp[0])
                            continue
                        # &L.field handed out: that field may be written
                        if isinstance(inner, list) and inner and inner[0] == "m":
                            p = apath(inner)
                            if p[0] == "l" and p[1] in recs and fields_of(p[2]):
                                written[p[1]].add(fields_of(p[2])[0])
                            continue
                    scan_reads(a, c[4])
            elif e[0] in ("R", "U") and e[1] is not None:
                if e[0] == "U":
                    lf = lhs_field(e[1][2])
                    if lf:
                        written[lf[0]].add(lf[1])
                scan_reads(e[1], e[2] if len(e) > 2 else f.loc)
        for bid in f.live:
            c = f.blocks[bid].get("c")
            if c is not None:
                scan_reads(c, f.blocks[bid].get("tloc") or f.loc)
        for L, rec in sorted(recs.items()):
            if not reads[L]:
                continue
            nobj += 1
            seen = set()
            for fld, loc in reads[L]:
                if fld in seen:
                    continue
                seen.add(fld)
                ct = ftype.get(fld)
                if not _is_scalar(ct):
                    continue                      # arrays / numbers are handed to their initialisers by address
                res.obligations += 1
                if "*" in written[L] or fld in written[L]:
                    continue
                res.nontrivial += 1
                res.violations.append(Violation(rule, "%s|%s.%s read but never written" % (f.name.replace("mpq_", ""), L, fld.split("::")[1]), f.name, short_loc(loc),
                                                "%s.%s is read, but the function never assigns it, never initialises %s as a whole, and no callee that receives &%s "
                                                "writes that field: the value is whatever the stack held" % (L, fld.split("::")[1], L, L)))
    res.counts["local_record_objects_read"] = nobj
    res.floor("local record objects whose fields are read", nobj, floor)
    return res
