"""R-DUPMARK (C07): a list that is applied through a mark array and counted by its length cannot contain an element twice.

ILLlib_delrows / ILLlib_delcols mark the listed rows (columns) in a flag array, compact the arrays by the marks, and then lower the
dimension fields by `num`, the *length of the list*.  The two agree only if no element is listed twice.  Wherever a function stores a
constant into M[..L[i]..] inside a loop `i < n` over an externally supplied list L (n and L parameters), and also subtracts n from a
field, the marking loop must test the mark of the element before it sets it (the duplicate is rejected or skipped): a condition that
reads M[..L[i]..] inside the same loop."""
import collections

from ..core import walk, strip, is_var, callee, const_of, apath, fields_of, show, short_loc
from ..result import RuleResult, Violation
from .certdep import natural_loops


def run(prog, rule="R-DUPMARK", floor=2):
    res = RuleResult(rule, "a marking loop over an external list whose length is later subtracted from a dimension tests the mark before setting it")
    n = 0
    for f in sorted(prog.funcs.values(), key=lambda x: x.key):
        if f.live is None or "_dbl." in f.unit or "_mpf." in f.unit or not f.unit.startswith("qsopt_ex/"):
            continue
        iparams = {p[0] for p in f.params if p[2].replace("const ", "").strip() == "int"}
        lparams = {p[0] for p in f.params if p[2].replace("const ", "").strip() in ("int *", "int *const")}
        if not iparams or not lparams:
            continue
        # counts subtracted from a field:  X->dim -= n   /  X->dim = X->dim - n
        subtracted = set()
        for b, i, e in f.elements():
            if e[0] == "A" and isinstance(strip(e[1][2]), list) and strip(e[1][2])[0] == "m":
                r = strip(e[1][3])
                if e[1][1] == "-=" and is_var(r) and r[2] in iparams:
                    subtracted.add(r[2])
                if e[1][1] == "=" and isinstance(r, list) and r and r[0] == "b" and r[1] == "-" and is_var(r[3]) and strip(r[3])[2] in iparams:
                    subtracted.add(strip(r[3])[2])
        if not subtracted:
            continue
        loops, dom, succ = natural_loops(prog, f)
        clean_after = {}         # list name -> headers of marking loops over it that test the mark (the list is duplicate-free behind them)
        pending = []
        for h, body in loops.items():
            c = f.blocks[h].get("c")
            c0 = strip(c) if c is not None else None
            if not (isinstance(c0, list) and c0 and c0[0] == "b" and c0[1] == "<" and is_var(c0[2]) and is_var(c0[3]) and strip(c0[3])[2] in subtracted):
                continue
            iv = strip(c0[2])[2]
            # marking stores in the loop:  M[ ... L[iv] ... ] = const
            for bid in sorted(body):
                for i, e in enumerate(f.blocks[bid]["e"]):
                    if e[0] != "A" or e[1][1] != "=" or const_of(e[1][3]) in (None, 0):
                        continue
                    l = strip(e[1][2])
                    if not (isinstance(l, list) and l and l[0] == "i" and is_var(l[1], kind="l")):
                        continue
                    uses_list = any(isinstance(nd, list) and nd and nd[0] == "i" and is_var(nd[1]) and strip(nd[1])[2] in lparams and is_var(nd[2], name=iv)
                                    for nd in walk(l[2]))
                    if not uses_list:
                        continue
                    n += 1
                    res.obligations += 1
                    res.nontrivial += 1
                    mark = strip(l[1])[2]
                    tested = False
                    for b2 in body:
                        c2 = f.blocks[b2].get("c")
                        if c2 is None or b2 == h:
                            continue
                        for nd in walk(c2):
                            if isinstance(nd, list) and nd and nd[0] == "i" and is_var(nd[1], name=mark, kind="l") and \
                                    any(isinstance(x, list) and x and x[0] == "i" and is_var(x[1]) and strip(x[1])[2] in lparams for x in walk(nd[2])):
                                tested = True
                    lname = next(strip(nd[1])[2] for nd in walk(l[2]) if isinstance(nd, list) and nd and nd[0] == "i" and is_var(nd[1]) and strip(nd[1])[2] in lparams)
                    if tested:
                        clean_after.setdefault(lname, set()).add(h)
                        res.sample({"site": "%s %s: %s" % (short_loc(e[2]), f.name, show(e[1])[:60]), "verdict": "the mark is tested before it is set"}, limit=6)
                    else:
                        pending.append((h, lname, Violation(rule, "%s|%s marked without a duplicate test, %s subtracted" % (f.name.replace("mpq_", ""), mark, strip(c0[3])[2]), f.name, short_loc(e[2]),
                                                        "%s marks the listed elements and the function later lowers a dimension by the list length %s, but the loop never looks at "
                                                        "the mark it is about to set: an element listed twice is removed once and counted twice" % (show(e[1])[:60], strip(c0[3])[2]))))
        for (h, lname, v) in pending:
            # an earlier marking loop over the same list that rejects duplicates dominates this one: the list is known duplicate-free
            if any(h2 in dom.get(h, ()) and h2 != h for h2 in clean_after.get(lname, ())):
                res.sample({"site": v.loc, "verdict": "a dominating marking loop over %s already rejects duplicates" % lname}, limit=6)
            else:
                res.violations.append(v)
    res.counts["marking_loops_counted_by_list_length"] = n
    res.floor("marking loops over an external list whose length is subtracted", n, floor)
    return res
