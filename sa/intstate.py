"""Helpers for tracking the zero / non-zero value class of int error-code variables (rval and the
__EGrval__ temporaries of EGcall) inside the set-of-tuples dataflow."""
import re

from .core import strip, is_var, const_of
from .cond import atoms, SWAP

Z, NZ = "Z", "NZ"


def norm_local(name):
    return re.sub(r"@\d+$", "", name)


class IntCells:
    """names: list of (normalised) local/param names tracked, each with value Z/NZ.
    The state tuple layout is owned by the client: get(st, name) / put(st, name, v)."""

    def __init__(self, names, get, put):
        self.names = set(names)
        self.get = get
        self.put = put

    def cell(self, t):
        t = strip(t)
        if is_var(t) and (t[1] == "l" or t[1].startswith("p")):
            n = norm_local(t[2])
            if n in self.names:
                return n
            if n in ("__RVAL__", "__EGrval__") and "__EGrval__" in self.names:
                return "__EGrval__"   # EG_RETURN / EGcall temporaries share the temp slot (never live together)
        return None

    def values(self, st, rhs):
        """possible value classes of expression rhs in state st"""
        rhs = strip(rhs)
        k = const_of(rhs)
        if k is not None:
            return [NZ if k else Z]
        c = self.cell(rhs)
        if c is not None:
            return [self.get(st, c)]
        if isinstance(rhs, list) and rhs:
            if rhs[0] == "b" and rhs[1] == "||":
                a = self.values(st, rhs[2])
                b = self.values(st, rhs[3])
                out = set()
                for x in a:
                    for y in b:
                        out.add(NZ if (x == NZ or y == NZ) else Z)
                return sorted(out)
            if rhs[0] == "b" and rhs[1] == "&&":
                a = self.values(st, rhs[2])
                b = self.values(st, rhs[3])
                out = set()
                for x in a:
                    for y in b:
                        out.add(NZ if (x == NZ and y == NZ) else Z)
                return sorted(out)
            if rhs[0] == "u" and rhs[1] == "!":
                return sorted({Z if v == NZ else NZ for v in self.values(st, rhs[2])})
            if rhs[0] == "a":
                c2 = self.cell(rhs[2])
                if c2 is not None:
                    return [self.get(st, c2)]
            if rhs[0] == "q":
                return sorted(set(self.values(st, rhs[2])) | set(self.values(st, rhs[3])))
        return [Z, NZ]

    def assign(self, st, lhs, rhs, op="="):
        """returns list of new states if lhs is a tracked cell, else None"""
        c = self.cell(lhs)
        if c is None:
            return None
        if op == "=":
            vals = self.values(st, rhs)
        elif op in ("+=", "|="):
            cur = self.get(st, c)
            vals = sorted({NZ if (cur == NZ or v == NZ) else Z for v in self.values(st, rhs)}) if op == "|=" else [Z, NZ] if cur == NZ else self.values(st, rhs)
            if op == "+=" and cur == NZ:
                vals = [NZ]    # error codes are accumulated as non-negative counts in this code base
        else:
            vals = [Z, NZ]
        return [self.put(st, c, v) for v in vals]

    def declare(self, st, name, init):
        n = norm_local(name)
        if n in ("__RVAL__", "__EGrval__") and "__EGrval__" in self.names:
            n = "__EGrval__"
        if n not in self.names:
            return None
        if init is None:
            return [self.put(st, n, Z), self.put(st, n, NZ)]
        return [self.put(st, n, v) for v in self.values(st, init)]

    def refine(self, cond, truth, st):
        """returns [] if infeasible, [st] if feasible/unknown"""
        for l, op, r in atoms(cond, truth):
            for a, b, o in ((l, r, op), (r, l, SWAP[op])):
                c = self.cell(a)
                if c is None and isinstance(a, list) and a and a[0] == "a":
                    c = self.cell(a[2])
                k = const_of(b)
                if c is not None and k == 0 and o in ("==", "!="):
                    v = self.get(st, c)
                    if (o == "==" and v == NZ) or (o == "!=" and v == Z):
                        return []
                elif c is not None and k is not None and k != 0 and o == "==":
                    if self.get(st, c) == Z:
                        return []
        return [st]
